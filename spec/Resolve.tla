-------------------------------- MODULE Resolve --------------------------------
(***************************************************************************)
(* C09, "with inherited defaults": how `sign recursive` resolves, for each *)
(* node of the configuration tree, the settings it signs with.             *)
(*   sign-script, kms-script : the node's own entry, else the value        *)
(*        RESOLVED for its parent, else the environment variable           *)
(*        NCS_SUIT_SIGN_SCRIPT / NCS_SUIT_KMS_SCRIPT, else the script      *)
(*        under ZEPHYR_BASE, else the configuration is refused;            *)
(*   alg     : own, else the parent's resolved one, else EdDSA;            *)
(*   context : own, else the parent's resolved one, else none;             *)
(*   already-signed-action : own, else "error" (NOT inherited);            *)
(*   key-name, key-id, omit-signing : own only.                            *)
(* Identities are strings: scripts "A", "B" (configuration), "E" (NCS_*    *)
(* variable), "Z" (ZEPHYR_BASE), contexts "C1", "C2"; "none" = not given.  *)
(* The observation is made at the linearization point of the resolution:   *)
(* the call RecursiveSigner makes into the sign script for a node, which   *)
(* carries every resolved setting (the harness's sign scripts are thin     *)
(* wrappers around the repository's that append the call to a log).        *)
(***************************************************************************)
EXTENDS Integers, Sequences, FiniteSets, TLC

Script(own, inh, envNcs, envZ) ==
  IF own # "none" THEN own ELSE IF inh # "none" THEN inh ELSE IF envNcs THEN "E" ELSE IF envZ THEN "Z" ELSE "error"
Inherit(own, inh) == IF own # "none" THEN own ELSE inh
Action(own) == IF own # "none" THEN own ELSE "error"

\* chain : sequence of own settings [sign, kms, ctx, alg, action], root first; env = [ncsSign, ncsKms, zephyr : BOOLEAN]
RECURSIVE ResolveFrom(_, _, _, _)
ResolveFrom(chain, i, inh, env) ==
  IF i > Len(chain) THEN <<>>
  ELSE LET o == chain[i]
           r == [sign |-> Script(o.sign, inh.sign, env.ncsSign, env.zephyr),
                 kms |-> Script(o.kms, inh.kms, env.ncsKms, env.zephyr),
                 ctx |-> Inherit(o.ctx, inh.ctx), alg |-> Inherit(o.alg, inh.alg), action |-> Action(o.action)] IN
       <<r>> \o ResolveFrom(chain, i + 1, r, env)
Resolved(chain, env) == ResolveFrom(chain, 1, [sign |-> "none", kms |-> "none", ctx |-> "none", alg |-> "eddsa", action |-> "error"], env)
Refused(chain, env) == \E i \in 1..Len(chain) : Resolved(chain, env)[i].sign = "error" \/ Resolved(chain, env)[i].kms = "error"

\* e = [env, chain, written, used : sequence (root first) of what the sign script was called with]
ResolveJudge(e) ==
  LET want == Resolved(e.chain, e.env) IN
  IF Refused(e.chain, e.env) THEN (IF e.written THEN "UnresolvableScriptRefusedWithoutOutput" ELSE "ok")
  ELSE IF ~e.written THEN "ResolvableConfigurationSigned"
  ELSE IF Len(e.used) # Len(e.chain) THEN "EveryNamedNodeSignedOnce"
  ELSE IF \E i \in 1..Len(want) : e.used[i].sign # want[i].sign THEN "SignScriptOwnThenInheritedThenEnvironment"
  ELSE IF \E i \in 1..Len(want) : e.used[i].kms # want[i].kms THEN "KmsScriptOwnThenInheritedThenEnvironment"
  ELSE IF \E i \in 1..Len(want) : e.used[i].ctx # want[i].ctx THEN "ContextOwnThenInherited"
  ELSE IF \E i \in 1..Len(want) : e.used[i].alg # want[i].alg THEN "AlgorithmOwnThenInheritedThenEdDSA"
  ELSE IF \E i \in 1..Len(want) : e.used[i].action # want[i].action THEN "ActionOwnElseError"
  ELSE "ok"
=============================================================================
