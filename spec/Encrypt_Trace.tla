----------------------------- MODULE Encrypt_Trace -----------------------------
(***************************************************************************)
(* Use C for C06 / C14:                                                    *)
(*   Begin {}                       one history (one key)                  *)
(*   Enc   {...}                    encrypt-and-generate run (C06)         *)
(*   Gen   {...}                    generate-info run (C06)                *)
(*   Iv    {iv, dec, pt}            one encryption of a history (C14):     *)
(*                                  iv interned in order of appearance     *)
(***************************************************************************)
EXTENDS Encrypt, Json, IOUtils
Log == ndJsonDeserialize(IOEnv.TRACE_FILE)
VARIABLES l, st, bad, dead
Judge(s, e) ==
  CASE e.ev = "Enc" -> EncJudge(e)
    [] e.ev = "Gen" -> GenJudge(e)
    [] e.ev = "Install" -> InstallJudge(e)
    [] e.ev = "Iv"  -> (IF FreshJudge(s.next, e.iv) # "ok" THEN FreshJudge(s.next, e.iv)
                        ELSE IF e.dec # e.pt THEN "PublishedIvIsTheOneUsed" ELSE "ok")
    [] OTHER -> "UnknownEvent"
Effect(s, e) == IF e.ev = "Iv" THEN [s EXCEPT !.next = @ + 1] ELSE s
Start(e) == [next |-> 0]
TB == INSTANCE TraceBatch
Spec == TB!Spec
Report == TB!Report
AllConsumed == TB!AllConsumed
=============================================================================
