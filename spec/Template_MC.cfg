SPECIFICATION Spec
CONSTANTS
  EMIT = TRUE
INVARIANT ModelAccepted
INVARIANT Emit
CHECK_DEADLOCK FALSE
