------------------------------ MODULE Keys_Trace ------------------------------
(***************************************************************************)
(* Use C for C15:  Keys {type, enc, privfmt, pubfmt, r}                    *)
(*                 Convert {type, x, y, raw, c}                            *)
(***************************************************************************)
EXTENDS Keys, Json, IOUtils
Log == ndJsonDeserialize(IOEnv.TRACE_FILE)
VARIABLES l, st, bad, dead
Judge(s, e) == CASE e.ev = "Keys" -> KeysJudge(e.type, e.enc, e.privfmt, e.pubfmt, e.r)
                 [] e.ev = "Convert" -> ConvertJudge(e.type, e.x, e.y, e.raw, e.c)
                 [] OTHER -> "UnknownEvent"
Effect(s, e) == s
Start(e) == [x |-> 0]
TB == INSTANCE TraceBatch
Spec == TB!Spec
Report == TB!Report
AllConsumed == TB!AllConsumed
=============================================================================
