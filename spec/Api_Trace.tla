------------------------------- MODULE Api_Trace -------------------------------
EXTENDS Api, Json, IOUtils
Log == ndJsonDeserialize(IOEnv.TRACE_FILE)
VARIABLES l, st, bad, dead
Judge(s, e) == CASE e.ev = "Api" -> ApiJudge(e) [] e.ev = "Simplified" -> SimplifiedJudge(e) [] OTHER -> "UnknownEvent"
Effect(s, e) == s
Start(e) == [x |-> 0]
TB == INSTANCE TraceBatch
Spec == TB!Spec
Report == TB!Report
AllConsumed == TB!AllConsumed
=============================================================================
