------------------------------- MODULE Kms_Trace -------------------------------
EXTENDS Kms, Json, IOUtils
Log == ndJsonDeserialize(IOEnv.TRACE_FILE)
VARIABLES l, st, bad, dead
Judge(s, e) == CASE e.ev = "Sign" -> SignJudge(e) [] e.ev = "Context" -> ContextJudge(e) [] e.ev = "EncKey" -> EncKeyJudge(e)
                 [] OTHER -> "UnknownEvent"
Effect(s, e) == s
Start(e) == [x |-> 0]
TB == INSTANCE TraceBatch
Spec == TB!Spec
Report == TB!Report
AllConsumed == TB!AllConsumed
=============================================================================
