----------------------------- MODULE Template_MC -----------------------------
(***************************************************************************)
(* Use A / B for C19: the component-index bookkeeping of                   *)
(* root_with_nordic_top_envelope.yaml.jinja2 as a model: for every         *)
(* non-empty subset of {radio, application, top}, custom or default MPI    *)
(* names and each version setting, the model emits the command trace the   *)
(* template is meant to produce and the Processor judges must accept every *)
(* step (IndexDeclared, DependenciesAreManifestComponents, FetchResolves,  *)
(* ParentDigestEqualsChildManifestDigest, InstalledClassIds...).  An index *)
(* that is off by one for one subset is a TLC counterexample.  The         *)
(* configuration space (also for the top template) is printed for replay   *)
(* through the real Jinja rendering and create.                            *)
(***************************************************************************)
EXTENDS Processor, Json
CONSTANT EMIT
Images == <<"radio", "application", "top">>
VARIABLES present, custom, vers, tmpl
vars == <<present, custom, vers, tmpl>>
Init == /\ tmpl \in {"root", "top"}
        /\ present \in (IF tmpl = "root" THEN (SUBSET {"radio", "application", "top"}) \ {{}} ELSE {{"secdom", "sysctrl"}})
        /\ custom \in (IF tmpl = "root" THEN BOOLEAN ELSE {FALSE})
        /\ vers \in {"none", "default", "specific"}
Next == UNCHANGED vars
Spec == Init /\ [][Next]_vars

\* ---- the root template's bookkeeping ------------------------------------------------------------------------
Present == SelectSeq(Images, LAMBDA x : x \in present)
IndexOf(img) == CHOOSE i \in 1..Len(Present) : Present[i] = img         \* component index of an image (CAND_MFST is 0)
ClassTerm(img) == CASE img = "radio" -> "n1" [] img = "application" -> "n2" [] img = "top" -> "n3"
Comps == <<<<"CAND_MFST", "?">>>> \o [i \in 1..Len(Present) |-> <<"INSTLD_MFST", ClassTerm(Present[i])>>]
List == [i \in 1..Len(Present) |-> i]
ListNoTop == SelectSeq(List, LAMBDA i : Present[i] # "top")
NameId(img) == CASE img = "radio" -> 101 [] img = "application" -> 102 [] img = "top" -> 103
Mfw(img) == CASE img = "radio" -> 201 [] img = "application" -> 202 [] img = "top" -> 203
Hdr == [comps |-> Comps, deps |-> <<0>> \o List,
        integ |-> [i \in 1..Len(Present) |-> <<NameId(Present[i]), Mfw(Present[i]), ClassTerm(Present[i])>>],
        allowed |-> <<"n1", "n2", "n3">>]
C(seq, code, idx, uri, local, dg) == [seq |-> seq, code |-> code, idx |-> idx, uri |-> uri, dg |-> dg]
RECURSIVE Cat(_)
Cat(ss) == IF ss = <<>> THEN <<>> ELSE Head(ss) \o Cat(Tail(ss))
Shared == <<C("shared", 12, List, -1, FALSE, -1), C("shared", 20, <<>>, -1, FALSE, -1), C("shared", 1, <<>>, -1, FALSE, -1)>>
DepSeq(n) == <<C(n, 12, ListNoTop, -1, FALSE, -1), C(n, 7, <<>>, -1, FALSE, -1), C(n, 11, <<>>, -1, FALSE, -1)>>
Install == <<C("install", 12, <<0>>, -1, FALSE, -1)>> \o
           Cat([i \in 1..Len(Present) |-> <<C("install", 20, <<>>, NameId(Present[i]), TRUE, -1), C("install", 21, <<>>, -1, TRUE, -1),
                                            C("install", 7, <<>>, -1, FALSE, -1), C("install", 11, <<>>, -1, FALSE, -1)>>])
Verify == <<C("candidate-verification", 12, <<0>>, -1, FALSE, -1)>> \o
          Cat([i \in 1..Len(Present) |-> <<C("candidate-verification", 20, <<>>, NameId(Present[i]), TRUE, Mfw(Present[i])),
                                           C("candidate-verification", 21, <<>>, -1, TRUE, -1),
                                           C("candidate-verification", 3, <<>>, -1, FALSE, -1),
                                           C("candidate-verification", 7, <<>>, -1, FALSE, -1),
                                           C("candidate-verification", 11, <<>>, -1, FALSE, -1)>>])
Trace == Shared \o DepSeq("validate") \o DepSeq("invoke") \o Install \o Verify

RECURSIVE RunFrom(_, _, _)
RunFrom(h, s, k) == IF k > Len(Trace) THEN "ok"
                    ELSE LET j == StepJudge(h, s, Trace[k]) IN
                         IF j # "ok" THEN j ELSE RunFrom(h, StepEffect(h, s, Trace[k]), k + 1)

ModelAccepted == tmpl = "root" => (HeaderJudge(Hdr) = "ok" /\ RunFrom(Hdr, InitProc(Hdr), 1) = "ok")
Emit == EMIT => PrintT("SCN " \o ToJson([tmpl |-> tmpl, present |-> present, custom |-> custom, vers |-> vers]))
=============================================================================
