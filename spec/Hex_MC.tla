------------------------------- MODULE Hex_MC -------------------------------
(***************************************************************************)
(* Use A for the HEX layer (C07/C12/C16): a WRITER model in the shape of   *)
(* the intelhex library (ascending data records of at most RL bytes that   *)
(* never cross a 64 KiB offset boundary, an extended-linear-address record *)
(* whenever the upper half changes, EOF at the end) composed with the      *)
(* READER machine of Hex.tla.  For every region placement explored the     *)
(* reader must accept every record and end with the region covered exactly *)
(* once; a corrupted byte, a dropped record or a wrong upper address must  *)
(* be rejected (checked as invariants on deliberately faulty writers).     *)
(* Regions are placed at the very end of a 64 KiB page so that the         *)
(* boundary logic is reached with a handful of bytes.                      *)
(***************************************************************************)
EXTENDS Update

CONSTANTS RL,        \* max data bytes per record
          LENS,      \* region lengths
          BACK,      \* region starts at 64K - d for d \in BACK (on page HI)
          HIS        \* upper halves tried
VARIABLES recs,      \* records still to be read
          regs,      \* the expected image
          h,         \* reader state
          verdict, fault

vars == <<recs, regs, h, verdict, fault>>

RECURSIVE WriteFrom(_, _, _, _)
\* records for bytes[k+1..] located at address a; lastHi = upper half announced so far (-1 none)
WriteFrom(bytes, k, a, lastHi) ==
  IF k >= Len(bytes) THEN <<[t |-> 1, off |-> 0, data |-> <<>>]>>
  ELSE IF a[1] # lastHi
       THEN <<[t |-> 4, off |-> 0, data |-> <<a[1] \div 256, a[1] % 256>>]>> \o WriteFrom(bytes, k, a, a[1])
       ELSE LET room == W16 - a[2]
                left == Len(bytes) - k
                n0 == IF left < RL THEN left ELSE RL
                n == IF n0 < room THEN n0 ELSE room IN
            <<[t |-> 0, off |-> a[2], data |-> SubSeq(bytes, k + 1, k + n)]>>
            \o WriteFrom(bytes, k + n, AddSmall(a, n), lastHi)

Bytes(n) == [i \in 1..n |-> (i * 37) % 256]

Corrupt(rs) ==   \* flip one byte of the first data record
  LET i == CHOOSE i \in 1..Len(rs) : rs[i].t = 0 /\ \A j \in 1..(i - 1) : rs[j].t # 0 IN
  [rs EXCEPT ![i].data[1] = (@ + 1) % 256]
DropOne(rs) ==   \* drop the last data record
  LET i == CHOOSE i \in 1..Len(rs) : rs[i].t = 0 /\ \A j \in (i + 1)..Len(rs) : rs[j].t # 0 IN
  SubSeq(rs, 1, i - 1) \o SubSeq(rs, i + 1, Len(rs))
WrongHi(rs) ==   \* announce another upper half in the first type-4 record
  LET i == CHOOSE i \in 1..Len(rs) : rs[i].t = 4 /\ \A j \in 1..(i - 1) : rs[j].t # 4 IN
  [rs EXCEPT ![i].data[2] = (@ + 1) % 256]

Init ==
  \E n \in LENS, d \in BACK, hi \in HIS, f \in {"none", "corrupt", "drop", "wronghi"} :
    LET a == <<hi, W16 - d>>
        good == WriteFrom(Bytes(n), 0, a, -1) IN
    /\ (hi < 65535 \/ n <= d)              \* address + size stays within 32 bits (as C16 states)
    /\ regs = <<[addr |-> a, bytes |-> Bytes(n)]>>
    /\ fault = f
    /\ recs = CASE f = "none" -> good [] f = "corrupt" -> Corrupt(good) [] f = "drop" -> DropOne(good)
                [] OTHER -> WrongHi(good)
    /\ h = HexInit(1)
    /\ verdict = "ok"

Read ==
  /\ recs # <<>> /\ verdict = "ok"
  /\ LET j == RecJudge(h, regs, Head(recs)) IN
       /\ verdict' = j
       /\ h' = IF j = "ok" THEN RecEffect(h, regs, Head(recs)) ELSE h
  /\ recs' = Tail(recs)
  /\ UNCHANGED <<regs, fault>>

Finish ==
  /\ recs = <<>> /\ verdict = "ok" /\ h.eof
  /\ verdict' = (IF EndJudge(h, regs) = "ok" THEN "accepted" ELSE EndJudge(h, regs))
  /\ UNCHANGED <<recs, regs, h, fault>>

Next == Read \/ Finish
Spec == Init /\ [][Next]_vars

\* the faithful writer is accepted at every step; every faulty writer is never accepted
GoodWriterAccepted == fault = "none" => verdict \in {"ok", "accepted"}
FaultyWriterNeverAccepted == fault # "none" => verdict # "accepted"
\* LE32 round trip and record length of the candidate record (all 16-bit halves sampled)
ASSUME \A hi \in {0, 1, 255, 256, 21930, 65535}, lo \in {0, 1, 255, 256, 43605, 65535} : FromLE32(LE32(<<hi, lo>>)) = <<hi, lo>>
ASSUME \A c \in 0..16 : Len(UciRecord(<<3614, 0>>, <<1, 4464>>, c)) = 16 + 8 * c
=============================================================================
