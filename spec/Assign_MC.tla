------------------------------ MODULE Assign_MC ------------------------------
(***************************************************************************)
(* Use A for C13: EnvelopeStorage.__init__ as the code runs it - defaults  *)
(* are assigned first, then every configuration entry in order, each       *)
(* assignment keyed by the class id (a later one for the same pair         *)
(* overrides), duplicate pairs inside the configuration raise - over ALL   *)
(* configurations giving each of the three configurable roles no pair or   *)
(* one of {the three default pairs, two custom pairs}.  The resulting      *)
(* lookup must agree with the property-level RoleOf / ConfigRejected used  *)
(* on traces.  With EMIT the configurations are printed for replay.        *)
(***************************************************************************)
EXTENDS Assign, Json

CONSTANT EMIT
CRoles == <<"APP_ROOT", "APP_LOCAL_1", "RAD_LOCAL_1">>
Pairs == {"dRoot", "dApp", "dRad", "cA", "cB"}
Defaults == <<<<"APP_ROOT", "dRoot">>, <<"APP_LOCAL_1", "dApp">>, <<"RAD_LOCAL_1", "dRad">>>>

VARIABLES choice, table, phase, k
vars == <<choice, table, phase, k>>

Cfg == SelectSeq([i \in 1..3 |-> <<CRoles[i], choice[i]>>], LAMBDA x : x[2] # "-")

Init == /\ choice \in [1..3 -> Pairs \cup {"-"}]
        /\ table = [p \in {Defaults[i][2] : i \in 1..3} |-> Defaults[CHOOSE i \in 1..3 : Defaults[i][2] = p][1]]
        /\ phase = "config" /\ k = 1

\* _get_role_assignments_from_kconfig raises on a duplicate pair BEFORE anything is assigned
Check == /\ phase = "config"
         /\ phase' = IF ConfigRejected(Cfg) THEN "rejected" ELSE "assign"
         /\ UNCHANGED <<choice, table, k>>
AssignOne == /\ phase = "assign" /\ k <= Len(Cfg)
             /\ table' = [p \in DOMAIN table \cup {Cfg[k][2]} |-> IF p = Cfg[k][2] THEN Cfg[k][1] ELSE table[p]]
             /\ k' = k + 1 /\ UNCHANGED <<choice, phase>>
Done == /\ phase = "assign" /\ k > Len(Cfg) /\ phase' = "ready" /\ UNCHANGED <<choice, table, k>>
Next == Check \/ AssignOne \/ Done
Spec == Init /\ [][Next]_vars

Lookup(p) == IF p \in DOMAIN table THEN table[p] ELSE "NONE"
LookupAgreesWithProperty == phase = "ready" => \A p \in Pairs : Lookup(p) = RoleOf(Defaults, Cfg, p)
RejectedIffDuplicate == (phase = "rejected" => ConfigRejected(Cfg)) /\ (phase = "ready" => ~ConfigRejected(Cfg))
Emit == (EMIT /\ phase \in {"ready", "rejected"}) => PrintT("SCN " \o ToJson([cfg |-> Cfg, rejected |-> phase = "rejected"]))
=============================================================================
