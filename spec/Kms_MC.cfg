SPECIFICATION Spec
CONSTANTS
  EMIT = TRUE
INVARIANT ModelKeepsContract
INVARIANT DeviationsAreRefusalsGoneWrong
INVARIANT Emit
CHECK_DEADLOCK FALSE
