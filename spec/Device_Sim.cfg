SPECIFICATION Spec
CONSTANTS
  MAXLEN = 6
  EMIT = TRUE
  SIM = TRUE
INVARIANT Emit
CHECK_DEADLOCK FALSE
