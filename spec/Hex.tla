-------------------------------- MODULE Hex --------------------------------
(***************************************************************************)
(* Intel-HEX READER semantics as a state machine over records: the meaning *)
(* of a .hex file is the memory image it loads.  Used by C07, C12, C16:    *)
(* the specification builds the expected image as a list of regions        *)
(* [addr : <<hi16, lo16>>, bytes : Seq(0..255)] and every data record of   *)
(* the real file is checked against it; at the end every expected byte     *)
(* must have been written exactly once and nothing else.                   *)
(* Record order, record length and start-address records are free.         *)
(*                                                                         *)
(* State: [ula, seg, eof, cov]   cov[i] = set of disjoint, merged          *)
(*        half-open offset intervals <<from, to>> of region i written.     *)
(***************************************************************************)
EXTENDS Word, FiniteSets, TLC

HexInit(nregs) == [ula |-> 0, seg |-> -1, eof |-> FALSE, cov |-> [i \in 1..nregs |-> {}]]

\* absolute address of byte k (0-based) of a data record with 16-bit offset `off`
ByteAddr(s, off, k) ==
  IF s.seg >= 0
  THEN \* extended segment addressing: (seg * 16 + ((off + k) mod 64K)) - 20 bit, offset wraps inside the segment
       LET o == (off + k) % W16
           lin == s.seg * 16 + o
       IN <<lin \div W16, lin % W16>>
  ELSE AddSmall(<<s.ula, off>>, k)

RegionOf(regs, a) ==   \* index of the region containing address a, or 0
  LET c == {i \in 1..Len(regs) : LET d == Diff(a, regs[i].addr) IN d >= 0 /\ d < Len(regs[i].bytes)}
  IN IF c = {} THEN 0 ELSE CHOOSE i \in c : TRUE

Overlaps(S, f, t) == \E iv \in S : iv[1] < t /\ f < iv[2]
AddIv(S, f, t) ==
  LET left == {iv \in S : iv[2] = f}
      right == {iv \in S : iv[1] = t}
      nf == IF left = {} THEN f ELSE (CHOOSE iv \in left : TRUE)[1]
      nt == IF right = {} THEN t ELSE (CHOOSE iv \in right : TRUE)[2]
  IN (S \ (left \cup right)) \cup {<<nf, nt>>}

\* judge a data record piecewise: the run starting at byte k (0-based) of the record
RECURSIVE DataRun(_, _, _, _, _)
DataRun(s, regs, off, data, k) ==      \* returns [j : verdict, cov]
  IF k >= Len(data) THEN [j |-> "ok", cov |-> s.cov]
  ELSE LET a == ByteAddr(s, off, k)
           r == RegionOf(regs, a) IN
       IF r = 0 THEN [j |-> "OnlyExpectedData", cov |-> s.cov]
       ELSE LET o == Diff(a, regs[r].addr)
                room == Len(regs[r].bytes) - o
                \* a run never crosses the 64K offset wrap of the record nor the end of the region
                toWrap == W16 - ((off + k) % W16)
                n == IF Len(data) - k < room THEN (IF Len(data) - k < toWrap THEN Len(data) - k ELSE toWrap)
                     ELSE (IF room < toWrap THEN room ELSE toWrap) IN
            IF SubSeq(regs[r].bytes, o + 1, o + n) # SubSeq(data, k + 1, k + n)
            THEN [j |-> "BytesAtAddressAreTheExpectedOnes", cov |-> s.cov]
            ELSE IF Overlaps(s.cov[r], o, o + n)
            THEN [j |-> "EachByteWrittenAtMostOnce", cov |-> s.cov]
            ELSE DataRun([s EXCEPT !.cov[r] = AddIv(@, o, o + n)], regs, off, data, k + n)

\* rec = [t : record type, off : 16-bit offset, data : bytes]
RecJudge(s, regs, rec) ==
  IF s.eof THEN "NothingAfterEof"
  ELSE IF rec.t = 0 THEN DataRun(s, regs, rec.off, rec.data, 0).j
  ELSE IF rec.t = 1 THEN (IF Len(rec.data) = 0 THEN "ok" ELSE "EofRecordEmpty")
  ELSE IF rec.t \in {2, 4} THEN (IF Len(rec.data) = 2 THEN "ok" ELSE "AddressRecordHasTwoBytes")
  ELSE IF rec.t \in {3, 5} THEN "ok"
  ELSE "KnownRecordType"

RecEffect(s, regs, rec) ==
  IF rec.t = 0 THEN [s EXCEPT !.cov = DataRun(s, regs, rec.off, rec.data, 0).cov]
  ELSE IF rec.t = 1 THEN [s EXCEPT !.eof = TRUE]
  ELSE IF rec.t = 4 THEN [s EXCEPT !.ula = rec.data[1] * 256 + rec.data[2], !.seg = -1]
  ELSE IF rec.t = 2 THEN [s EXCEPT !.seg = rec.data[1] * 256 + rec.data[2], !.ula = 0]
  ELSE s

\* end of file: terminated, and every expected byte written
EndJudge(s, regs) ==
  IF ~s.eof THEN "TerminatedByEofRecord"
  ELSE IF \E i \in 1..Len(regs) : Len(regs[i].bytes) > 0 /\ s.cov[i] # {<<0, Len(regs[i].bytes)>>}
       THEN "EveryExpectedByteWritten"
  ELSE "ok"
=============================================================================
