------------------------------- MODULE Device -------------------------------
(***************************************************************************)
(* Growth (G07): the device-side MEANING of a manifest - a SUIT manifest   *)
(* processor as a state machine, one step per command, over the full       *)
(* command vocabulary of Registry.tla (Processor.tla keeps the narrower    *)
(* view C19 needs).  The state is what the drafts call the manifest        *)
(* processor's working state: the current component selection, the         *)
(* parameter table per component, and - as far as the envelope itself      *)
(* determines it - the CONTENT every component holds.                      *)
(*                                                                         *)
(* Header h: [ncomp, deps : Seq(index),                                    *)
(*            integ : Seq(<<uri id, content id>>)   integrated members,    *)
(*            lens  : Seq(<<content id, length>>),                         *)
(*            mf    : Seq(<<content id, wrapped-manifest id>>)]            *)
(* Events of one command sequence (the shared sequence is replayed in      *)
(* front of every sequence, as a device does):                             *)
(*   Seq    {name}                       parameters and contents reset     *)
(*   Cmd    {code, idx, ps, uri, dg, size, src, cval}                      *)
(*            idx : <<-1>> = true (all components), <<>> = false           *)
(*            ps  : the parameter codes a set/override command carries     *)
(*            uri / cval / dg : interned ids; dg is the id of the content  *)
(*            whose hash (under the declared algorithm) the digest is,     *)
(*            -2 when it is the hash of nothing the scenario knows         *)
(*   Alt    {}  start of a try-each alternative;   EndTry {}               *)
(*                                                                         *)
(* Clauses (what a device following the manifest would stumble over):      *)
(*   IndexDeclared, SourceComponentDeclared, ParameterSetBeforeUse,        *)
(*   DependencyCommandOnDependencyComponent,                               *)
(*   ImageMatchHoldsForIntegratedContent, ImageSizeIsTheContentLength      *)
(* The last two are judged only outside try-each (a failing condition in   *)
(* an alternative selects the next alternative; it is not an error).       *)
(* Deliberately modelled as the drafts say: set-parameters never           *)
(* overwrites, override-parameters always does; after try-each only what   *)
(* ALL alternatives guarantee is known.                                    *)
(***************************************************************************)
EXTENDS Integers, Sequences, FiniteSets, TLC

Rng(s) == {s[i] : i \in 1..Len(s)}
All(h) == 0..(h.ncomp - 1)

\* parameter codes a command reads (Registry.tla `parameter` / `command` spaces)
Needs(code) == CASE code = 1 -> {1} [] code = 2 -> {2} [] code = 3 -> {3} [] code = 5 -> {5} [] code = 6 -> {18}
                 [] code = 24 -> {24} [] code = 28 -> {28} [] code = 18 -> {18} [] code = 21 -> {21}
                 [] code = 22 -> {22} [] code = 31 -> {22} [] OTHER -> {}
\* dependency-integrity (7) compares with the image digest only "if present" (the shipped top template runs it in suit-load
\* and suit-invoke without one): it reads no parameter that must be set
DepOnly == {7, 11}
NoSelection == {12, 14, 15, 32}
Encrypted == 19

Pick(pairs, k) == IF \E x \in Rng(pairs) : x[1] = k THEN (CHOOSE x \in Rng(pairs) : x[1] = k)[2] ELSE -1

\* a digest names a content when it is the hash of the content itself or - the content being a dependency envelope - the hash of
\* that envelope's wrapped manifest (h.mf : Seq(<<content id, id of its wrapped manifest>>))
Matches(h, d, content) == d = content \/ (Pick(h.mf, content) # -1 /\ d = Pick(h.mf, content))

InitCore(h) == [sel |-> {0}, selok |-> TRUE, set |-> [i \in All(h) |-> {}],
                uri |-> [i \in All(h) |-> -1], dg |-> [i \in All(h) |-> -1], size |-> [i \in All(h) |-> -1],
                src |-> [i \in All(h) |-> -1], cval |-> [i \in All(h) |-> -1], content |-> [i \in All(h) |-> -1]]
InitDev(h) == [c |-> InitCore(h), stack |-> <<>>]

HeaderJudge(h) == IF \E d \in Rng(h.deps) : d \notin All(h) THEN "DependencyIndexDeclared" ELSE "ok"

CmdJudge(h, p, e) ==
  LET c == p.c
      top == Len(p.stack) = 0 IN
  IF e.code = 12 THEN (IF \E i \in Rng(e.idx) : i # -1 /\ i \notin All(h) THEN "IndexDeclared" ELSE "ok")
  ELSE IF e.code \in NoSelection \/ ~c.selok THEN "ok"
  ELSE IF \E i \in c.sel : i \notin All(h) THEN "IndexDeclared"
  ELSE IF e.code \in {19, 20}
       THEN (IF 22 \in Rng(e.ps) /\ e.src \notin All(h) THEN "SourceComponentDeclared" ELSE "ok")
  ELSE IF \E i \in c.sel : ~(Needs(e.code) \subseteq c.set[i]) THEN "ParameterSetBeforeUse"
  ELSE IF e.code \in DepOnly /\ ~(c.sel \subseteq Rng(h.deps)) THEN "DependencyCommandOnDependencyComponent"
  ELSE IF e.code = 3 /\ top /\ \E i \in c.sel : c.content[i] >= 0 /\ c.dg[i] # -1 /\ ~Matches(h, c.dg[i], c.content[i])
       THEN "ImageMatchHoldsForIntegratedContent"
  ELSE IF e.code = 3 /\ top /\ \E i \in c.sel : /\ c.content[i] >= 0 /\ c.size[i] >= 0
                                                /\ Pick(h.lens, c.content[i]) >= 0 /\ c.size[i] # Pick(h.lens, c.content[i])
       THEN "ImageSizeIsTheContentLength"
  ELSE "ok"

\* value of parameter k of component i after a set (19) / override (20) command
Assign(c, e, i, k, old, new) ==
  IF i \in c.sel /\ k \in Rng(e.ps) /\ (e.code = 20 \/ k \notin c.set[i]) THEN new ELSE old

CoreEffect(h, c, e) ==
  IF e.code = 12 THEN [c EXCEPT !.sel = IF e.idx = <<-1>> THEN All(h) ELSE Rng(e.idx), !.selok = TRUE]
  ELSE IF ~c.selok \/ e.code \in NoSelection THEN c
  ELSE IF e.code \in {19, 20}
       THEN [c EXCEPT !.set = [i \in All(h) |-> IF i \in c.sel THEN c.set[i] \cup Rng(e.ps) ELSE c.set[i]],
                      !.uri = [i \in All(h) |-> Assign(c, e, i, 21, c.uri[i], e.uri)],
                      !.dg = [i \in All(h) |-> Assign(c, e, i, 3, c.dg[i], e.dg)],
                      !.size = [i \in All(h) |-> Assign(c, e, i, 14, c.size[i], e.size)],
                      !.src = [i \in All(h) |-> Assign(c, e, i, 22, c.src[i], e.src)],
                      !.cval = [i \in All(h) |-> Assign(c, e, i, 18, c.cval[i], e.cval)]]
  ELSE IF e.code = 21
       THEN [c EXCEPT !.content = [i \in All(h) |-> IF i \notin c.sel THEN c.content[i]
                                                    ELSE IF Encrypted \in c.set[i] THEN -1 ELSE Pick(h.integ, c.uri[i])]]
  ELSE IF e.code = 18
       THEN [c EXCEPT !.content = [i \in All(h) |-> IF i \notin c.sel THEN c.content[i]
                                                    ELSE IF Encrypted \in c.set[i] THEN -1 ELSE c.cval[i]]]
  ELSE IF e.code = 22
       THEN [c EXCEPT !.content = [i \in All(h) |-> IF i \notin c.sel THEN c.content[i]
                                                    ELSE IF Encrypted \in c.set[i] \/ c.src[i] \notin All(h) THEN -1
                                                    ELSE c.content[c.src[i]]]]
  ELSE IF e.code = 31
       THEN (IF Cardinality(c.sel) = 1 /\ \A i \in c.sel : c.src[i] \in All(h)
             THEN LET a == CHOOSE i \in c.sel : TRUE
                      b == c.src[a] IN
                  [c EXCEPT !.content = [i \in All(h) |-> IF i = a THEN c.content[b] ELSE IF i = b THEN c.content[a] ELSE c.content[i]]]
             ELSE [c EXCEPT !.content = [i \in All(h) |-> -1]])
  ELSE IF e.code = 33
       THEN [c EXCEPT !.content = [i \in All(h) |-> IF i \in c.sel THEN -1 ELSE c.content[i]]]
  ELSE c

Same(a, b) == IF a = b THEN a ELSE -1
\* what is known after try-each: only what every alternative guarantees
Merge(h, a, b) ==
  [sel |-> a.sel, selok |-> a.selok /\ b.selok /\ a.sel = b.sel,
   set |-> [i \in All(h) |-> a.set[i] \cap b.set[i]],
   uri |-> [i \in All(h) |-> Same(a.uri[i], b.uri[i])], dg |-> [i \in All(h) |-> Same(a.dg[i], b.dg[i])],
   size |-> [i \in All(h) |-> Same(a.size[i], b.size[i])], src |-> [i \in All(h) |-> Same(a.src[i], b.src[i])],
   cval |-> [i \in All(h) |-> Same(a.cval[i], b.cval[i])], content |-> [i \in All(h) |-> Same(a.content[i], b.content[i])]]

Top(p) == p.stack[Len(p.stack)]
Pop(p) == SubSeq(p.stack, 1, Len(p.stack) - 1)

\* n: -1 just opened, otherwise the number of finished alternatives
CmdEffect(h, p, e) ==
  IF e.code = 15 THEN [c |-> p.c, stack |-> Append(p.stack, [saved |-> p.c, acc |-> p.c, n |-> -1])]
  ELSE [p EXCEPT !.c = CoreEffect(h, p.c, e)]
AltJudge(p) == IF Len(p.stack) = 0 THEN "AlternativeInsideTryEach" ELSE "ok"
AltEffect(h, p) ==
  LET t == Top(p) IN
  IF t.n = -1 THEN [p EXCEPT !.stack = Append(Pop(p), [t EXCEPT !.n = 0])]
  ELSE [c |-> t.saved,
        stack |-> Append(Pop(p), [t EXCEPT !.n = t.n + 1, !.acc = IF t.n = 0 THEN p.c ELSE Merge(h, t.acc, p.c)])]
EndTryEffect(h, p) ==
  LET t == Top(p) IN
  [c |-> IF t.n = -1 THEN t.saved ELSE IF t.n = 0 THEN p.c ELSE Merge(h, t.acc, p.c), stack |-> Pop(p)]
=============================================================================
