SPECIFICATION Spec
CONSTANTS
  RL = 16
  LENS = {1, 15, 16, 17, 40}
  BACK = {1, 2, 15, 16, 17, 33, 100}
  HIS = {0, 3614, 65535}
INVARIANT GoodWriterAccepted
INVARIANT FaultyWriterNeverAccepted
CHECK_DEADLOCK FALSE
