------------------------------- MODULE Cache -------------------------------
(***************************************************************************)
(* DFU cache partition (suit_generator/cmd_cache_create.py, property C10). *)
(*                                                                         *)
(* Two layers:                                                             *)
(*  - property level, permissive: AppendJudge / AddJudge / MergeJudge /    *)
(*    CloseJudge / FileJudge say only what C10 demands of the bytes a      *)
(*    step appends (the judge never predicts a particular padding amount); *)
(*  - implementation shaped, deterministic: ImplPad / PadBytes / SlotBytes *)
(*    reproduce add_padding / add_cache_slot byte for byte.                *)
(* Cache_MC checks the byte-level invariants on the implementation layer   *)
(* (with a CBOR walker written here) and that the permissive judge accepts *)
(* every step of the implementation layer; Cache_Trace applies the same    *)
(* judges to events recorded from the real CachePartition object and CLI.  *)
(***************************************************************************)
EXTENDS Integers, Sequences, FiniteSets, TLC

--------------------------------------------------------------------------
(* Bytes *)
Zeros(n) == [i \in 1..n |-> 0]
Pow256(k) == IF k = 0 THEN 1 ELSE IF k = 1 THEN 256 ELSE IF k = 2 THEN 65536 ELSE 16777216
BE(n, w) == [i \in 1..w |-> (n \div Pow256(w - i)) % 256]
FromBE(b) == IF Len(b) = 1 THEN b[1]
             ELSE IF Len(b) = 2 THEN b[1] * 256 + b[2]
             ELSE b[1] * 16777216 + b[2] * 65536 + b[3] * 256 + b[4]

KeyHeadLen(ul) == IF ul < 24 THEN 1 ELSE IF ul < 256 THEN 2 ELSE IF ul < 65536 THEN 3 ELSE 5
TstrHead(ul) == IF ul < 24 THEN <<96 + ul>>
                ELSE IF ul < 256 THEN <<120, ul>>
                ELSE IF ul < 65536 THEN <<121>> \o BE(ul, 2)
                ELSE <<122>> \o BE(ul, 4)

--------------------------------------------------------------------------
(* Implementation layer: add_padding / add_cache_slot *)

\* length of a slot before padding
RawLen(first, ul, dl) == (IF first THEN 1 ELSE 0) + KeyHeadLen(ul) + ul + 5 + dl

\* the padding amount add_padding chooses for n raw bytes
ImplPad(eb, n) == LET r == (eb - (n % eb)) % eb IN IF r = 1 THEN eb + 1 ELSE r
ImplRefuses(eb, n) == ImplPad(eb, n) > 65535

PadBytes(p) == IF p = 0 THEN <<>>
               ELSE IF p <= 23 THEN <<96, 64 + (p - 2)>> \o Zeros(p - 2)
               ELSE <<96, 89>> \o BE(p - 4, 2) \o Zeros(p - 4)

SlotBytes(first, key, data, eb) ==
  LET raw == (IF first THEN <<191>> ELSE <<>>) \o TstrHead(Len(key)) \o key
             \o <<90>> \o BE(Len(data), 4) \o data
  IN raw \o PadBytes(ImplPad(eb, Len(raw)))

--------------------------------------------------------------------------
(* A CBOR walker for cache files: the meaning of the bytes.                *)
(* Entry: [s, e : 0-based offsets, kl, key, vh : value head byte, vl, val] *)

\* argument of a head at 1-based position p: <<hl, arg>> or <<0, 0>> when malformed / truncated / indefinite
HeadArg(b, p) ==
  IF p > Len(b) THEN <<0, 0>>
  ELSE LET ai == b[p] % 32 IN
       IF ai < 24 THEN <<1, ai>>
       ELSE IF ai = 24 THEN IF p + 1 > Len(b) THEN <<0, 0>> ELSE <<2, b[p + 1]>>
       ELSE IF ai = 25 THEN IF p + 2 > Len(b) THEN <<0, 0>> ELSE <<3, FromBE(SubSeq(b, p + 1, p + 2))>>
       ELSE IF ai = 26 THEN IF p + 4 > Len(b) \/ b[p + 1] > 127 THEN <<0, 0>> ELSE <<5, FromBE(SubSeq(b, p + 1, p + 4))>>
       ELSE <<0, 0>>

Bad == [ok |-> FALSE, ents |-> <<>>]

RECURSIVE WalkFrom(_, _)
\* [ok, ents]: entries from 1-based position p up to the break byte; ~ok if anything is not tstr => bstr,
\* definite, in bounds, or if something follows the break
WalkFrom(b, p) ==
  IF p > Len(b) THEN Bad
  ELSE IF b[p] = 255 THEN (IF p = Len(b) THEN [ok |-> TRUE, ents |-> <<>>] ELSE Bad)
  ELSE IF b[p] \div 32 # 3 THEN Bad
  ELSE LET kh == HeadArg(b, p) IN
       IF kh[1] = 0 THEN Bad
       ELSE LET vp == p + kh[1] + kh[2] IN
            IF vp > Len(b) \/ b[vp] \div 32 # 2 THEN Bad
            ELSE LET vh == HeadArg(b, vp) IN
                 IF vh[1] = 0 THEN Bad
                 ELSE LET np == vp + vh[1] + vh[2] IN
                      IF np > Len(b) + 1 THEN Bad
                      ELSE LET rest == WalkFrom(b, np) IN
                           IF ~rest.ok THEN Bad
                           ELSE [ok |-> TRUE, ents |->
                                 <<[s |-> p - 1, e |-> np - 1, kl |-> kh[2],
                                   key |-> SubSeq(b, p + kh[1], vp - 1), vh |-> b[vp], vl |-> vh[2],
                                   val |-> SubSeq(b, vp + vh[1], np - 1)]>> \o rest.ents]

\* a complete cache file: indefinite map, entries, break, nothing else
Walk(b) == IF Len(b) < 2 \/ b[1] # 191 THEN Bad ELSE WalkFrom(b, 2)

IsZero(s) == \A i \in 1..Len(s) : s[i] = 0
NonEmpty(ents) == SelectSeq(ents, LAMBDA x : x.kl > 0)
PairsOf(ents) == [i \in 1..Len(NonEmpty(ents)) |-> <<NonEmpty(ents)[i].key, NonEmpty(ents)[i].val>>]

\* C10 on a walked file (byte level): used on the implementation layer by Cache_MC
FileWellFormed(eb, w, pairs) ==
  LET ents == w.ents IN
  /\ w.ok
  /\ PairsOf(ents) = pairs                                           \* exactly the supplied pairs (in order)
  /\ \A i \in 1..Len(ents) :
        /\ ents[i].kl > 0 => ents[i].vh = 90                        \* fixed 4-byte length form
        /\ ents[i].kl = 0 => IsZero(ents[i].val)                    \* padding: empty key, zero filled
        /\ (ents[i].kl > 0 /\ \E j \in 1..(i - 1) : ents[j].kl > 0) => ents[i].s % eb = 0

--------------------------------------------------------------------------
(* Property layer: permissive judges over abstract (projected) entries.     *)
(* Abstract entry: [s, e, kl, u, vh, vl, d, z] - u / d are interned ids of  *)
(* the key text / value bytes (-1 for padding), z = value is all zero.      *)
(* State: [eb, off, first, uris, pairs, closed, nslots]                     *)

InitCache(eb) == [eb |-> eb, off |-> 0, first |-> TRUE, uris |-> {}, pairs |-> {}, closed |-> FALSE, nslots |-> 0]

Contiguous(ents, from, end) ==
  /\ Len(ents) > 0 => ents[1].s = from /\ ents[Len(ents)].e = end
  /\ Len(ents) = 0 => from = end
  /\ \A i \in 1..(Len(ents) - 1) : ents[i + 1].s = ents[i].e
  /\ \A i \in 1..Len(ents) : ents[i].e > ents[i].s

\* what a step that appended `ents` (and possibly the opening 0xBF) must satisfy, given the pairs it was asked to add
AppendJudge(s, want, opened, ents, end) ==
  LET ne == SelectSeq(ents, LAMBDA x : x.kl > 0)
      from == s.off + (IF opened THEN 1 ELSE 0)
  IN
  IF s.closed                                                        THEN "AddAfterClose"
  ELSE IF opened # s.first                                           THEN "SingleIndefiniteMapOpenedOnce"
  ELSE IF ~Contiguous(ents, from, end)                               THEN "EntriesContiguous"
  ELSE IF \E i \in 1..Len(ents) : ents[i].kl = 0 /\ ~ents[i].z       THEN "PaddingZeroFilled"
  ELSE IF \E i \in 1..Len(ents) : ents[i].kl = 0 /\ ents[i].u # -1   THEN "PaddingKeyEmpty"
  ELSE IF \E i \in 1..Len(ne) : ne[i].vh # 90                        THEN "PayloadLengthFixed4ByteForm"
  ELSE IF {<<ne[i].u, ne[i].d>> : i \in 1..Len(ne)} # want           THEN "DecodesToExactlySuppliedPairs"
  ELSE IF Len(ne) # Cardinality(want)                                THEN "NoPairTwice"
  ELSE IF \E i \in 1..Len(ents) : ents[i].kl > 0 /\ (s.nslots > 0 \/ \E j \in 1..(i - 1) : ents[j].kl > 0)
                                   /\ (ents[i].s - (IF i = 1 /\ opened THEN 1 ELSE 0)) % s.eb # 0
                                                                     THEN "SlotAligned"
  ELSE "ok"

AppendEffect(s, want, end) ==
  [s EXCEPT !.off = end, !.first = FALSE, !.uris = @ \cup {w[1] : w \in want}, !.pairs = @ \cup want,
            !.nslots = @ + Cardinality(want)]

\* add_cache_slot(uri u of ul bytes, data d of dl bytes); res \in {"ok", "rejected"}
AddJudge(s, u, ul, d, dl, res, opened, ents, end) ==
  IF u \in s.uris THEN (IF res = "rejected" THEN "ok" ELSE "DuplicateUriRejected")
  ELSE IF res = "rejected"
       THEN (IF ImplRefuses(s.eb, RawLen(s.first, ul, dl)) THEN "ok" ELSE "UnexpectedRefusal")
  ELSE IF \E i \in 1..Len(ents) : ents[i].kl > 0 /\ (ents[i].kl # ul \/ ents[i].vl # dl)
                                                                     THEN "DecodesToExactlySuppliedPairs"
  ELSE AppendJudge(s, {<<u, d>>}, opened, ents, end)

\* merge of one input cache whose (non-padding) pairs are inp; a duplicate anywhere must be refused
MergeJudge(s, inp, res, opened, ents, end) ==
  LET inUris == {w[1] : w \in inp} IN
  IF (inUris \cap s.uris # {}) \/ Cardinality(inUris) # Cardinality(inp)
  THEN (IF res = "rejected" THEN "ok" ELSE "DuplicateUriRejected")
  ELSE IF res # "ok" THEN "UnexpectedRefusal"
  ELSE IF inp = {} THEN (IF Len(ents) = 0 /\ end = s.off THEN "ok" ELSE "DecodesToExactlySuppliedPairs")
  ELSE AppendJudge(s, inp, opened, ents, end)

\* close: exactly the break byte is appended
CloseJudge(s, tail) ==
  IF s.closed THEN "CloseTwice"
  ELSE IF tail # <<255>> THEN "TerminatedByBreak"
  ELSE "ok"
CloseEffect(s) == [s EXCEPT !.closed = TRUE, !.off = @ + 1]

\* the file on disk, walked independently from byte 0: ok = structurally a single indefinite map of tstr => bstr
\* ending with the break and nothing after it
FileJudge(s, ok, flen, ents) ==
  LET ne == SelectSeq(ents, LAMBDA x : x.kl > 0) IN
  IF ~s.closed                                                       THEN "FileBeforeClose"
  ELSE IF ~ok                                                        THEN "SingleIndefiniteMap"
  ELSE IF flen # s.off                                               THEN "FileIsTheBuffer"
  ELSE IF ~Contiguous(ents, 1, flen - 1)                             THEN "EntriesContiguous"
  ELSE IF {<<ne[i].u, ne[i].d>> : i \in 1..Len(ne)} # s.pairs        THEN "DecodesToExactlySuppliedPairs"
  ELSE IF Len(ne) # Cardinality(s.pairs)                             THEN "NoPairTwice"
  ELSE IF \E i \in 1..Len(ents) : ents[i].kl = 0 /\ ~ents[i].z       THEN "PaddingZeroFilled"
  ELSE IF \E i \in 1..Len(ne) : ne[i].vh # 90                        THEN "PayloadLengthFixed4ByteForm"
  ELSE IF \E i \in 2..Len(ne) : ne[i].s % s.eb # 0                   THEN "SlotAligned"
  ELSE "ok"

\* a whole-file judgement for CLI runs where no intermediate state is observable:
\* want = pairs supplied on the command line / found in the inputs
CliJudge(eb, want, dupExpected, refusalAllowed, written, ok, flen, ents) ==
  IF dupExpected THEN (IF written THEN "DuplicateUriRejected" ELSE "ok")
  ELSE IF ~written THEN (IF refusalAllowed THEN "ok" ELSE "UnexpectedRefusal")
  ELSE FileJudge([InitCache(eb) EXCEPT !.closed = TRUE, !.off = flen, !.pairs = want], ok, flen, ents)
=============================================================================
