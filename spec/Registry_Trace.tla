---------------------------- MODULE Registry_Trace ----------------------------
(***************************************************************************)
(* Use C for C08: Encode {space, name, accepted, code, back}               *)
(*                Cross  {space, name, accepted}     Tag {what, tag}       *)
(***************************************************************************)
EXTENDS Registry, Json, IOUtils
Log == ndJsonDeserialize(IOEnv.TRACE_FILE)
VARIABLES l, st, bad, dead
Judge(s, e) == CASE e.ev = "Encode" -> EncodeJudge(e.space, e.name, e.accepted, e.code, e.back)
                 [] e.ev = "Cross" -> CrossJudge(e.space, e.name, e.accepted)
                 [] e.ev = "Placed" -> (IF ~e.accepted \/ ~e.present THEN "KnownNameAcceptedWhereverItStands" ELSE "ok")
                 [] e.ev = "Tag" -> TagJudge(e.what, e.tag)
                 [] e.ev = "ParseTag" -> ParseTagJudge(e.what, e.tag, e.accepted)
                 [] OTHER -> "UnknownEvent"
Effect(s, e) == s
Start(e) == [x |-> 0]
TB == INSTANCE TraceBatch
Spec == TB!Spec
Report == TB!Report
AllConsumed == TB!AllConsumed
=============================================================================
