SPECIFICATION Spec
CONSTANTS
  OPS = {"create1", "parse", "extractA", "extractB", "signrecA", "signrecB", "bootB", "bootcfg", "updateB", "signB", "parseyamlA", "parseyamlB",
         "convertA", "convertB", "mpimerge", "cachemerge", "geninfo", "objskip", "objsign", "objsignB"}
  MAXLEN = 3
  EMIT = TRUE
INVARIANT SameKeySameInputs
INVARIANT Emit
CHECK_DEADLOCK FALSE
