------------------------------- MODULE Parser_MC -------------------------------
(***************************************************************************)
(* Use A / B for C17: the mutation machine.  The base envelope is known to *)
(* the model by the number of nodes of its item tree (bstr-wrapped layers  *)
(* opened) and its length in bytes; a behaviour applies up to DEPTH        *)
(* mutations:                                                              *)
(*   Replace(node, kind)   the node is replaced by a representative of a   *)
(*                         CBOR kind (incl. wrapped-instead-of-bare, bare- *)
(*                         instead-of-wrapped, duplicated / dropped entry) *)
(*   Truncate(n)           the encoding is cut after n bytes               *)
(*   Inflate(node, w)      the node's length field claims 2^w - 1 items    *)
(*   Nest(d)               the node is buried under d nested arrays        *)
(*   CutHead(node,mt,w,f)  the node is replaced by a head of major type mt *)
(*                         announcing a w-byte length field of which only  *)
(*                         0 (f = 0) or w - 1 (f = 1) bytes are present -  *)
(*                         inside a bstr wrapper this is a WELL-FORMED     *)
(*                         outer item whose content is cut short           *)
(* TLC enumerates the space (exhaustively for DEPTH = 1, by simulation     *)
(* for longer mutation sequences) and prints it for replay.                *)
(***************************************************************************)
EXTENDS Parser, Json
CONSTANTS NNODES, NBYTES, DEPTH, EMIT,
          SIM       \* TRUE: one randomly drawn mutation per step (for -simulate: only the behaviour itself is printed)
NestDepths == {10, 100, 400, 950, 1100}
Widths == {8, 16, 32, 63}
VARIABLES muts
Init == muts = <<>>
Mutations == {[m |-> "replace", node |-> n, kind |-> k] : n \in 1..NNODES, k \in Kinds}
             \cup {[m |-> "truncate", n |-> n] : n \in 0..(NBYTES - 1)}
             \cup {[m |-> "inflate", node |-> n, w |-> w] : n \in 1..NNODES, w \in Widths}
             \cup {[m |-> "nest", node |-> n, d |-> d] : n \in {1, NNODES \div 2, NNODES}, d \in NestDepths}
             \cup {[m |-> "cuthead", node |-> n, mt |-> t, w |-> w, f |-> f] : n \in 1..NNODES, t \in 2..5, w \in {1, 2, 4, 8}, f \in {0, 1}}
Apply == /\ Len(muts) < DEPTH
         /\ IF SIM THEN muts' = Append(muts, RandomElement(Mutations))
                   ELSE \E x \in Mutations : muts' = Append(muts, x)
         \* nothing may follow a truncation
         /\ (muts # <<>> => muts[Len(muts)].m # "truncate")
Spec == Init /\ [][Apply]_muts
SpaceIsFinite == Len(muts) <= DEPTH
Emit == (EMIT /\ (IF SIM THEN Len(muts) = DEPTH ELSE Len(muts) >= 1)) => PrintT("SCN " \o ToJson(muts))
=============================================================================
