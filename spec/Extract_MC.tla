----------------------------- MODULE Extract_MC -----------------------------
(***************************************************************************)
(* Use A for C11: implementation-shaped `cache_create from_envelope`       *)
(* (fill_cache_from_envelope_data: classify text-keyed members by the two  *)
(* patterns, pop the selected payloads into the cache, descend into        *)
(* dependencies, re-embed) over every two-level hierarchy with up to two   *)
(* payloads per level, every (matches-omit, matches-dependency) class per  *)
(* name and names that repeat across levels, against CacheJudge - the      *)
(* judge applied to traces of the real command.  With EMIT the scenarios   *)
(* are printed for replay.                                                 *)
(***************************************************************************)
EXTENDS Extract, Json

CONSTANTS EMIT

Names == {"a", "b"}
VARIABLES rootPay, childPay, hasChild, childOmit,
          omitOf, depOf      \* whether a NAME matches the omit / dependency pattern (the same at every level)
vars == <<rootPay, childPay, hasChild, childOmit, omitOf, depOf>>

\* a payload member: <<name, content, matchesOmit, matchesDep, isEnvelope>>
PayAlphabet(lvl) == {<<n, <<lvl, n>>, omitOf[n], depOf[n], FALSE>> : n \in Names}
Lists(S) == {<<>>} \cup {<<x>> : x \in S} \cup {<<x, y>> : x \in S, y \in S}

Init == /\ omitOf \in [Names -> BOOLEAN] /\ depOf \in [Names -> BOOLEAN]
        /\ rootPay \in Lists(PayAlphabet(0))
        /\ hasChild \in BOOLEAN
        /\ childOmit \in BOOLEAN
        /\ childPay \in (IF hasChild THEN Lists(PayAlphabet(1)) ELSE {<<>>})
        \* names are unique inside one envelope (it is a map)
        /\ Len(rootPay) = 2 => rootPay[1][1] # rootPay[2][1]
        /\ Len(childPay) = 2 => childPay[1][1] # childPay[2][1]
Next == UNCHANGED vars
Spec == Init /\ [][Next]_vars

Others(l) == <<<<"k2", <<l, 2>>>>, <<"k3", <<l, 3>>>>>>
ChildIn == [others |-> Others(1), mem |-> childPay]
\* the child as bytes: determined by its members
ChildBytes(pays) == <<"env", Others(1), pays>>
RootMem == rootPay \o (IF hasChild THEN <<<<"dep", ChildBytes([i \in 1..Len(childPay) |-> <<childPay[i][1], childPay[i][2]>>]),
                                            childOmit, TRUE, TRUE>>>> ELSE <<>>)

\* --- the implementation -----------------------------------------------------------------------------------
Extracted(mem) == SelectSeq(mem, LAMBDA m : ~m[4] /\ ~m[3])
Remaining(mem) == SelectSeq(mem, LAMBDA m : m[4] \/ m[3])
Pairs(s) == [i \in 1..Len(s) |-> <<s[i][1], s[i][2]>>]

ChildOutPay == Pairs(Remaining(childPay))
ChildOut == ChildBytes(ChildOutPay)
RootOutPay == [i \in 1..Len(Remaining(RootMem)) |->
                 IF Remaining(RootMem)[i][1] = "dep" THEN <<"dep", ChildOut>> ELSE
                 <<Remaining(RootMem)[i][1], Remaining(RootMem)[i][2]>>]
\* order of add_cache_slot calls: root payloads first, then the dependency's
CacheSeq == Pairs(Extracted(RootMem)) \o (IF hasChild THEN Pairs(Extracted(childPay)) ELSE <<>>)
Fails == \/ \E i \in 1..Len(RootMem) : RootMem[i][4] /\ ~RootMem[i][5]
         \/ (hasChild /\ \E i \in 1..Len(childPay) : childPay[i][4])          \* a "dependency" inside the child: not an envelope
         \/ \E i, j \in 1..Len(CacheSeq) : i # j /\ CacheSeq[i][1] = CacheSeq[j][1]

Event ==
  [mode |-> "cache", written |-> ~Fails, cache |-> IF Fails THEN <<>> ELSE CacheSeq,
   nodes |-> <<[parent |-> 0, name |-> "root", inOthers |-> Others(0), outOthers |-> Others(0), outAll |-> <<"rootout">>,
               mem |-> RootMem, outPay |-> RootOutPay]>>
             \o (IF hasChild THEN <<[parent |-> 1, name |-> "dep", inOthers |-> Others(1), outOthers |-> Others(1),
                                     outAll |-> ChildOut, mem |-> childPay, outPay |-> ChildOutPay]>> ELSE <<>>)]

JudgeAcceptsImpl == CacheJudge(Event) = "ok"
\* conservation stated directly: every input payload is in exactly one place
Conservation == ~Fails =>
  \A lvl \in {0, 1} : \A m \in Range(IF lvl = 0 THEN rootPay ELSE childPay) :
     LET inCache == \E i \in 1..Len(CacheSeq) : CacheSeq[i] = <<m[1], m[2]>>
         inOut == <<m[1], m[2]>> \in Range(IF lvl = 0 THEN RootOutPay ELSE ChildOutPay)
     IN (inCache /\ ~inOut) \/ (~inCache /\ inOut)
Emit == EMIT => PrintT("SCN " \o ToJson([root |-> [i \in 1..Len(rootPay) |-> <<rootPay[i][1], rootPay[i][3], rootPay[i][4]>>],
                                         child |-> [i \in 1..Len(childPay) |-> <<childPay[i][1], childPay[i][3], childPay[i][4]>>],
                                         hasChild |-> hasChild, childOmit |-> childOmit, written |-> ~Fails]))
=============================================================================
