-------------------------------- MODULE Word --------------------------------
(***************************************************************************)
(* 32-bit quantities as <<hi16, lo16>> pairs (TLC integers are 32-bit      *)
(* signed and the Json module mangles values >= 2^31).                     *)
(***************************************************************************)
EXTENDS Integers, Sequences

W16 == 65536
IsWord(a) == a[1] \in 0..65535 /\ a[2] \in 0..65535

\* little-endian 4 bytes of a word
LE32(a) == <<a[2] % 256, a[2] \div 256, a[1] % 256, a[1] \div 256>>
FromLE32(b) == <<b[4] * 256 + b[3], b[2] * 256 + b[1]>>

\* a + n for a small natural n (n < 2^30), modulo 2^32
AddSmall(a, n) == LET lo == a[2] + (n % W16)
                      c == lo \div W16
                  IN <<(a[1] + (n \div W16) + c) % W16, lo % W16>>

\* a - b as an integer when the words are close (|hi difference| <= 16383), else Far
Far == 2000000000
Diff(a, b) == IF a[1] - b[1] > 16383 THEN Far ELSE IF b[1] - a[1] > 16383 THEN -Far
              ELSE (a[1] - b[1]) * W16 + (a[2] - b[2])

Less32(a, b) == a[1] < b[1] \/ (a[1] = b[1] /\ a[2] < b[2])
=============================================================================
