SPECIFICATION Spec
CONSTANTS
  EMIT = TRUE
INVARIANT DeviationsAreKnown
INVARIANT Emit
CHECK_DEADLOCK FALSE
