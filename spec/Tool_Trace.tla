----------------------------- MODULE Tool_Trace -----------------------------
(***************************************************************************)
(* Use C for the envelope commands (C01, C03, C04, C05, C09, C11): traces  *)
(* of real create / sign / cache_create / payload_extract / parse runs.    *)
(* The state is the artifact store: name -> abstract envelope as projected *)
(* when the artifact was written; a later command is judged against the    *)
(* STORED input, so a trace is only accepted as a whole history.           *)
(*   Begin    {}                                                           *)
(*   Created  {name, e}              create wrote envelope `name`          *)
(*   Ref      {form, pre, got, want, size, wantsize}                       *)
(*   Embed    {kind, got, want}                                            *)
(*   ChildBind{pre, child}           child = name of a stored envelope     *)
(*   Sign     {inp, out, action, key, ktype, alg, kid, written, e}         *)
(*   Recursive{written, nodes}       sign recursive over a hierarchy       *)
(*   Resolve  {env, chain, written, used}  settings resolved per node (C09)*)
(*   RawSig   {alg, width, verifies} one KMS signature (C04 fixed width)   *)
(*   Extract  {mode, ...}            cache_create from_envelope / extract  *)
(*   Same     {a, b, what}           two stored envelopes agree on `what`  *)
(***************************************************************************)
EXTENDS Envelope, Extract, Resolve, Json, IOUtils

Log == ndJsonDeserialize(IOEnv.TRACE_FILE)

VARIABLES l, st, bad, dead

Has(s, n) == n \in DOMAIN s.envs
Put(s, n, e) == [s EXCEPT !.envs = [x \in DOMAIN s.envs \cup {n} |-> IF x = n THEN e ELSE s.envs[x]]]

Judge(s, e) ==
  CASE e.ev = "Created"   -> CreatedJudge(e.e)
    [] e.ev = "Stored"    -> "ok"
    [] e.ev = "Ref"       -> RefJudge(e)
    [] e.ev = "Embed"     -> EmbedJudge(e)
    [] e.ev = "ChildBind" -> (IF ~Has(s, e.child) THEN "UnknownArtifact" ELSE ChildBindJudge(e.pre, s.envs[e.child]))
    [] e.ev = "Sign"      -> (IF ~Has(s, e.inp) THEN "UnknownArtifact"
                              ELSE SignJudge(s.envs[e.inp], e.action, e.key, e.ktype, e.alg, e.kid, e.written, e.e))
    [] e.ev = "Recursive" -> RecursiveJudge([e EXCEPT !.nodes = [i \in 1..Len(e.nodes) |-> [e.nodes[i] EXCEPT !.namedk = Range(@)]]])
    [] e.ev = "Resolve"   -> ResolveJudge(e)
    [] e.ev = "RawSig"    -> (IF ~e.verifies THEN "SignatureVerifiesUnderMatchingKey"
                              ELSE IF e.width # SigWidth(e.alg) THEN "EcdsaFixedWidth" ELSE "ok")
    [] e.ev = "Extract"   -> ExtractJudge(e)
    [] e.ev = "Same"      -> (IF ~Has(s, e.a) \/ ~Has(s, e.b) THEN "UnknownArtifact" ELSE SameJudge(s.envs[e.a], s.envs[e.b], e.what))
    [] OTHER              -> "UnknownEvent"

Effect(s, e) ==
  CASE e.ev = "Created" -> Put(s, e.name, e.e)
    [] e.ev = "Stored"  -> Put(s, e.name, e.e)
    [] e.ev = "Sign"    -> (IF e.written THEN Put(s, e.out, e.e) ELSE s)
    [] OTHER            -> s

Start(e) == [envs |-> <<>>]

TB == INSTANCE TraceBatch
Spec == TB!Spec
Report == TB!Report
AllConsumed == TB!AllConsumed
=============================================================================
