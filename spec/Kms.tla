---------------------------------- MODULE Kms ----------------------------------
(***************************************************************************)
(* Growth beyond the listed properties (DESIGN.md 4.16): the file-based    *)
(* key management back end (ncs/basic_kms.py) behind `sign` and `encrypt`. *)
(*                                                                         *)
(* A key STORE is a directory: file name -> [enc, type].  A signing        *)
(* request names a key and an algorithm.  Two layers, as everywhere else:  *)
(*   SignContract   the permissive contract a user relies on: a signature  *)
(*                  is only ever made with THE key the request names       *)
(*                  (file <name>.pem, else <name>.der), only when its type *)
(*                  fits the algorithm, and a request that cannot be       *)
(*                  served is refused;                                     *)
(*   Outcome        the implementation-shaped model: what basic_kms.py     *)
(*                  does, step by step, INCLUDING its deviations, each     *)
(*                  named (Dev...) so that a trace that takes one is       *)
(*                  recognised as such instead of being idealised away.    *)
(***************************************************************************)
EXTENDS Integers, Sequences, FiniteSets, TLC

EcTypes == {"p256", "p384", "p521"}
EdTypes == {"ed25519", "ed448"}
Types == EcTypes \cup EdTypes
Algs == {"es-256", "es-384", "es-521", "eddsa", "hash-eddsa"}
Fits(type, alg) == \/ type = "p256" /\ alg = "es-256"
                   \/ type = "p384" /\ alg = "es-384"
                   \/ type = "p521" /\ alg = "es-521"
                   \/ type \in EdTypes /\ alg \in {"eddsa", "hash-eddsa"}

\* ---- names.  Path.with_suffix REPLACES the last suffix: the existence probe for "k.x" looks at "k.pem" / "k.der"
\* (DevDottedNameProbesSibling), while the file that is then opened is "k.x.pem" / "k.x.der".
Stem(name) == CASE name = "k.x" -> "k" [] OTHER -> name
Has(store, f) == f \in DOMAIN store

\* the key file the request NAMES (contract view): <name>.pem, else <name>.der, else none
Named(store, name) == IF Has(store, name \o ".pem") THEN name \o ".pem"
                      ELSE IF Has(store, name \o ".der") THEN name \o ".der" ELSE "none"

\* ---- implementation-shaped outcome: [class, file]   class in
\*   "signed"            a signature made with `file`
\*   "refused"           ValueError (not found / incompatible)
\*   "DevOpenFails"      the probe saw the sibling's file, the named file does not exist: FileNotFoundError escapes
\*   "DevHashEddsaDer"   hash-eddsa re-reads the key file as TEXT for pycryptodome: a DER file raises UnicodeDecodeError
\*                       (or ValueError when its bytes happen to decode)
\*   "DevHashEddsa448"   hash-eddsa prehashes with SHA-512 whatever the curve: an Ed448 key is refused inside pycryptodome
Outcome(store, name, alg) ==
  LET probe == Stem(name)
      ext == IF Has(store, probe \o ".pem") THEN ".pem" ELSE IF Has(store, probe \o ".der") THEN ".der" ELSE "none"
      file == name \o ext IN
  IF ext = "none" THEN [class |-> "refused", file |-> "none"]
  ELSE IF ~Has(store, file) THEN [class |-> "DevOpenFails", file |-> "none"]
  ELSE IF ~Fits(store[file].type, alg) THEN [class |-> "refused", file |-> "none"]
  ELSE IF alg = "hash-eddsa" /\ ext = ".der" THEN [class |-> "DevHashEddsaDer", file |-> "none"]
  ELSE IF alg = "hash-eddsa" /\ store[file].type = "ed448" THEN [class |-> "DevHashEddsa448", file |-> "none"]
  ELSE [class |-> "signed", file |-> file]

Deviations == {"DevOpenFails", "DevHashEddsaDer", "DevHashEddsa448"}

\* ---- contract: e = [store, name, alg, class (observed: "signed" | "refused" | "error"), signer (file whose PUBLIC key verifies
\* the signature, "none"), exc]
SignContract(e) ==
  LET named == Named(e.store, e.name) IN
  IF e.class = "signed" /\ e.signer # named THEN "SignatureIsMadeWithTheNamedKey"
  ELSE IF e.class = "signed" /\ ~Fits(e.store[named].type, e.alg) THEN "KeyTypeFitsTheAlgorithm"
  ELSE IF named = "none" /\ e.class = "signed" THEN "UnknownKeyIsRefused"
  ELSE "ok"

\* ---- conformance of the implementation-shaped model: the observed class is the modelled one
Observed(o) == IF o.class = "signed" THEN "signed" ELSE IF o.class = "refused" THEN "refused" ELSE "error"
SignJudge(e) ==
  LET c == SignContract(e)  o == Outcome(e.store, e.name, e.alg) IN
  IF c # "ok" THEN c
  ELSE IF e.class # Observed(o) THEN "ModelDescribesTheCode"
  ELSE IF e.class = "signed" /\ e.signer # o.file THEN "ModelDescribesTheCode"
  ELSE "ok"

\* ---- context: None -> the script's own directory; an existing directory; a JSON object with keys_directory; else ValueError
\* e = [form, class ("dir" | "refused" | "error"), same (the resolved directory is the intended one)]
ContextJudge(e) ==
  IF e.form \in {"dir", "json", "none"} THEN (IF e.class # "dir" THEN "ValidContextAccepted" ELSE IF ~e.same THEN "ContextNamesTheKeysDirectory" ELSE "ok")
  ELSE IF e.form \in {"json-without-key", "not-json"} THEN (IF e.class # "refused" THEN "InvalidContextRefused" ELSE "ok")
  ELSE "UnknownForm"

\* ---- encryption keys: <name>.bin; e = [len (key file length in bytes), class ("encrypted" | "refused" | "error"), dec (decrypts
\* under that key)]
EncKeyJudge(e) ==
  IF e.len \in {16, 24, 32} THEN (IF e.class # "encrypted" \/ ~e.dec THEN "AesKeyAccepted" ELSE "ok")
  ELSE IF e.class = "encrypted" THEN "NonAesKeyLengthRefused" ELSE "ok"
=============================================================================
