----------------------------- MODULE Version_Trace -----------------------------
(***************************************************************************)
(* Use C for C20:                                                          *)
(*   Conv   {v, accepted, got}            SuitComponentVersion.from_obj    *)
(*   Order  {a, b, la, lb}                two converted versions           *)
(*   Reject {label, raised}               unsupported pre-release label    *)
(*   Seq    {t : [M, m, p, t], digits}    default sequence number          *)
(*   SeqOrder {x, y, dx, dy}              two default sequence numbers     *)
(*   Default {M, m, p, x, found, v, accepted, got}  default version string *)
(***************************************************************************)
EXTENDS Version, Json, IOUtils
Log == ndJsonDeserialize(IOEnv.TRACE_FILE)
VARIABLES l, st, bad, dead
V(j) == [nums |-> j.nums, pre |-> j.pre, prenum |-> j.prenum]
Judge(s, e) ==
  CASE e.ev = "Conv"   -> ConvJudge(V(e.v), e.accepted, e.got)
    [] e.ev = "Order"  -> OrderJudge(V(e.a), V(e.b), e.la, e.lb)
    [] e.ev = "Reject" -> (IF e.raised THEN "ok" ELSE "UnsupportedLabelRejected")
    [] e.ev = "Seq"    -> (IF e.digits # SeqDigits(e.t[1], e.t[2], e.t[3], e.t[4]) THEN "SequenceNumberLayout" ELSE "ok")
    [] e.ev = "SeqOrder" -> (IF ListLess(e.x, e.y) # ListLess(e.dx, e.dy) THEN "SequenceNumberStrictlyIncreasing" ELSE "ok")
    \* the property only demands that the derived string is one the encoder accepts; DefaultVersion (Version.tla)
    \* documents the shipped derivation and is not imposed on traces
    [] e.ev = "Default" -> (IF ~e.found THEN "DefaultVersionDerived"
                            ELSE IF ~e.accepted THEN "DefaultVersionAcceptedByEncoder" ELSE "ok")
    [] OTHER -> "UnknownEvent"
Effect(s, e) == s
Start(e) == [x |-> 0]
TB == INSTANCE TraceBatch
Spec == TB!Spec
Report == TB!Report
AllConsumed == TB!AllConsumed
=============================================================================
