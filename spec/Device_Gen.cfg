SPECIFICATION Spec
CONSTANTS
  MAXLEN = 2
  EMIT = TRUE
  SIM = FALSE
INVARIANT Emit
VIEW View
CHECK_DEADLOCK FALSE
