SPECIFICATION Spec
CONSTANTS
  EMIT = TRUE
INVARIANT JudgeAcceptsImpl
INVARIANT Conservation
INVARIANT Emit
CHECK_DEADLOCK FALSE
