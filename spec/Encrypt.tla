------------------------------- MODULE Encrypt -------------------------------
(***************************************************************************)
(* C06 / C14: encryption artifacts (ncs/encrypt_script.py, basic_kms.py,   *)
(* cmd_encrypt.py) with a SYMBOLIC AEAD: the projection decrypts with an   *)
(* independent AES-GCM implementation using the key of the scenario, the   *)
(* IV PUBLISHED in the encryption info and the Enc_structure rebuilt from  *)
(* the PUBLISHED protected header; `dec` is the id of the recovered        *)
(* plaintext or -1.                                                        *)
(***************************************************************************)
EXTENDS Integers, Sequences, FiniteSets, TLC

AesGcm256 == 3
Direct == -6

\* info = projected suit_encryption_info.bin
InfoShapeClause(i, kid) ==
  IF ~i.wrap2 THEN "InfoIsByteStringWrapped"
  ELSE IF ~i.tag96 THEN "InfoIsTaggedCoseEncrypt"
  ELSE IF i.alg # AesGcm256 THEN "InfoNamesAesGcm256"
  ELSE IF i.ivlen # 12 THEN "IvIs96Bits"
  ELSE IF i.nrecip # 1 THEN "OneRecipient"
  ELSE IF i.rcpalg # Direct THEN "RecipientIsDirect"
  ELSE IF i.kid # kid \/ ~i.kidwrapped THEN "RecipientCarriesWrappedKeyId"
  ELSE IF ~i.ctnil THEN "ContentIsDetached"
  ELSE "ok"

\* encrypt-and-generate: pt = id of the firmware; e.dec, e.dg (preimage of the digest file under the requested
\* algorithm), e.size / e.sizeok (size file parsed as decimal), e.raw (create accepted the info unchanged as raw
\* encryption-info parameter: id of the bytes found under parameter 19 = id of the info file)
EncJudge(e) ==
  LET c == InfoShapeClause(e.info, e.kid) IN
  IF c # "ok" THEN c
  ELSE IF e.dec # e.pt THEN "DecryptsToFirmwareWithPublishedIvAndHeader"
  ELSE IF e.dg # e.pt THEN "DigestDescribesPlaintext"
  ELSE IF ~e.sizeok \/ e.size # e.ptlen THEN "SizeDescribesPlaintext"
  ELSE IF e.raw # e.info.id THEN "CreateAcceptsInfoUnchanged"
  ELSE "ok"

\* generate-info: the blob iv||tag||ciphertext is split without altering any byte
GenJudge(e) ==
  LET c == InfoShapeClause(e.info, e.kid) IN
  IF c # "ok" /\ c # "ContentIsDetached" THEN c
  ELSE IF e.info.iv # e.blobiv THEN "PublishedIvIsBlobPrefix"
  ELSE IF e.content # e.blobrest THEN "ContentIsRestOfBlobUnaltered"
  ELSE IF e.raw # e.info.id THEN "CreateAcceptsInfoUnchanged"
  ELSE "ok"

\* Growth (G06): encrypt -> create.  The four artifact files are wired into a manifest the way the NCS samples do (digest and
\* size by file_direct, encryption info by file, encrypted content as integrated payload); a device that follows the manifest
\* decrypts the integrated payload with the encryption info FOUND IN THE MANIFEST and compares with the digest / size parameters
\* found there.  e = [pt, ptlen, dec, dg, size]
InstallJudge(e) ==
  IF e.dec # e.pt THEN "DeviceDecryptsIntegratedPayloadToFirmware"
  ELSE IF e.dg # e.pt THEN "ManifestDigestDescribesPlaintext"
  ELSE IF e.size # e.ptlen THEN "ManifestSizeDescribesPlaintext"
  ELSE "ok"

\* C14: IVs of one key are interned in order of first appearance, so an IV is fresh iff its id is the next one
FreshJudge(next, iv) == IF iv # next THEN "FreshIvPerKey" ELSE "ok"
=============================================================================
