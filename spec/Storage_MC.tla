------------------------------ MODULE Storage_MC ------------------------------
(***************************************************************************)
(* Use A for C07: the boot-storage pipeline as the code runs it            *)
(*   for each envelope: add_envelope (no component id | unknown class |    *)
(*   too large | duplicate role => GeneratorError) ; only then, per        *)
(*   domain, write a file if the domain has an envelope                    *)
(* over ALL subsets of the 11 roles (up to MAXSET members) on both SoCs,   *)
(* with no faulty envelope or one faulty envelope of each kind at any      *)
(* position.  Invariants: no file unless every envelope was accepted; a    *)
(* domain file holds exactly the slots of that domain's roles; slots lie   *)
(* inside the storage area and are pairwise disjoint.                      *)
(* With EMIT the terminal states are printed as scenarios for replay.      *)
(***************************************************************************)
EXTENDS Storage, Json

CONSTANTS SOCS, MAXSET, EMIT

RoleOrder == <<"SEC_TOP", "SEC_SDFW", "SEC_SYSCTRL", "RAD_RECOVERY", "RAD_LOCAL_1", "RAD_LOCAL_2",
               "APP_ROOT", "APP_RECOVERY", "APP_LOCAL_1", "APP_LOCAL_2", "APP_LOCAL_3">>
DomainOrder == <<"secure", "application", "radio">>
Faults == {"none", "unknown", "duplicate", "nocid", "big"}

VARIABLES soc, input, todo, envs, phase, files, nextDom
vars == <<soc, input, todo, envs, phase, files, nextDom>>

Good(r) == [role |-> r, cid |-> TRUE, big |-> FALSE]
ListOf(S) == SelectSeq([i \in 1..Len(RoleOrder) |-> Good(RoleOrder[i])], LAMBDA x : x.role \in S)
Insert(s, p, x) == SubSeq(s, 1, p - 1) \o <<x>> \o SubSeq(s, p, Len(s))

Bad(kind, base, p, q) ==
  CASE kind = "unknown"   -> Insert(base, p, [role |-> "NONE", cid |-> TRUE, big |-> FALSE])
    [] kind = "duplicate" -> Insert(base, p, base[q])
    [] kind = "nocid"     -> [base EXCEPT ![p].cid = FALSE]
    [] kind = "big"       -> [base EXCEPT ![p].big = TRUE]

Init == /\ soc \in SOCS
        /\ \E S \in SUBSET Roles : Cardinality(S) <= MAXSET /\
             LET base == ListOf(S) IN
             \/ input = [f |-> "none", list |-> base]
             \/ \E p \in 1..(Len(base) + 1) : input = [f |-> "unknown", list |-> Bad("unknown", base, p, 0)]
             \/ \E p \in 1..(Len(base) + 1), q \in 1..Len(base) : input = [f |-> "duplicate", list |-> Bad("duplicate", base, p, q)]
             \/ \E p \in 1..Len(base) : input = [f |-> "nocid", list |-> Bad("nocid", base, p, 0)]
             \/ \E p \in 1..Len(base) : input = [f |-> "big", list |-> Bad("big", base, p, 0)]
        /\ todo = input.list /\ envs = {} /\ phase = "adding" /\ files = [d \in Domains |-> {}] /\ nextDom = 1

AddEnvelope ==
  /\ phase = "adding" /\ todo # <<>>
  /\ LET e == Head(todo) IN
     IF ~e.cid \/ e.role \notin Roles \/ e.big \/ e.role \in envs
     THEN phase' = "failed" /\ UNCHANGED envs
     ELSE envs' = envs \cup {e.role} /\ UNCHANGED phase
  /\ todo' = Tail(todo)
  /\ UNCHANGED <<soc, input, files, nextDom>>

StartWriting == /\ phase = "adding" /\ todo = <<>> /\ phase' = "writing"
                /\ UNCHANGED <<soc, input, todo, envs, files, nextDom>>

WriteDomain ==
  /\ phase = "writing" /\ nextDom <= Len(DomainOrder)
  /\ LET d == DomainOrder[nextDom]
         mine == {r \in envs : Layout(soc)[r].domain = d} IN
     files' = IF mine = {} THEN files ELSE [files EXCEPT ![d] = mine]
  /\ nextDom' = nextDom + 1
  /\ UNCHANGED <<soc, input, todo, envs, phase>>

Finish == /\ phase = "writing" /\ nextDom > Len(DomainOrder) /\ phase' = "done"
          /\ UNCHANGED <<soc, input, todo, envs, files, nextDom>>

Next == AddEnvelope \/ StartWriting \/ WriteDomain \/ Finish
Spec == Init /\ [][Next]_vars

--------------------------------------------------------------------------
AnyFile == \E d \in Domains : files[d] # {}
NoFileUnlessAllAccepted == AnyFile => (input.f = "none" /\ todo = <<>>)
FaultAlwaysRejected == phase \in {"writing", "done"} => input.f = "none"
DomainFilesContainOnlyOwnRoles == \A d \in Domains : \A r \in files[d] : Layout(soc)[r].domain = d
AllAcceptedAreWritten == phase = "done" => \A r \in envs : r \in files[Layout(soc)[r].domain]
SlotsInsideArea == \A r \in Roles : Layout(soc)[r].offset >= 0 /\ Layout(soc)[r].offset + Layout(soc)[r].size <= 20480
Emit == (EMIT /\ phase \in {"done", "failed"}) =>
   PrintT("SCN " \o ToJson([soc |-> soc, fault |-> input.f, written |-> phase = "done",
                            list |-> [i \in 1..Len(input.list) |-> <<input.list[i].role, input.list[i].cid, input.list[i].big>>]]))
=============================================================================
