------------------------------ MODULE Pipeline_MC ------------------------------
(***************************************************************************)
(* Growth beyond the listed properties (DESIGN.md 4.16): the COMPOSITION   *)
(* of the envelope commands with the image generators.  Tool_MC's artifact *)
(* store (one envelope under sign / sign remove-old / extract / cache /    *)
(* sever / parse-create round trip) is extended with the two terminal      *)
(* commands a build ends with:                                             *)
(*   Boot    image boot stores the SEVERED envelope in its role's slot     *)
(*   Update  image update copies the envelope FILE into the DFU partition  *)
(* Invariants (what the device relies on, whatever happened before):       *)
(*   SlotKeepsWhatIsAuthenticated  the slot holds the same manifest, the   *)
(*        same digest and the same authentication blocks, no integrated    *)
(*        member and no severed member;                                    *)
(*   PartitionIsTheEnvelope  the partition image is the envelope, whole.   *)
(* Every command sequence up to MAXLEN followed by a terminal command is   *)
(* printed; the harness applies it to real envelopes and judges the hex    *)
(* files with the judges of C07 (Storage_Trace) and C16 (Update_Trace).    *)
(***************************************************************************)
EXTENDS Integers, Sequences, FiniteSets, TLC, Json
CONSTANTS MAXLEN, EMIT
Keys == {"kp256", "ked"}
Pays == {"#p0", "#dep"}
Sevs == {20, 23}
H(x) == <<"H", x>>
VARIABLES e, hist, slot, part
vars == <<e, hist, slot, part>>
None == [mf |-> "none", dg |-> "none", sev |-> {}, pay |-> {}, blocks |-> <<>>]
E0 == [mf |-> "m0", dg |-> H("m0"), sev |-> Sevs, pay |-> Pays, blocks |-> <<>>]
Init == e = E0 /\ hist = <<>> /\ slot = None /\ part = None
Done == slot # None \/ part # None
Block(k) == [signer |-> k, over |-> e.dg]
Step(name, new) == ~Done /\ Len(hist) < MAXLEN /\ e' = new /\ hist' = Append(hist, name) /\ UNCHANGED <<slot, part>>
Sign(k) == e.blocks = <<>> /\ Step(<<"sign", k>>, [e EXCEPT !.blocks = Append(@, Block(k))])
SignRemoveOld(k) == e.blocks # <<>> /\ Step(<<"sign-remove-old", k>>, [e EXCEPT !.blocks = Append(Tail(@), Block(k))])
ExtractOne(p) == p \in e.pay /\ Step(<<"extract", p>>, [e EXCEPT !.pay = @ \ {p}])
CacheAll == e.pay # {} /\ Step(<<"cache">>, [e EXCEPT !.pay = {}])
Sever == (e.sev # {} \/ e.pay # {}) /\ Step(<<"sever">>, [e EXCEPT !.sev = {}, !.pay = {}])
RoundTrip == Step(<<"roundtrip">>, [mf |-> e.mf, dg |-> H(e.mf), sev |-> e.sev, pay |-> e.pay, blocks |-> e.blocks])
Severed(x) == [x EXCEPT !.sev = {}, !.pay = {}]
Boot == ~Done /\ slot' = Severed(e) /\ hist' = Append(hist, <<"boot">>) /\ UNCHANGED <<e, part>>
Update == ~Done /\ part' = e /\ hist' = Append(hist, <<"update">>) /\ UNCHANGED <<e, slot>>
Next == (\E k \in Keys : Sign(k) \/ SignRemoveOld(k)) \/ (\E p \in Pays : ExtractOne(p)) \/ CacheAll \/ Sever \/ RoundTrip \/ Boot \/ Update
Spec == Init /\ [][Next]_vars
SlotKeepsWhatIsAuthenticated == slot # None => /\ slot.mf = E0.mf /\ slot.dg = H(E0.mf) /\ slot.blocks = e.blocks
                                                /\ \A i \in 1..Len(slot.blocks) : slot.blocks[i].over = slot.dg
                                                /\ slot.sev = {} /\ slot.pay = {}
PartitionIsTheEnvelope == part # None => part = e
Emit == (EMIT /\ Done) => PrintT("SCN " \o ToJson(hist))
=============================================================================
