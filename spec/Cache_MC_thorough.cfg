SPECIFICATION Spec
CONSTANTS
  EBS = {1, 2, 3, 4, 5, 6, 7, 8, 9, 12, 16, 24, 25, 32, 64}
  KEYLENS = {1, 2, 23, 24}
  DATALENS = {0, 1, 5, 17, 40}
  KTAGS = {0, 1}
  DTAGS = {0}
  MAXOPS = 3
  EMIT = FALSE
INVARIANT JudgeAcceptsImpl
INVARIANT ClosedFileWellFormed
INVARIANT OpenBufferAligned
INVARIANT AbstractInStep
VIEW View
CHECK_DEADLOCK FALSE
