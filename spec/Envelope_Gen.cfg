SPECIFICATION Spec
CONSTANTS
  MEMBERS = {16, 20, 23}
  ORDER <- OrderShipped
  REFRESH = "dig"
  WITHCHILD = FALSE
  EMIT = TRUE
INVARIANT Emit
CHECK_DEADLOCK FALSE
