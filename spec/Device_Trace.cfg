SPECIFICATION Spec
INVARIANT Report
POSTCONDITION AllConsumed
CHECK_DEADLOCK FALSE
