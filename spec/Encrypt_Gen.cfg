SPECIFICATION Spec
CONSTANTS
  CTXS = {"c1", "c2"}
  NAMES = {"a", "b"}
  IVS = {1}
  PTS = {"fw1"}
  GEN = "any"
  LITERAL = "matches"
  INITKMS = "each"
  MAXOPS = 3
  EMIT = TRUE
INVARIANT DecryptsToFirmware
INVARIANT Emit
CHECK_DEADLOCK FALSE
