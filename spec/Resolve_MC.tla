------------------------------- MODULE Resolve_MC -------------------------------
(***************************************************************************)
(* Use A / B for the resolution part of C09: every environment x every     *)
(* assignment of own settings to a chain root -> child (-> grandchild that *)
(* gives nothing itself: pure inheritance over two levels).  Invariants    *)
(* state the precedence as properties of Resolved; the scenarios are       *)
(* printed for replay into the real `sign recursive`.                      *)
(***************************************************************************)
EXTENDS Resolve, Json
CONSTANT EMIT
Scripts == {"none", "A", "B"}
\* the root gives scripts and context (algorithm and action are exercised at the child, where inheritance can be told from a default)
RootOwn == [sign : Scripts, kms : Scripts, ctx : {"none", "C1"}, alg : {"none"}, action : {"none"}]
ChildOwn == [sign : Scripts, kms : Scripts, ctx : {"none", "C1", "C2"}, alg : {"none", "hash-eddsa"}, action : {"none", "skip"}]
Nothing == [sign |-> "none", kms |-> "none", ctx |-> "none", alg |-> "none", action |-> "none"]
Envs == [ncsSign : BOOLEAN, ncsKms : BOOLEAN, zephyr : BOOLEAN]
VARIABLES root, child, env
vars == <<root, child, env>>
Init == root \in RootOwn /\ child \in ChildOwn /\ env \in Envs
Next == UNCHANGED vars
Spec == Init /\ [][Next]_vars
Chain == <<root, child, Nothing>>
R == Resolved(Chain, env)
OwnWins == \A i \in 1..2 : (Chain[i].sign # "none" => R[i].sign = Chain[i].sign) /\ (Chain[i].kms # "none" => R[i].kms = Chain[i].kms)
InheritedBeatsEnvironment == (child.sign = "none" /\ R[1].sign # "error" => R[2].sign = R[1].sign)
                             /\ (child.kms = "none" /\ R[1].kms # "error" => R[2].kms = R[1].kms)
GrandchildInheritsEverythingButAction == ~Refused(Chain, env) =>
   R[3].sign = R[2].sign /\ R[3].kms = R[2].kms /\ R[3].ctx = R[2].ctx /\ R[3].alg = R[2].alg /\ R[3].action = "error"
RefusedOnlyAtTheRoot == Refused(Chain, env) <=> ((root.sign = "none" /\ ~env.ncsSign /\ ~env.zephyr) \/ (root.kms = "none" /\ ~env.ncsKms /\ ~env.zephyr))
Emit == EMIT => PrintT("SCN " \o ToJson([chain |-> Chain, env |-> env, refused |-> Refused(Chain, env)]))
=============================================================================
