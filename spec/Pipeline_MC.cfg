SPECIFICATION Spec
CONSTANTS
  MAXLEN = 3
  EMIT = TRUE
INVARIANT SlotKeepsWhatIsAuthenticated
INVARIANT PartitionIsTheEnvelope
INVARIANT Emit
CHECK_DEADLOCK FALSE
