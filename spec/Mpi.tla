-------------------------------- MODULE Mpi --------------------------------
(***************************************************************************)
(* C12: Manifest Provisioning Information records and merged MPI areas     *)
(* (suit_generator/cmd_mpi.py).                                            *)
(***************************************************************************)
EXTENDS Hex

FF(n) == [i \in 1..n |-> 255]

DpByte(dp) == IF dp THEN 2 ELSE 1                  \* downgrade prevention
IuByte(iu) == IF iu THEN 2 ELSE 1                  \* independent updates
SvByte(sv) == CASE sv = "none" -> 1 [] sv = "update" -> 2 [] sv = "update-and-boot" -> 3

\* version 1, three policy bytes, twelve reserved 0xFF, vendor UUID, class UUID, 0xFF up to the reserved size
Record(dp, iu, sv, vid, cid, size) ==
  LET core == <<1, DpByte(dp), IuByte(iu), SvByte(sv)>> \o FF(12) \o vid \o cid
  IN core \o FF(size - Len(core))

--------------------------------------------------------------------------
(* Merge: inputs are [off, bytes] with off relative to the area start      *)
(* (may be negative or beyond the area).                                   *)

Outside(size, inp) == inp.off < 0 \/ inp.off + Len(inp.bytes) > size
Overlap(a, b) == a.off < b.off + Len(b.bytes) /\ b.off < a.off + Len(a.bytes)
                 /\ Len(a.bytes) > 0 /\ Len(b.bytes) > 0
MustReject(size, inputs) ==
  \/ \E i \in 1..Len(inputs) : Len(inputs[i].bytes) > 0 /\ Outside(size, inputs[i])
  \/ \E i, j \in 1..Len(inputs) : i < j /\ Overlap(inputs[i], inputs[j])

\* the area: every input at its original place, 0xFF elsewhere (only meaningful when ~MustReject)
AreaImage(size, inputs) ==
  [p \in 1..size |->
     IF \E i \in 1..Len(inputs) : inputs[i].off < p /\ p <= inputs[i].off + Len(inputs[i].bytes)
     THEN LET i == CHOOSE i \in 1..Len(inputs) : inputs[i].off < p /\ p <= inputs[i].off + Len(inputs[i].bytes)
          IN inputs[i].bytes[p - inputs[i].off]
     ELSE 255]

\* merged output: the area immediately followed by its digest
MergedRegions(addr, size, inputs, digest) == <<[addr |-> addr, bytes |-> AreaImage(size, inputs) \o digest]>>
RecordRegions(addr, dp, iu, sv, vid, cid, size) == <<[addr |-> addr, bytes |-> Record(dp, iu, sv, vid, cid, size)]>>
=============================================================================
