----------------------------- MODULE Registry_MC -----------------------------
(***************************************************************************)
(* Use A / B for C08: the registry checks itself (ASSUMEs in Registry.tla) *)
(* and TLC enumerates the COMPLETE finite space: every (space, name) and   *)
(* every (name, other space) pair, printed for replay.                     *)
(***************************************************************************)
EXTENDS Registry, Json, Sequences
CONSTANT EMIT
AllNames == UNION {Names(sp) : sp \in Spaces}
\* place: where the name stands in the object handed to the tool - alone, or AFTER / BEFORE a valid entry of the space (a name of
\* another space must be rejected wherever it stands; a name of the space must encode wherever it stands)
VARIABLES sp, n, place
Init == sp \in Spaces /\ n \in AllNames /\ place \in {"alone", "last", "first"}
Next == UNCHANGED <<sp, n, place>>
Spec == Init /\ [][Next]_<<sp, n, place>>
RoundTrip == n \in Names(sp) => NameOf(sp, CodeOf(sp, n)) = n
Emit == EMIT => PrintT("SCN " \o ToJson([space |-> sp, name |-> n, member |-> n \in Names(sp), place |-> place]))
=============================================================================
