----------------------------- MODULE Registry_MC -----------------------------
(***************************************************************************)
(* Use A / B for C08: the registry checks itself (ASSUMEs in Registry.tla) *)
(* and TLC enumerates the COMPLETE finite space: every (space, name) and   *)
(* every (name, other space) pair, printed for replay.                     *)
(***************************************************************************)
EXTENDS Registry, Json, Sequences
CONSTANT EMIT
AllNames == UNION {Names(sp) : sp \in Spaces}
VARIABLES sp, n
Init == sp \in Spaces /\ n \in AllNames
Next == UNCHANGED <<sp, n>>
Spec == Init /\ [][Next]_<<sp, n>>
RoundTrip == n \in Names(sp) => NameOf(sp, CodeOf(sp, n)) = n
Emit == EMIT => PrintT("SCN " \o ToJson([space |-> sp, name |-> n, member |-> n \in Names(sp)]))
=============================================================================
