SPECIFICATION Spec
CONSTANTS
  EMIT = TRUE
INVARIANT OwnWins
INVARIANT InheritedBeatsEnvironment
INVARIANT GrandchildInheritsEverythingButAction
INVARIANT RefusedOnlyAtTheRoot
INVARIANT Emit
CHECK_DEADLOCK FALSE
