--------------------------------- MODULE Wire ---------------------------------
(***************************************************************************)
(* C02 (and the second conjunct of C03): executable REFERENCE SEMANTICS of *)
(* the tool's YAML/JSON description language: Wire(desc) is the CBOR the   *)
(* SUIT manifest / trust-domains / update-management drafts and COSE       *)
(* assign to a description, written from the CDDL as known to the author   *)
(* (no copy of the drafts is available offline; forms that could not be    *)
(* vouched for are excluded and named: unsevered text map inside the       *)
(* manifest, suit-delegation).  Two layers: (1) surface syntax -> abstract *)
(* item (the table in DESIGN.md 4.3: which alternative a description value *)
(* denotes), (2) abstract item -> bytes: shortest-form heads, definite     *)
(* lengths, description order (RFC 8949 / the drafts).                     *)
(*                                                                         *)
(* Description nodes (prepared by harness/wiredesc.py, no interpretation): *)
(*   [t |-> "m", v |-> <<<<key string, node>>, ...>>]   ordered map        *)
(*   [t |-> "l", v |-> <<node, ...>>]                                      *)
(*   [t |-> "s", s |-> string, u |-> UTF-8 bytes, x |-> hex-decoded bytes  *)
(*                                            or <<-1>> if not hex]        *)
(*   [t |-> "i", neg |-> BOOLEAN, l |-> <<l3, l2, l1, l0>>]  16-bit limbs  *)
(*                     of v (v >= 0) or of -1 - v (v < 0)                  *)
(*   [t |-> "b", v |-> BOOLEAN]      [t |-> "n"]  (null)                   *)
(* Digests the tool must compute are HOLES: a run of DigestLen(alg) copies *)
(* of a negative code naming algorithm and preimage ("mf": the wrapped     *)
(* manifest as it appears, "sev k": the wrapped envelope-level member k);  *)
(* Match compares holes with hashlib digests of the ACTUAL spans.          *)
(***************************************************************************)
EXTENDS Registry, Sequences

\* ---------------------------------------------------------------- CBOR
B256(n, w) == [i \in 1..w |-> (n \div (IF w - i = 0 THEN 1 ELSE IF w - i = 1 THEN 256 ELSE IF w - i = 2 THEN 65536 ELSE 16777216)) % 256]
HeadN(mt, n) == IF n < 24 THEN <<mt * 32 + n>>
                ELSE IF n < 256 THEN <<mt * 32 + 24, n>>
                ELSE IF n < 65536 THEN <<mt * 32 + 25>> \o B256(n, 2)
                ELSE <<mt * 32 + 26>> \o B256(n, 4)
\* head from four 16-bit limbs <<l3, l2, l1, l0>> (values up to 2^64 - 1)
HeadL(mt, l) ==
  IF l[1] = 0 /\ l[2] = 0
  THEN IF l[3] = 0 THEN HeadN(mt, l[4])
       ELSE <<mt * 32 + 26>> \o B256(l[3], 2) \o B256(l[4], 2)
  ELSE <<mt * 32 + 27>> \o B256(l[1], 2) \o B256(l[2], 2) \o B256(l[3], 2) \o B256(l[4], 2)
Bstr(b) == HeadN(2, Len(b)) \o b
Tstr(b) == HeadN(3, Len(b)) \o b
Arr(n) == HeadN(4, n)
Map(n) == HeadN(5, n)
Tag(n) == HeadN(6, n)
Null == <<246>>
Bool(v) == IF v THEN <<245>> ELSE <<244>>
RECURSIVE Cat(_)
Cat(ss) == IF ss = <<>> THEN <<>> ELSE Head(ss) \o Cat(Tail(ss))

\* ---------------------------------------------------------------- description access
Has(n, k) == \E i \in 1..Len(n.v) : n.v[i][1] = k
Get(n, k) == n.v[CHOOSE i \in 1..Len(n.v) : n.v[i][1] = k][2]
CInt(n) == IF n.neg THEN HeadL(1, n.l) ELSE HeadL(0, n.l)
Small(n) == n.l[3] * 65536 + n.l[4]                 \* value of a small non-negative int node
CodeInt(c) == IF c >= 0 THEN HeadN(0, c) ELSE HeadN(1, -1 - c)
Code(space, n) == CodeInt(CodeOf(space, n.s))

\* ---------------------------------------------------------------- holes
AlgIdx(a) == CASE a = "cose-alg-sha-256" -> 1 [] a = "cose-alg-shake128" -> 2 [] a = "cose-alg-sha-384" -> 3
               [] a = "cose-alg-sha-512" -> 4 [] a = "cose-alg-shake256" -> 5
DigestLen(a) == CASE a = "cose-alg-sha-256" -> 32 [] a = "cose-alg-shake128" -> 16 [] a = "cose-alg-sha-384" -> 48
                  [] a = "cose-alg-sha-512" -> 64 [] a = "cose-alg-shake256" -> 32
\* ref: 1 = the wrapped manifest, 100 + k = the wrapped envelope-level member with key k
Hole(ref, a) == [i \in 1..DigestLen(a) |-> 0 - (ref * 8 + AlgIdx(a))]

\* ---------------------------------------------------------------- the schema
PolicySum(n) == LET f[i \in 0..Len(n.v)] == IF i = 0 THEN 0 ELSE f[i - 1] + CodeOf("policy", n.v[i].s) IN f[Len(n.v)]

Conditions == {"suit-condition-vendor-identifier", "suit-condition-class-identifier", "suit-condition-image-match",
               "suit-condition-component-slot", "suit-condition-check-content", "suit-condition-dependency-integrity",
               "suit-condition-is-dependency", "suit-condition-abort", "suit-condition-device-identifier", "suit-condition-version"}
PolicyDirectives == {"suit-directive-write", "suit-directive-fetch", "suit-directive-copy", "suit-directive-invoke",
                     "suit-directive-swap", "suit-directive-process-dependency", "suit-directive-unlink"}
SeqMembers == {"suit-validate", "suit-load", "suit-invoke", "suit_uninstall"}
SevSeqMembers == {"suit-payload-fetch", "suit-install", "suit-install-legacy", "suit-dependency-resolution", "suit-candidate-verification"}

RECURSIVE W(_, _, _)
\* W(type, node, env): env = the envelope description node (to know which severed members are present)
W(ty, n, env) ==
  CASE ty = "Envelope" ->
         LET e == Get(n, "SUIT_Envelope_Tagged")
             entries == [i \in 1..Len(e.v) |->
                LET k == e.v[i][1]  v == e.v[i][2] IN
                IF k \in {"suit-integrated-payloads", "suit-integrated-dependencies"}
                THEN [cnt |-> Len(v.v), b |-> Cat([j \in 1..Len(v.v) |-> Tstr(v.v[j][2].ku) \o Bstr(v.v[j][2].x)])]
                ELSE [cnt |-> 1, b |-> Code("envelope", [s |-> k]) \o
                        (CASE k = "suit-authentication-wrapper" -> Bstr(W("Auth", v, e))
                           [] k = "suit-manifest" -> Bstr(W("Manifest", v, e))
                           [] k = "suit-text" -> Bstr(W("TextMap", v, e))
                           [] OTHER -> Bstr(W("CmdSeq", v, e)))]]
             total == LET f[i \in 0..Len(entries)] == IF i = 0 THEN 0 ELSE f[i - 1] + entries[i].cnt IN f[Len(entries)]
         IN Tag(107) \o Map(total) \o Cat([i \in 1..Len(entries) |-> entries[i].b])
    [] ty = "Auth" ->
         LET blocks == SelectSeq(n.v, LAMBDA kv : kv[1] # "SuitDigest")
             dg == Get(n, "SuitDigest")
             a == Get(dg, "suit-digest-algorithm-id") IN
         Arr(1 + Len(blocks)) \o Bstr(Arr(2) \o Code("hashalg", a) \o Bstr(Hole(1, a.s)))
            \o Cat([i \in 1..Len(blocks) |-> Bstr(Tag(18) \o W("CoseSign1", Get(blocks[i][2], "CoseSign1Tagged"), env))])
    [] ty = "Digest" ->       \* a digest whose bytes are given
         Arr(2) \o Code("hashalg", Get(n, "suit-digest-algorithm-id"))
            \o Bstr(IF Has(n, "suit-digest-bytes") THEN Get(n, "suit-digest-bytes").x ELSE <<>>)
    [] ty = "SevDigest" ->    \* digest of a severable member: recomputed when the member is in the envelope
         LET a == Get(n.d, "suit-digest-algorithm-id") IN
         Arr(2) \o Code("hashalg", a)
            \o Bstr(IF Has(env, n.k) THEN Hole(100 + CodeOf("envelope", n.k), a.s)
                    ELSE IF Has(n.d, "suit-digest-bytes") THEN Get(n.d, "suit-digest-bytes").x ELSE <<>>)
    [] ty = "Manifest" ->
         Map(Len(n.v)) \o Cat([i \in 1..Len(n.v) |->
            LET k == n.v[i][1]  v == n.v[i][2] IN
            Code("manifest", [s |-> k]) \o
            (CASE k \in {"suit-manifest-version", "suit-manifest-sequence-number"} -> CInt(v)
               [] k = "suit-common" -> Bstr(W("Common", v, env))
               [] k = "suit-reference-uri" -> Tstr(v.u)
               [] k = "suit-manifest-component-id" -> W("ComponentId", v, env)
               [] k = "suit-current-version" -> Bstr(W("IntList", v, env))
               [] k \in SeqMembers -> Bstr(W("CmdSeq", v, env))
               [] k \in SevSeqMembers -> (IF v.t = "l" THEN Bstr(W("CmdSeq", v, env)) ELSE W("SevDigest", [k |-> k, d |-> v], env))
               [] k = "suit-text" -> W("SevDigest", [k |-> k, d |-> v], env))])
    [] ty = "Common" ->
         Map(Len(n.v)) \o Cat([i \in 1..Len(n.v) |->
            LET k == n.v[i][1]  v == n.v[i][2] IN
            Code("common", [s |-> k]) \o
            (CASE k = "suit-components" -> Arr(Len(v.v)) \o Cat([j \in 1..Len(v.v) |-> W("ComponentId", v.v[j], env)])
               [] k = "suit-shared-sequence" -> Bstr(W("CmdSeq", v, env))
               [] k = "suit-dependencies" ->
                    Map(Len(v.v)) \o Cat([j \in 1..Len(v.v) |->
                       CInt(v.v[j][2].ki) \o
                       Map(Len(v.v[j][2].v)) \o Cat([m \in 1..Len(v.v[j][2].v) |->
                          Code("depmeta", [s |-> v.v[j][2].v[m][1]]) \o W("ComponentId", v.v[j][2].v[m][2], env)])]))])
    [] ty = "ComponentId" -> Arr(Len(n.v)) \o Cat([i \in 1..Len(n.v) |-> W("CidPart", n.v[i], env)])
    [] ty = "CidPart" ->
         (CASE n.t = "m" -> Bstr(Get(n, "raw").x)                       \* {raw: hex} (UUID sugar is resolved to raw)
            [] n.t = "s" -> (IF n.one THEN Bstr(n.u) ELSE Bstr(Tstr(n.u)))
            [] n.t = "i" -> Bstr(CInt(n)))
    [] ty = "IntList" -> Arr(Len(n.v)) \o Cat([i \in 1..Len(n.v) |-> CInt(n.v[i])])
    [] ty = "CmdSeq" ->
         LET cnt == LET f[i \in 0..Len(n.v)] == IF i = 0 THEN 0 ELSE f[i - 1] + Len(n.v[i].v) IN f[Len(n.v)] IN
         Arr(2 * cnt) \o Cat([i \in 1..Len(n.v) |-> Cat([j \in 1..Len(n.v[i].v) |-> W("Command", n.v[i].v[j], env)])])
    [] ty = "Command" ->      \* n = <<name, argument>>
         LET k == n[1]  v == n[2] IN
         Code("command", [s |-> k]) \o
         (CASE k \in Conditions \cup PolicyDirectives -> HeadN(0, PolicySum(v))
            [] k = "suit-directive-set-component-index" ->
                 (CASE v.t = "i" -> CInt(v) [] v.t = "b" -> Bool(v.v) [] v.t = "l" -> W("IntList", v, env))
            [] k \in {"suit-directive-set-parameters", "suit-directive-override-parameters"} -> W("Params", v, env)
            [] k = "suit-directive-try-each" -> Arr(Len(v.v)) \o Cat([i \in 1..Len(v.v) |-> Bstr(W("CmdSeq", v.v[i], env))])
            [] k = "suit-directive-run-sequence" -> Bstr(W("CmdSeq", v, env)))
    [] ty = "Params" ->
         Map(Len(n.v)) \o Cat([i \in 1..Len(n.v) |->
            LET k == n.v[i][1]  v == n.v[i][2] IN
            Code("parameter", [s |-> k]) \o
            (CASE k \in {"suit-parameter-vendor-identifier", "suit-parameter-class-identifier", "suit-parameter-device-identifier"}
                    -> Bstr(Get(v, "raw").x)
               [] k = "suit-parameter-image-digest" -> Bstr(W("Digest", v, env))
               [] k \in {"suit-parameter-component-slot", "suit-parameter-source-component"} -> CInt(v)
               [] k \in {"suit-parameter-strict-order", "suit-parameter-soft-failure"} -> Bool(v.v)
               [] k = "suit-parameter-image-size" -> CInt(Get(v, "raw"))
               [] k = "suit-parameter-content" -> (IF v.t = "i" THEN Bstr(CInt(v)) ELSE Bstr(v.x))
               [] k = "suit-parameter-uri" -> Tstr(v.u)
               [] k = "suit-parameter-invoke-args" ->
                    Bstr(Map(Len(v.v)) \o Cat([j \in 1..Len(v.v) |-> Code("invokeargs", [s |-> v.v[j][1]]) \o
                         (IF v.v[j][2].t = "b" THEN Bool(v.v[j][2].v) ELSE CInt(v.v[j][2]))]))
               [] k = "suit-parameter-version" ->
                    Bstr(Arr(2) \o Code("comparator", [s |-> v.v[1][1]]) \o W("IntList", v.v[1][2], env))
               [] k = "suit-parameter-encryption-info" ->
                    (IF Has(v, "raw") THEN Get(v, "raw").x
                     ELSE Bstr(Tag(96) \o W("CoseEncrypt", Get(v, "CoseEncryptTagged"), env))))])
    [] ty = "HeaderMap" ->
         Map(Len(n.v)) \o Cat([i \in 1..Len(n.v) |->
            LET k == n.v[i][1]  v == n.v[i][2] IN
            Code("header", [s |-> k]) \o
            (CASE k = "suit-cose-algorithm-id" -> Code("cosealg", v)
               [] k = "suit-cose-key-id" -> (IF v.t = "i" THEN Bstr(CInt(v)) ELSE Bstr(v.x))
               [] k = "suit-cose-iv" -> Bstr(v.x))])
    [] ty = "CoseSign1" ->
         Arr(4) \o Bstr(W("HeaderMap", Get(n, "protected"), env)) \o W("HeaderMap", Get(n, "unprotected"), env)
            \o (IF Get(n, "payload").t = "n" THEN Null ELSE Bstr(W("Cwt", Get(n, "payload"), env)))     \* RFC 9052: bstr / nil
            \o Bstr(Get(n, "signature").x)
    [] ty = "Cwt" ->
         Map(Len(n.v)) \o Cat([i \in 1..Len(n.v) |->
            LET k == n.v[i][1]  v == n.v[i][2] IN
            Code("cwt", [s |-> k]) \o (CASE v.t = "i" -> CInt(v) [] k = "CW ID" -> Bstr(v.x) [] OTHER -> Tstr(v.u))])
    [] ty = "CoseEncrypt" ->
         Arr(4) \o Bstr(W("HeaderMap", Get(n, "protected"), env)) \o W("HeaderMap", Get(n, "unprotected"), env)
            \o (IF Get(n, "ciphertext").t = "n" THEN Null ELSE Bstr(Get(n, "ciphertext").x))
            \o Arr(Len(Get(n, "recipients").v)) \o Cat([i \in 1..Len(Get(n, "recipients").v) |-> W("Recipient", Get(n, "recipients").v[i], env)])
    [] ty = "Recipient" ->
         LET p == Get(n, "protected")
             nested == SelectSeq(n.v, LAMBDA kv : kv[1] \notin {"protected", "unprotected", "ciphertext"}) IN
         Arr(3 + Len(nested))
            \o (IF (p.t = "m" /\ Len(p.v) = 0) \/ p.t = "s" THEN Bstr(<<>>) ELSE Bstr(W("HeaderMap", p, env)))
            \o W("HeaderMap", Get(n, "unprotected"), env)
            \o (IF Get(n, "ciphertext").t = "n" THEN Null ELSE Bstr(Get(n, "ciphertext").x))
            \o Cat([j \in 1..Len(nested) |-> Arr(Len(nested[j][2].v)) \o Cat([i \in 1..Len(nested[j][2].v) |-> W("Recipient", nested[j][2].v[i], env)])])
    [] ty = "TextMap" ->      \* {lang: {text key: str | component id (JSON): {component text key: str}}}
         Map(Len(n.v)) \o Cat([i \in 1..Len(n.v) |->
            Tstr(n.v[i][2].ku) \o
            Map(Len(n.v[i][2].v)) \o Cat([j \in 1..Len(n.v[i][2].v) |->
               LET k == n.v[i][2].v[j][1]  v == n.v[i][2].v[j][2] IN
               IF v.t = "s" THEN Code("text", [s |-> k]) \o Tstr(v.u)
               ELSE W("ComponentId", v.cid, env) \o
                    Map(Len(v.v)) \o Cat([m \in 1..Len(v.v) |-> Code("textcomponent", [s |-> v.v[m][1]]) \o Tstr(v.v[m][2].u)])])])

Wire(desc) == W("Envelope", desc, Get(desc, "SUIT_Envelope_Tagged"))

\* ---------------------------------------------------------------- comparison with the tool's bytes
\* hashes : sequence of <<ref, alg index, digest bytes>> computed with hashlib over the ACTUAL spans
RunOff(exp, i) == CHOOSE k \in 0..63 : (i - k = 1 \/ exp[i - k - 1] # exp[i]) /\ \A j \in 0..k : exp[i - j] = exp[i]
HoleByte(hashes, code, off) ==
  LET ref == (0 - code) \div 8  a == (0 - code) % 8
      hit == {h \in {hashes[i] : i \in 1..Len(hashes)} : h[1] = ref /\ h[2] = a} IN
  IF hit = {} THEN -1 ELSE LET h == CHOOSE h \in hit : TRUE IN IF off + 1 > Len(h[3]) THEN -1 ELSE h[3][off + 1]

MatchJudge(exp, act, hashes) ==
  IF Len(exp) # Len(act) THEN "EncodingHasTheSpecifiedLength"
  ELSE IF \E i \in 1..Len(exp) : exp[i] >= 0 /\ exp[i] # act[i] THEN "BytesAreTheSpecifiedEncoding"
  ELSE IF \E i \in 1..Len(exp) : exp[i] < 0 /\ HoleByte(hashes, exp[i], RunOff(exp, i)) # act[i] THEN "ComputedDigestIsHashOfSpecifiedBytes"
  ELSE "ok"
FirstDiff(exp, act) == IF \E i \in 1..Len(exp) : i > Len(act) \/ (exp[i] >= 0 /\ exp[i] # act[i])
                       THEN CHOOSE i \in 1..Len(exp) : (i > Len(act) \/ (exp[i] >= 0 /\ exp[i] # act[i])) /\
                                \A j \in 1..(i - 1) : j <= Len(act) /\ (exp[j] < 0 \/ exp[j] = act[j])
                       ELSE 0
=============================================================================
