---------------------------- MODULE Update_Trace ----------------------------
(***************************************************************************)
(* Use C for C16.  One scenario per hex file written by `image update`:    *)
(*   Begin {b, kind : "uci" | "part", addr, part, size, caches, bytes}     *)
(*   Rec   {t, off, data}        one per record of the real file           *)
(*   End   {}                    after the last record                     *)
(*   Missing {}                  instead of Rec/End when no file exists    *)
(* The expected image is built HERE by Update.tla from the scenario        *)
(* parameters (addresses/sizes as <<hi16, lo16>> pairs).                   *)
(***************************************************************************)
EXTENDS Update, Json, IOUtils

Log == ndJsonDeserialize(IOEnv.TRACE_FILE)

VARIABLES l, st, bad, dead

Regions(s) == LET e == Log[s.b] IN
  IF e.kind = "uci" THEN UciRegions(e.addr, e.part, e.size, e.caches)
  ELSE PartitionRegions(e.part, e.bytes)

Judge(s, e) ==
  CASE e.ev = "Rec"     -> RecJudge(s.h, Regions(s), e)
    [] e.ev = "End"     -> EndJudge(s.h, Regions(s))
    [] e.ev = "Missing" -> "OutputFileWritten"
    [] OTHER            -> "UnknownEvent"

Effect(s, e) ==
  CASE e.ev = "Rec" -> [s EXCEPT !.h = RecEffect(s.h, Regions(s), e)]
    [] OTHER        -> s

Start(e) == [b |-> e.b, h |-> HexInit(1)]

TB == INSTANCE TraceBatch
Spec == TB!Spec
Report == TB!Report
AllConsumed == TB!AllConsumed
=============================================================================
