SPECIFICATION Spec
CONSTANTS
  EMIT = TRUE
INVARIANT AtomIsKnown
INVARIANT Emit
CHECK_DEADLOCK FALSE
