----------------------------- MODULE Version_Apa -----------------------------
(***************************************************************************)
(* C20 arithmetic obligations for UNBOUNDED field values (Apalache):       *)
(* three numeric fields, any pre-release label, any pre-release number.    *)
(* A version is (x1, x2, x3, r, n): r = 1 alpha, 2 beta, 3 rc, 4 release;  *)
(* its list is <<x1, x2, x3, code(r), n>> zero-padded (code(release) = 0,  *)
(* missing number = 0).                                                    *)
(***************************************************************************)
EXTENDS Integers
VARIABLES
  \* @type: Int;
  a1,
  \* @type: Int;
  a2,
  \* @type: Int;
  a3,
  \* @type: Int;
  ar,
  \* @type: Int;
  an,
  \* @type: Int;
  b1,
  \* @type: Int;
  b2,
  \* @type: Int;
  b3,
  \* @type: Int;
  br,
  \* @type: Int;
  bn

Code(r) == IF r = 4 THEN 0 ELSE r - 4
Init == /\ a1 \in Nat /\ a2 \in Nat /\ a3 \in Nat /\ b1 \in Nat /\ b2 \in Nat /\ b3 \in Nat
        /\ ar \in 1..4 /\ br \in 1..4 /\ an \in Nat /\ bn \in Nat
        /\ (ar = 4 => an = 0) /\ (br = 4 => bn = 0)
Next == UNCHANGED <<a1, a2, a3, ar, an, b1, b2, b3, br, bn>>

NumLess == a1 < b1 \/ (a1 = b1 /\ a2 < b2) \/ (a1 = b1 /\ a2 = b2 /\ a3 < b3)
NumEq == a1 = b1 /\ a2 = b2 /\ a3 = b3
SemLess == NumLess \/ (NumEq /\ ar < br) \/ (NumEq /\ ar = br /\ ar # 4 /\ an < bn)
ListLess == \/ a1 < b1
            \/ (a1 = b1 /\ a2 < b2)
            \/ (a1 = b1 /\ a2 = b2 /\ a3 < b3)
            \/ (NumEq /\ Code(ar) < Code(br))
            \/ (NumEq /\ Code(ar) = Code(br) /\ an < bn)
OrderEmbedding == SemLess <=> ListLess

\* default sequence number: strictly increasing in (major, minor, patch, tweak) order when minor, patch, tweak < 256
SeqInit == /\ a1 \in Nat /\ b1 \in Nat /\ a2 \in 0..255 /\ a3 \in 0..255 /\ an \in 0..255
           /\ b2 \in 0..255 /\ b3 \in 0..255 /\ bn \in 0..255 /\ ar = 0 /\ br = 0
NumA == a1 * 16777216 + a2 * 65536 + a3 * 256 + an
NumB == b1 * 16777216 + b2 * 65536 + b3 * 256 + bn
LexLess == a1 < b1 \/ (a1 = b1 /\ a2 < b2) \/ (a1 = b1 /\ a2 = b2 /\ a3 < b3) \/ (a1 = b1 /\ a2 = b2 /\ a3 = b3 /\ an < bn)
SeqMonotone == LexLess <=> NumA < NumB
=============================================================================
