SPECIFICATION Spec
CONSTANTS
  EBS = {1, 2, 3, 4, 7, 8, 16}
  KEYLENS = {1, 2}
  DATALENS = {0, 1, 5, 17}
  KTAGS = {0, 1}
  DTAGS = {0, 1}
  MAXOPS = 3
  EMIT = FALSE
INVARIANT JudgeAcceptsImpl
INVARIANT ClosedFileWellFormed
INVARIANT OpenBufferAligned
INVARIANT AbstractInStep
VIEW View
CHECK_DEADLOCK FALSE
