--------------------------- MODULE Determinism_Trace ---------------------------
(***************************************************************************)
(* Use C for C18:  Begin {}; Ref {key, out} (fresh interpreter);           *)
(*                 Exec {key, out} (inside a long-running interpreter)     *)
(* key = interned id of Determinism!Key rendered by the harness from the   *)
(* operation and the file versions it reads.                               *)
(***************************************************************************)
EXTENDS Determinism, Json, IOUtils
Log == ndJsonDeserialize(IOEnv.TRACE_FILE)
VARIABLES l, st, bad, dead
Judge(s, e) == CASE e.ev = "Ref" -> RefJudge(s.refs, e.key, e.out)
                 [] e.ev = "Exec" -> ExecJudge(s.refs, e.key, e.out)
                 [] OTHER -> "UnknownEvent"
Effect(s, e) == IF e.ev = "Ref" THEN [s EXCEPT !.refs = [k \in DOMAIN s.refs \cup {e.key} |-> IF k = e.key THEN e.out ELSE s.refs[k]]] ELSE s
Start(e) == [refs |-> <<>>]
TB == INSTANCE TraceBatch
Spec == TB!Spec
Report == TB!Report
AllConsumed == TB!AllConsumed
=============================================================================
