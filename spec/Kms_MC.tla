-------------------------------- MODULE Kms_MC --------------------------------
(***************************************************************************)
(* Use A / B for the KMS growth spec: all stores over three file names     *)
(* (each absent or holding a key of one of five types) x request names x   *)
(* algorithms.  Invariants: the implementation-shaped Outcome never breaks *)
(* the contract (it signs only with the named key and only when the type   *)
(* fits); its deviations are exactly refusals that take the wrong shape.   *)
(* Every scenario is printed for replay into the real basic_kms.py.        *)
(***************************************************************************)
EXTENDS Kms, Json
CONSTANT EMIT
Files == {"k.pem", "k.der", "k.x.pem"}
EncOf(f) == IF f = "k.der" THEN "der" ELSE "pem"
Names == {"k", "k.x", "absent"}
Stores == UNION {[S -> Types] : S \in SUBSET Files}
VARIABLES s
Init == s \in [types : Stores, name : Names, alg : Algs]
Next == UNCHANGED s
Spec == Init /\ [][Next]_s
StoreOf(x) == [f \in DOMAIN x.types |-> [enc |-> EncOf(f), type |-> x.types[f]]]
ModelKeepsContract ==
  LET st == StoreOf(s)  o == Outcome(st, s.name, s.alg) IN
  SignContract([store |-> st, name |-> s.name, alg |-> s.alg, class |-> Observed(o), signer |-> o.file]) = "ok"
\* every deviation happens where the contract allows a refusal (never instead of a signature the contract promises... the
\* contract promises none: it is permissive on refusals; recorded here so that the count of deviating scenarios is visible)
DeviationsAreRefusalsGoneWrong ==
  LET st == StoreOf(s)  o == Outcome(st, s.name, s.alg) IN o.class \in Deviations => o.file = "none"
Emit == EMIT => PrintT("SCN " \o ToJson([types |-> s.types, name |-> s.name, alg |-> s.alg,
                                           want |-> Outcome(StoreOf(s), s.name, s.alg)]))
=============================================================================
