------------------------------ MODULE Wire_Trace ------------------------------
(***************************************************************************)
(* Use C for C02 / C03:  Wire {desc, bytes, hashes}                        *)
(*   desc   typed description tree (harness/wiredesc.py)                   *)
(*   bytes  what the real create produced                                  *)
(*   hashes <<ref, algorithm index, digest>> by hashlib over actual spans  *)
(***************************************************************************)
EXTENDS Wire, Json, IOUtils
Log == ndJsonDeserialize(IOEnv.TRACE_FILE)
VARIABLES l, st, bad, dead
Judge(s, e) == IF e.ev = "Wire" THEN MatchJudge(Wire(e.desc), e.bytes, e.hashes) ELSE "UnknownEvent"
Effect(s, e) == s
Start(e) == [x |-> 0]
TB == INSTANCE TraceBatch
Spec == TB!Spec
Report == TB!Report
AllConsumed == TB!AllConsumed
=============================================================================
