------------------------------- MODULE Version -------------------------------
(***************************************************************************)
(* C20: semantic version strings N(.N)*[-(alpha|beta|rc)[.N]] as integer   *)
(* lists (SuitComponentVersion.from_obj) and the default sequence number   *)
(* / version string of the NCS build glue (append_default_version_values). *)
(* A version is [nums : Seq(Nat), pre : "none"|"alpha"|"beta"|"rc",        *)
(* prenum : -1 (absent) or Nat].                                           *)
(***************************************************************************)
EXTENDS Integers, Sequences, TLC

PreCode(p) == CASE p = "alpha" -> -3 [] p = "beta" -> -2 [] p = "rc" -> -1
PreRank(p) == CASE p = "alpha" -> 1 [] p = "beta" -> 2 [] p = "rc" -> 3 [] p = "none" -> 4

\* the conversion the property demands
Conv(v) == v.nums \o (IF v.pre = "none" THEN <<>> ELSE <<PreCode(v.pre)>> \o (IF v.prenum >= 0 THEN <<v.prenum>> ELSE <<>>))

At(s, i) == IF i <= Len(s) THEN s[i] ELSE 0
Max(a, b) == IF a > b THEN a ELSE b

\* zero-padded element-wise (lexicographic) comparison of integer lists
ListLess(x, y) == \E i \in 1..Max(Len(x), Len(y)) : At(x, i) < At(y, i) /\ \A j \in 1..(i - 1) : At(x, j) = At(y, j)

\* semantic-version precedence: numeric fields numerically (missing field = 0), then release above any pre-release,
\* alpha < beta < rc, then the pre-release number (missing = 0)
NumLess(a, b) == ListLess(a.nums, b.nums)
NumEq(a, b) == ~ListLess(a.nums, b.nums) /\ ~ListLess(b.nums, a.nums)
PN(v) == IF v.prenum >= 0 THEN v.prenum ELSE 0
SemLess(a, b) == \/ NumLess(a, b)
                 \/ NumEq(a, b) /\ PreRank(a.pre) < PreRank(b.pre)
                 \/ NumEq(a, b) /\ a.pre = b.pre /\ a.pre # "none" /\ PN(a) < PN(b)

\* pairs over which "coincides" is well defined (O3): same number of numeric fields, or no label on the shorter one
Comparable(a, b) == \/ Len(a.nums) = Len(b.nums)
                    \/ Len(a.nums) < Len(b.nums) /\ a.pre = "none"
                    \/ Len(b.nums) < Len(a.nums) /\ b.pre = "none"

OrderJudge(a, b, la, lb) ==
  IF ~Comparable(a, b) THEN "ok"
  ELSE IF SemLess(a, b) # ListLess(la, lb) THEN "PrecedenceCoincidesWithListOrder"
  ELSE IF SemLess(b, a) # ListLess(lb, la) THEN "PrecedenceCoincidesWithListOrder"
  ELSE "ok"

ConvJudge(v, accepted, got) ==
  IF ~accepted THEN "SupportedVersionAccepted"
  ELSE IF got # Conv(v) THEN "ConvertedListIsTheSpecifiedOne"
  ELSE "ok"

\* default sequence number as base-256 digits <<major, minor, patch, tweak>> when minor, patch, tweak < 256
SeqDigits(M, m, p, t) == <<M, m, p, t>>
SeqLess(a, b) == ListLess(a, b)      \* big-endian digits: numeric order = lexicographic order

\* EXTRAVERSION classes -> the pre-release part of the default version string
ExtraPre(x) == CASE x.class = "empty" -> [pre |-> "none", prenum |-> -1]
                 [] x.class = "label" -> [pre |-> x.label, prenum |-> x.num]
                 [] x.class = "other" -> [pre |-> "alpha", prenum |-> -1]
DefaultVersion(M, m, p, x) == [nums |-> <<M, m, p>>, pre |-> ExtraPre(x).pre, prenum |-> ExtraPre(x).prenum]
=============================================================================
