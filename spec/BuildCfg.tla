-------------------------------- MODULE BuildCfg --------------------------------
(***************************************************************************)
(* Growth beyond the listed properties (DESIGN.md 4.16): ncs/build.py      *)
(* read_configurations - one entry per image "name,binary,edt,kconfig":    *)
(* the template variable of an image is its name (a name starting with a   *)
(* digit is MEANT to get a leading underscore, see O6), two images with    *)
(* the same variable are refused, `target` aliases the named image, and    *)
(* an entry with fewer than four fields is refused.  File-based KMS        *)
(* context (ncs/basic_kms.py parse_context): none -> the script's own      *)
(* directory; an existing directory -> that directory; otherwise JSON with *)
(* "keys_directory"; anything else is refused.                             *)
(***************************************************************************)
EXTENDS Integers, Sequences, FiniteSets, TLC
\* e.images : sequence of [name, digitfirst, fields]; e.result : "ok" | "refused"; e.vars : sequence of variable names found
VarOfShipped(img) == img.name                                   \* what the shipped code does (the prefix regex never matches)
Refused(e) == (\E i \in 1..Len(e.images) : e.images[i].fields < 4)
              \/ (\E i, j \in 1..Len(e.images) : i # j /\ VarOfShipped(e.images[i]) = VarOfShipped(e.images[j]))
ConfigJudge(e) ==
  IF Refused(e) THEN (IF e.result = "ok" THEN "BadConfigurationRefused" ELSE "ok")
  ELSE IF e.result # "ok" THEN "GoodConfigurationAccepted"
  ELSE IF {e.vars[i] : i \in 1..Len(e.vars)} # {VarOfShipped(e.images[i]) : i \in 1..Len(e.images)} THEN "OneVariablePerImage"
  ELSE IF e.targetGiven /\ ~e.targetAliased THEN "TargetAliasesTheNamedImage"
  ELSE "ok"
ContextJudge(e) ==
  CASE e.kind = "none"    -> (IF e.result = "scriptdir" THEN "ok" ELSE "NoContextMeansScriptDirectory")
    [] e.kind = "dir"     -> (IF e.result = "thatdir" THEN "ok" ELSE "DirectoryContextIsUsed")
    [] e.kind = "json"    -> (IF e.result = "jsondir" THEN "ok" ELSE "JsonContextNamesKeysDirectory")
    [] e.kind = "garbage" -> (IF e.result = "refused" THEN "ok" ELSE "GarbageContextRefused")
=============================================================================
