SPECIFICATION Spec
CONSTANTS
  EMIT = TRUE
INVARIANT FixedWidth
INVARIANT TableTotal
INVARIANT Emit
CHECK_DEADLOCK FALSE
