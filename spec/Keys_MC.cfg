SPECIFICATION Spec
CONSTANTS
  EMIT = TRUE
INVARIANT FixedWidth
INVARIANT EdgePreserved
INVARIANT TableTotal
INVARIANT Emit
CHECK_DEADLOCK FALSE
