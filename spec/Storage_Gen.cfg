SPECIFICATION Spec
CONSTANTS
  SOCS = {"nrf54h20", "nrf9280"}
  MAXSET = 2
  EMIT = TRUE
INVARIANT Emit
CHECK_DEADLOCK FALSE
