------------------------------ MODULE Version_MC ------------------------------
(***************************************************************************)
(* Use A for C20: for ALL pairs of versions of the bounded domain          *)
(* (1..3 numeric fields in FIELD x {release, alpha, beta, rc} x            *)
(* {no number} + PRENUMS) the order embedding                              *)
(*      SemLess(a, b) <=> ListLess(Conv(a), Conv(b))                       *)
(* on comparable pairs, and strict monotonicity of the default sequence    *)
(* number in (major, minor, patch, tweak) order.  With EMIT the domain is  *)
(* printed for replay through the real converter.                          *)
(***************************************************************************)
EXTENDS Version, Json

CONSTANTS FIELD, PRENUMS, EMIT

NumSeqs == {<<a>> : a \in FIELD} \cup {<<a, b>> : a \in FIELD, b \in FIELD} \cup {<<a, b, c>> : a \in FIELD, b \in FIELD, c \in FIELD}
Versions == {[nums |-> n, pre |-> "none", prenum |-> -1] : n \in NumSeqs}
            \cup {[nums |-> n, pre |-> p, prenum |-> k] : n \in NumSeqs, p \in {"alpha", "beta", "rc"}, k \in PRENUMS \cup {-1}}

VARIABLES a, b
Init == a \in Versions /\ b \in Versions
Next == UNCHANGED <<a, b>>
Spec == Init /\ [][Next]_<<a, b>>

OrderEmbedding == Comparable(a, b) => (SemLess(a, b) <=> ListLess(Conv(a), Conv(b)))
EqualIffEqualLists == Comparable(a, b) => ((~SemLess(a, b) /\ ~SemLess(b, a)) <=> (~ListLess(Conv(a), Conv(b)) /\ ~ListLess(Conv(b), Conv(a))))
\* SemLess is a strict weak order on same-shape versions (sanity of the oracle itself)
Irreflexive == ~SemLess(a, a)
Asymmetric == ~(SemLess(a, b) /\ SemLess(b, a))

Tuples == {<<M, m, p, t>> : M \in {0, 1, 2, 127}, m \in {0, 1, 255}, p \in {0, 1, 255}, t \in {0, 1, 255}}
Num(x) == ((x[1] * 256 + x[2]) * 256 + x[3]) * 256 + x[4]
ASSUME \A x \in Tuples, y \in Tuples : ListLess(x, y) <=> Num(x) < Num(y)

Emit == (EMIT /\ a = b) => PrintT("SCN " \o ToJson(a))
=============================================================================
