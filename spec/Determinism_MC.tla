---------------------------- MODULE Determinism_MC ----------------------------
(***************************************************************************)
(* Use A / B for C18: an interpreter with a store of versioned files, a    *)
(* working directory and a sequence of operations; environment steps       *)
(* Touch(f) (new content at the same path) and Chdir.  TLC enumerates ALL  *)
(* schedules up to MAXLEN over the alphabet and annotates every operation  *)
(* with the key of its inputs (Determinism!Key); the invariant states the  *)
(* purpose of the key: two executions with the same key agree on every     *)
(* input and differ only in history, position, directory.  Schedules are   *)
(* printed for replay in one real interpreter.                             *)
(***************************************************************************)
EXTENDS Determinism, Json
CONSTANTS OPS, MAXLEN, EMIT
Files == {"fw", "child", "env", "multi", "multi2"}
VARIABLES ver, cwd, hist
vars == <<ver, cwd, hist>>
Init == ver = [f \in Files |-> 1] /\ cwd = 1 /\ hist = <<>>
Do(op) == /\ Len(hist) < MAXLEN
          /\ hist' = Append(hist, [op |-> op, key |-> Key(op, ver, cwd), cwd |-> cwd])
          /\ UNCHANGED <<ver, cwd>>
Touch(f) == /\ Len(hist) < MAXLEN /\ ver[f] = 1
            /\ ver' = [ver EXCEPT ![f] = 2]
            /\ hist' = Append(hist, [op |-> "touch_" \o f, key |-> <<"touch_" \o f, <<>>, 0>>, cwd |-> cwd]) /\ UNCHANGED cwd
Chdir == /\ Len(hist) < MAXLEN /\ cwd = 1 /\ cwd' = 2
         /\ hist' = Append(hist, [op |-> "chdir", key |-> <<"chdir", <<>>, 0>>, cwd |-> 2]) /\ UNCHANGED ver
Next == (\E op \in OPS : Do(op)) \/ Touch("fw") \/ Chdir
Spec == Init /\ [][Next]_vars
SameKeySameInputs == \A i, j \in 1..Len(hist) : hist[i].key = hist[j].key =>
                        /\ Canon(hist[i].op) = Canon(hist[j].op)
                        /\ (hist[i].op \in CwdOps => hist[i].cwd = hist[j].cwd)
Emit == (EMIT /\ Len(hist) = MAXLEN) => PrintT("SCN " \o ToJson([i \in 1..Len(hist) |-> hist[i].op]))
=============================================================================
