----------------------------- MODULE Parser_Trace -----------------------------
(* Use C for C17:  Parse {outcome, cpu_ms, rss_kb, len} *)
EXTENDS Parser, Json, IOUtils
Log == ndJsonDeserialize(IOEnv.TRACE_FILE)
VARIABLES l, st, bad, dead
Judge(s, e) == IF e.ev = "Parse" THEN ParseJudge(e) ELSE "UnknownEvent"
Effect(s, e) == s
Start(e) == [x |-> 0]
TB == INSTANCE TraceBatch
Spec == TB!Spec
Report == TB!Report
AllConsumed == TB!AllConsumed
=============================================================================
