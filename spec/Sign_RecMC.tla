------------------------------ MODULE Sign_RecMC ------------------------------
(***************************************************************************)
(* Use A for C09 (recursive part): RecursiveSigner over a 3-level          *)
(* hierarchy root -> c -> g (each with an unnamed sibling member), every   *)
(* assignment of a per-node configuration from the reduced alphabet CFG    *)
(* (omit x algorithm ok/mismatch x action x pre-signed; key missing;       *)
(* dependency absent / not an envelope).  The implementation-shaped        *)
(* RecImpl must be accepted by RecursiveJudge - the judge applied to the   *)
(* real `sign recursive`.  With EMIT the configurations are printed for    *)
(* replay (Use B).                                                         *)
(***************************************************************************)
EXTENDS SignImpl, Json

CONSTANT EMIT

(* Part 2: recursive signing over a fixed 3-node hierarchy root -> c -> g  *)
(* plus an unnamed sibling member; per-node configuration alphabet CFG.    *)

CFG == { [omit |-> o, haskey |-> TRUE, key |-> "ked", alg |-> a, action |-> act, pre |-> p, exists |-> TRUE, isenv |-> TRUE]
         : o \in BOOLEAN, a \in {"es-256", "eddsa"}, act \in Actions, p \in BOOLEAN }
       \cup { [omit |-> o, haskey |-> FALSE, key |-> "ked", alg |-> "eddsa", action |-> "error", pre |-> FALSE,
               exists |-> TRUE, isenv |-> TRUE] : o \in BOOLEAN }
       \cup { [omit |-> FALSE, haskey |-> TRUE, key |-> "ked", alg |-> "eddsa", action |-> "error", pre |-> FALSE,
               exists |-> ex, isenv |-> ie] : ex \in BOOLEAN, ie \in BOOLEAN }

Pre(e, p) == IF p THEN Mk(e.mfw, e.dgraw, e.others, e.pay, <<NewBlock(e, "kp521", "es-521", "0x9", 99)>>) ELSE e

\* input hierarchy for configurations cg (grandchild), cc (child), cr (root)
InG(cg) == Pre(Mk(<<31>>, <<32>>, <<<<"k10", <<31>>>>>>, <<>>, <<>>), cg.pre)
InC(cc, cg) == Pre(Mk(<<21>>, <<22>>, <<<<"k10", <<21>>>>, <<"g", InG(cg).all>>, <<"x", <<5>>>>>>, <<<<"g", InG(cg).all>>, <<"x", <<5>>>>>>, <<>>), cc.pre)
InR(cr, cc, cg) == Pre(Mk(<<11>>, <<12>>, <<<<"k10", <<11>>>>, <<"c", InC(cc, cg).all>>, <<"y", <<6>>>>>>, <<<<"c", InC(cc, cg).all>>, <<"y", <<6>>>>>>, <<>>), cr.pre)

ReEmbed(e, name, child) ==
  Mk(e.mfw, e.dgraw, [i \in 1..Len(e.others) |-> IF e.others[i][1] = name THEN <<name, child.all>> ELSE e.others[i]],
     [i \in 1..Len(e.pay) |-> IF e.pay[i][1] = name THEN <<name, child.all>> ELSE e.pay[i]], e.blocks)

NodeFails(c, e) == ~c.exists \/ ~c.isenv \/ (~c.omit /\ ~c.haskey) \/ (~c.omit /\ ~SignImpl(e, c.action, c.key, c.alg, "0x1", 7).written)
NodeOut(c, e) == IF c.omit THEN e ELSE SignImpl(e, c.action, c.key, c.alg, "0x1", 7).out

RecImpl(cr, cc, cg) ==
  LET ig == InG(cg)
      fg == NodeFails(cg, ig)
      og == NodeOut(cg, ig)
      ic == ReEmbed(InC(cc, cg), "g", og)
      fc == NodeFails(cc, ic)
      oc == NodeOut(cc, ic)
      ir == ReEmbed(InR(cr, cc, cg), "c", oc)
      fr == NodeFails(cr, ir)
      or == NodeOut(cr, ir)
      node(par, name, c, inp, out, named) ==
         [parent |-> par, name |-> name, exists |-> c.exists, isenv |-> c.isenv, omit |-> c.omit, haskey |-> c.haskey,
          key |-> c.key, ktype |-> KType(c.key), alg |-> c.alg, kid |-> "0x1", action |-> c.action,
          inp |-> inp, out |-> out, namedk |-> named]
  IN [written |-> ~(fg \/ fc \/ fr),
      nodes |-> <<node(0, "r", cr, InR(cr, cc, cg), or, {"c"}), node(1, "c", cc, InC(cc, cg), oc, {"g"}),
                  node(2, "g", cg, ig, og, {})>>]

VARIABLES cr, cc, cg
Init == cr \in CFG /\ cc \in CFG /\ cg \in CFG /\ cr.exists /\ cr.isenv
Next == UNCHANGED <<cr, cc, cg>>
Spec == Init /\ [][Next]_<<cr, cc, cg>>

R == RecImpl(cr, cc, cg)
RecursiveAccepted == RecursiveJudge(R) = "ok"
\* sanity of the model itself: something is written for an all-valid configuration, nothing otherwise
WrittenIffNoNodeFails == R.written <=> ~\E i \in 1..3 : NodeMustFail(R.nodes[i])
Emit == EMIT => PrintT("SCN " \o ToJson([cfg |-> <<cr, cc, cg>>, written |-> R.written]))
=============================================================================
