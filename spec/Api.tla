---------------------------------- MODULE Api ----------------------------------
(***************************************************************************)
(* Growth beyond the listed properties (DESIGN.md 4.16): the read-only     *)
(* envelope API (suit_generator/envelope_api.py) must agree with what the  *)
(* verifier's own reader finds in the bytes, and the "simplified" file     *)
(* form (members kept as opaque byte strings) must reproduce the envelope. *)
(***************************************************************************)
EXTENDS Registry, Sequences
\* e: what the API returned (got*) and what the independent reader found (want*); integers as 16-bit limbs
ApiJudge(e) ==
  IF e.gotSeq # e.wantSeq THEN "SequenceNumberIsManifestKey2"
  ELSE IF e.gotVer # e.wantVer THEN "ManifestVersionIsManifestKey1"
  ELSE IF e.gotAlg \notin Names("hashalg") \/ CodeOf("hashalg", e.gotAlg) # e.wantAlgCode THEN "DigestAlgorithmIsTheRegisteredName"
  ELSE IF e.gotDigest # e.wantDigest THEN "DigestBytesAreTheWrapperDigest"
  ELSE IF e.gotHasCid # e.wantHasCid THEN "ComponentIdPresenceAgrees"
  ELSE IF e.gotHasVersion # e.wantHasVersion \/ e.gotVersion # e.wantVersion THEN "CurrentVersionAgrees"
  ELSE "ok"
\* simplified load + simplified dump
SimplifiedJudge(e) == IF ~e.ok THEN "SimplifiedRoundTripSucceeds" ELSE IF e.out # e.inp THEN "SimplifiedFormReproducesTheEnvelope" ELSE "ok"
=============================================================================
