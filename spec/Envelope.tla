------------------------------ MODULE Envelope ------------------------------
(***************************************************************************)
(* Abstract SUIT envelopes and the judges of the commands that produce or  *)
(* transform them (create, sign, cache/extract, sever).                    *)
(*                                                                         *)
(* An abstract envelope is what harness/project.py extracts from the bytes *)
(* with independent primitives; byte strings are interned (equal bytes <=> *)
(* equal id) and a digest found in an artifact is the id of its preimage   *)
(* under the algorithm recorded next to it (-1: hash of nothing we know):  *)
(*   alg     COSE id of the wrapper digest algorithm                       *)
(*   dg      preimage of the wrapper digest                                *)
(*   mfw     id of the bstr-wrapped manifest exactly as it sits in the     *)
(*           envelope                                                      *)
(*   mem     manifest view of severable members:                           *)
(*           <<key, "dig", alg, preimage, len>> or <<key, "emb", 0, id, 0>> *)
(*   sev     envelope-level severed members present: <<key, id of the      *)
(*           wrapped bytes as they appear>>                                *)
(*   dgraw   id of the digest item of the wrapper                          *)
(*   blocks  authentication blocks (terms, see SignJudge)                  *)
(*   pay     integrated members <<name id, content id>> in order           *)
(*   others  <<key id, value id>> of every member except the wrapper       *)
(***************************************************************************)
EXTENDS Integers, Sequences, FiniteSets, TLC

HashAlgs == {-16, -18, -43, -44, -45}         \* SHA-256, SHAKE128, SHA-384, SHA-512, SHAKE256
PropertySeverable == {15, 16, 18, 20, 23}     \* dependency-resolution, payload-fetch, candidate-verification, install, text

Range(s) == {s[i] : i \in 1..Len(s)}

--------------------------------------------------------------------------
(* C01 - invariants of every envelope written by create (every level)     *)

DigestBindsManifest(e) == e.alg \in HashAlgs /\ e.dg = e.mfw
SeveredBound(e) ==
  \A i \in 1..Len(e.mem) : \A j \in 1..Len(e.sev) :
     (e.mem[i][1] \in PropertySeverable /\ e.mem[i][2] = "dig" /\ e.sev[j][1] = e.mem[i][1])
        => (e.mem[i][3] \in HashAlgs /\ e.mem[i][4] = e.sev[j][2])

CreatedJudge(e) ==
  IF ~DigestBindsManifest(e) THEN "DigestBindsManifest"
  ELSE IF ~SeveredBound(e) THEN "SeveredMemberDigestBindsWrappedMember"
  ELSE "ok"

--------------------------------------------------------------------------
(* C05 - references to external artifacts.  r = [form, pre, want, size, wantsize, emb, wantemb]:            *)
(*   pre      preimage of the digest found in the created envelope (under the algorithm the description      *)
(*            names - the lookup is done under that algorithm)                                                *)
(*   want     id of the bytes the description pointed to: the file content (file), or the bstr-wrapped        *)
(*            manifest of the dependency created on its own (envelope)                                        *)
(*   direct   for file_direct / raw: the digest bytes found must BE the given bytes: ids compared             *)

RefJudge(r) ==
  IF r.alg # r.wantalg THEN "DigestUnderTheNamedAlgorithm"
  ELSE IF r.form \in {"file", "envelope"} /\ r.pre # r.want THEN "DigestIsHashOfExactlyTheNamedBytes"
  ELSE IF r.form \in {"file_direct", "raw"} /\ r.got # r.want THEN "DirectDigestCopiedVerbatim"
  ELSE IF r.size # r.wantsize THEN "SizeIsExactlyTheLength"
  ELSE "ok"

\* integrated payload / dependency: content embedded is exactly the file / exactly the standalone child
EmbedJudge(x) ==
  IF x.got # x.want THEN (IF x.kind = "dep" THEN "DependencyEmbeddedIdenticalToStandalone" ELSE "PayloadIsExactlyTheFile")
  ELSE "ok"

\* the parent's digest for a dependency is over the same bytes the dependency's own wrapper digests
ChildBindJudge(parentPre, child) ==
  IF parentPre # child.mfw THEN "ParentDigestIsHashOfChildWrappedManifest"
  ELSE IF child.dg # child.mfw THEN "ChildWrapperDigestsSameBytes"
  ELSE "ok"

--------------------------------------------------------------------------
(* C04 / C09 - signing.  Block term: [signer, alg, kid, kidwrapped, over, shape, width, raw]               *)
(*   signer  name of the registry key whose PUBLIC half verifies the signature over the Sig_structure       *)
(*           rebuilt from the block's own protected bytes and the envelope's digest item ("nobody" if none; *)
(*           ECDSA signatures of another width than 2*ceil(bits/8) never verify)                            *)
(*   over    id of the digest item the verified Sig_structure covers                                        *)

CoseAlg(a) == CASE a = "es-256" -> -7 [] a = "es-384" -> -35 [] a = "es-521" -> -36 [] a = "eddsa" -> -8
                [] a = "hash-eddsa" -> -65537
SigWidth(a) == CASE a = "es-256" -> 64 [] a = "es-384" -> 96 [] a = "es-521" -> 132 [] OTHER -> 64

KeyMatches(ktype, a) ==
  \/ (ktype = "p256" /\ a = "es-256")
  \/ (ktype = "p384" /\ a = "es-384")
  \/ (ktype = "p521" /\ a = "es-521")
  \/ (ktype \in {"ed25519", "ed448"} /\ a \in {"eddsa", "hash-eddsa"})

Signed(e) == Len(e.blocks) > 0

GoodBlock(b, e, key, a, kid) ==
  /\ b.signer = key /\ b.alg = CoseAlg(a) /\ b.kid = kid /\ b.kidwrapped /\ b.over = e.dgraw /\ b.shape

BlockClause(b, e, key, a, kid) ==
  IF b.signer # key THEN "SignatureVerifiesUnderMatchingKey"
  ELSE IF b.over # e.dgraw THEN "SignatureCoversEnvelopeDigest"
  ELSE IF b.alg # CoseAlg(a) THEN "ProtectedHeaderNamesAlgorithm"
  ELSE IF b.kid # kid \/ ~b.kidwrapped THEN "ProtectedHeaderCarriesWrappedKeyId"
  ELSE IF ~b.shape THEN "BlockShape"
  ELSE IF a \in {"es-256", "es-384", "es-521"} /\ b.width # SigWidth(a) THEN "EcdsaFixedWidth"
  ELSE "ok"

Raws(bs) == [i \in 1..Len(bs) |-> bs[i].raw]

\* sign single-level: inp, action, key (name), ktype, a (algorithm name), kid (hex string), written, out
SignJudge(inp, action, key, ktype, a, kid, written, out) ==
  IF Signed(inp) /\ action = "error" THEN (IF written THEN "ErrorRefusesAndWritesNothing" ELSE "ok")
  ELSE IF Signed(inp) /\ action = "skip"
       THEN (IF ~written THEN "SkipWritesOutput" ELSE IF out.all # inp.all THEN "SkipReturnsEnvelopeUnchanged" ELSE "ok")
  ELSE IF ~KeyMatches(ktype, a) THEN (IF written THEN "KeyMismatchRefused" ELSE "ok")
  ELSE IF ~written THEN "SignWritesOutput"
  ELSE IF out.others # inp.others THEN "EverythingElseUnchanged"
  ELSE IF out.mfw # inp.mfw THEN "ManifestUnchanged"
  ELSE IF out.dgraw # inp.dgraw THEN "DigestUnchanged"
  ELSE IF Signed(inp) /\ action = "remove-old"
       THEN (IF Len(out.blocks) # Len(inp.blocks) THEN "RemoveOldReplacesOneBlock"
             ELSE IF Len(inp.blocks) = 1 /\ Len(out.blocks) # 1 THEN "RemoveOldLeavesOnlyNewBlock"
             ELSE BlockClause(out.blocks[Len(out.blocks)], out, key, a, kid))
  ELSE IF Len(out.blocks) # Len(inp.blocks) + 1 THEN "ExactlyOneBlockAppended"
  ELSE IF Raws(SubSeq(out.blocks, 1, Len(inp.blocks))) # Raws(inp.blocks) THEN "ExistingBlocksUnchanged"
  ELSE BlockClause(out.blocks[Len(out.blocks)], out, key, a, kid)
=============================================================================
