SPECIFICATION Spec
CONSTANTS
  MEMBERS = {15}
  ORDER <- OrderShipped
  REFRESH = "dig"
  WITHCHILD = TRUE
  EMIT = TRUE
INVARIANT Emit
CHECK_DEADLOCK FALSE
