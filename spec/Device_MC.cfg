SPECIFICATION Spec
CONSTANTS
  MAXLEN = 3
  EMIT = FALSE
  SIM = FALSE
INVARIANT ContentComesFromTheEnvelope
INVARIANT TryEachClosed
INVARIANT AcceptedMatchMeansNamedContent
INVARIANT AlternativesLeaveOnlyCommonKnowledge
INVARIANT NothingReadBeforeSet
INVARIANT NewSequenceForgets
PROPERTY SetNeverOverwrites
PROPERTY EmptySelectionChangesNothing
VIEW View
CHECK_DEADLOCK FALSE
