SPECIFICATION Spec
CONSTANTS
  KEYS = {"k1", "k2"}
  IVS = {1, 2, 3}
  PTS = {"fw1", "fw2"}
  GEN = "fresh"
  LITERAL = "matches"
  MAXOPS = 4
INVARIANT DecryptsToFirmware
INVARIANT IvsPairwiseDistinctPerKey
CHECK_DEADLOCK FALSE
