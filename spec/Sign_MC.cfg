SPECIFICATION Spec
CONSTANTS
  MAXOPS = 3
  EMIT = FALSE
INVARIANT JudgeAcceptsImpl
INVARIANT SigsAlwaysOverDigest
INVARIANT RefusalWritesNothing
INVARIANT AtMostOneBlockFromThisTool
VIEW View
CHECK_DEADLOCK FALSE
