SPECIFICATION Spec
CONSTANTS
  MEMBERS = {15, 18, 23}
  ORDER <- OrderShipped
  REFRESH = "dig"
  WITHCHILD = FALSE
  EMIT = FALSE
INVARIANT I1_DigestBindsManifest
INVARIANT I2_SeveredBound
INVARIANT I3_SuppliedNeverSurvives
CHECK_DEADLOCK FALSE
