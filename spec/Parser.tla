-------------------------------- MODULE Parser --------------------------------
(***************************************************************************)
(* C17: parsing untrusted bytes fails cleanly.                             *)
(* The specification contributes (a) the systematic, schema-aware MUTATION *)
(* SPACE over the item tree of a base envelope - a mutation machine whose  *)
(* behaviours TLC enumerates - and (b) the only judgement the property     *)
(* makes: the outcome CLASS and the resource budget.  It deliberately does *)
(* NOT predict accept vs reject (a merely stricter or more lenient parser  *)
(* must not raise an alarm).                                               *)
(***************************************************************************)
EXTENDS Integers, Sequences, FiniteSets, TLC

\* CBOR kinds a node can be replaced by
Kinds == {"uint0", "nint", "bstr0", "bstr1", "tstr1", "arr0", "arr1", "map0", "map1", "null", "true", "float", "wrongtag",
          "tag107int", "hff", "u64max", "wrapped", "bare", "dup", "drop",
          \* maps WITHOUT the key 0 (integer, negative, text key), an array of maps, simple values and undefined
          "mapk1", "mapkneg", "mapktext", "arrmap", "undefined", "simple32", "false"}

CleanOutcomes == {"model", "ValueError", "SUITError"}

\* budgets for inputs of at most 64 KiB (two orders of magnitude above what the shipped parser needs)
CpuBudgetMs == 5000
RssBudgetKb == 262144

ParseJudge(e) ==
  IF e.outcome = "timeout" THEN "ParsingTerminates"
  ELSE IF e.outcome \notin CleanOutcomes THEN "OnlyInputErrorTypesEscape"
  ELSE IF e.cpu_ms > CpuBudgetMs THEN "TimeProportionalToInput"
  ELSE IF e.rss_kb > RssBudgetKb THEN "MemoryProportionalToInput"
  ELSE "ok"
=============================================================================
