------------------------------ MODULE Device_MC ------------------------------
(***************************************************************************)
(* Use A / B for G07: every program of at most MAXLEN macros over a small  *)
(* alphabet of commands (two components, one integrated payload, two       *)
(* contents) is run through the Device judges; TLC checks the design       *)
(* properties of the processor model in every reachable state and prints   *)
(* every program with the verdict and the final state it predicts.  The    *)
(* harness writes each program as a real description, lets the real tool   *)
(* create the envelope, reads the envelope back with its own reader and    *)
(* Device_Trace must reach the same verdict and the same final state:      *)
(* what the tool builds MEANS, to a device, what the description said.     *)
(***************************************************************************)
EXTENDS Device, SequencesExt, Json
CONSTANTS MAXLEN, EMIT, SIM

Hdr == [ncomp |-> 2, deps |-> <<>>, integ |-> <<<<0, 0>>>>, lens |-> <<<<0, 8>>, <<1, 9>>>>, mf |-> <<>>]
E(code, idx, ps, uri, dg, size, src, cval) ==
  [ev |-> "Cmd", code |-> code, idx |-> idx, ps |-> ps, uri |-> uri, dg |-> dg, size |-> size, src |-> src, cval |-> cval]
Cmd0(code) == E(code, <<>>, <<>>, -1, -1, -1, -1, -1)
Alt == [ev |-> "Alt"]
EndTry == [ev |-> "EndTry"]
Macros == <<
  <<E(12, <<0>>, <<>>, -1, -1, -1, -1, -1)>>,                  \*  1 set-component-index 0
  <<E(12, <<1>>, <<>>, -1, -1, -1, -1, -1)>>,                  \*  2 set-component-index 1
  <<E(12, <<-1>>, <<>>, -1, -1, -1, -1, -1)>>,                 \*  3 set-component-index true
  <<E(20, <<>>, <<3, 14, 21>>, 0, 0, 8, -1, -1)>>,             \*  4 override {uri #p, digest of content 0, size 8}
  <<E(20, <<>>, <<3>>, -1, 1, -1, -1, -1)>>,                   \*  5 override {digest of content 1}
  <<E(19, <<>>, <<3, 14>>, -1, 1, 9, -1, -1)>>,                \*  6 set-parameters {digest of content 1, size 9}
  <<Cmd0(21)>>,                                                \*  7 fetch
  <<Cmd0(3)>>,                                                 \*  8 image-match
  <<E(20, <<>>, <<22>>, -1, -1, -1, 0, -1)>>,                  \*  9 override {source-component 0}
  <<Cmd0(22)>>,                                                \* 10 copy
  <<E(20, <<>>, <<18>>, -1, -1, -1, -1, 1)>>,                  \* 11 override {content 1}
  <<Cmd0(18)>>,                                                \* 12 write
  <<Cmd0(15), Alt, E(20, <<>>, <<3>>, -1, 0, -1, -1, -1), Alt, E(20, <<>>, <<3>>, -1, 1, -1, -1, -1), EndTry>>,  \* 13
  <<Cmd0(15), Alt, E(20, <<>>, <<21>>, 0, -1, -1, -1, -1), Alt, EndTry>>,                                       \* 14
  <<Cmd0(33)>>,                                                \* 15 unlink
  <<Cmd0(31)>>,                                                \* 16 swap
  <<Cmd0(15), Alt, Cmd0(3), Alt, Cmd0(21), EndTry>>,           \* 17 try-each [[image-match], [fetch]]
  <<Cmd0(1)>>,                                                 \* 18 condition vendor-identifier (never set: refused)
  <<Cmd0(32), E(20, <<>>, <<3>>, -1, 0, -1, -1, -1), Cmd0(3)>>,   \* 19 run-sequence [override {digest of content 0}, image-match]
  <<[ev |-> "Seq"]>>,                                          \* 20 the next command sequence begins (validate -> install)
  <<E(12, <<0, 1>>, <<>>, -1, -1, -1, -1, -1)>>,               \* 21 set-component-index [0, 1]
  <<E(12, <<>>, <<>>, -1, -1, -1, -1, -1)>>                    \* 22 set-component-index false (nothing selected)
>>

VARIABLES prog, p, verdict, at, n
vars == <<prog, p, verdict, at, n>>

\* run the events of one macro: [p, verdict, k = number of events consumed]
RECURSIVE Run(_, _, _)
Run(q, evs, k) ==
  IF k > Len(evs) THEN [p |-> q, verdict |-> "ok", k |-> k - 1]
  ELSE LET e == evs[k]
           j == IF e.ev = "Cmd" THEN CmdJudge(Hdr, q, e) ELSE IF e.ev = "Seq" THEN "ok" ELSE AltJudge(q) IN
       IF j # "ok" THEN [p |-> q, verdict |-> j, k |-> k]
       ELSE Run(IF e.ev = "Cmd" THEN CmdEffect(Hdr, q, e) ELSE IF e.ev = "Seq" THEN InitDev(Hdr)
                ELSE IF e.ev = "Alt" THEN AltEffect(Hdr, q) ELSE EndTryEffect(Hdr, q),
                evs, k + 1)

Init == prog = <<>> /\ p = InitDev(Hdr) /\ verdict = "ok" /\ at = 0 /\ n = 0
Add(m) == LET r == Run(p, Macros[m], 1) IN
          /\ prog' = Append(prog, m)
          /\ p' = r.p
          /\ verdict' = r.verdict
          /\ at' = IF r.verdict = "ok" THEN 0 ELSE n + r.k
          /\ n' = n + r.k
\* the program is split over two command sequences at most (validate, then install)
Allowed == {m \in 1..Len(Macros) : m = 20 => 20 \notin Rng(prog)}
Next == /\ verdict = "ok" /\ Len(prog) < MAXLEN
        /\ IF SIM THEN Add(RandomElement(Allowed)) ELSE \E m \in Allowed : Add(m)
Spec == Init /\ [][Next]_vars

\* ---- design properties of the processor model ---------------------------------------------------------------
Known == {-1} \cup {x[2] : x \in Rng(Hdr.integ)} \cup {1}
ContentComesFromTheEnvelope == \A i \in All(Hdr) : p.c.content[i] \in Known
TryEachClosed == verdict = "ok" => Len(p.stack) = 0
\* set-parameters never overwrites a parameter that is set
SetNeverOverwrites == [][(prog' # prog /\ Last(prog') = 6) =>
                          \A i \in All(Hdr) : 3 \in p.c.set[i] => p'.c.dg[i] = p.c.dg[i]]_vars
\* an accepted top-level image-match means the component holds exactly the content the digest names
AcceptedMatchMeansNamedContent ==
  (prog # <<>> /\ Last(prog) = 8 /\ verdict = "ok") =>
     \A i \in p.c.sel : (p.c.content[i] >= 0 /\ p.c.dg[i] # -1) => p.c.content[i] = p.c.dg[i]
\* after alternatives that disagree, the digest is not known, yet known to be set
AlternativesLeaveOnlyCommonKnowledge ==
  (prog # <<>> /\ Last(prog) = 13 /\ verdict = "ok" /\ p.c.selok) => \A i \in p.c.sel : 3 \in p.c.set[i] /\ p.c.dg[i] = -1
\* a condition is never accepted on a component that lacks the parameter it reads
\* (with NOTHING selected the condition tests no component and passes vacuously - found by TLC when macro 22 was added)
NothingReadBeforeSet == (prog # <<>> /\ Last(prog) = 18) => verdict = "ParameterSetBeforeUse" \/ verdict = "IndexDeclared" \/ p.c.sel = {}

\* a new command sequence starts from the initial processor state: nothing set, nothing held
NewSequenceForgets == (prog # <<>> /\ Last(prog) = 20) => p = InitDev(Hdr)
\* with nothing selected, set / override change nothing
EmptySelectionChangesNothing == [][(prog' # prog /\ Len(prog) > 0 /\ Last(prog) = 22 /\ Last(prog') \in {4, 5, 6, 9, 11} /\ verdict' = "ok")
                                    => p'.c.set = p.c.set]_vars

Emit == EMIT => PrintT("SCN " \o ToJson([prog |-> prog, verdict |-> verdict, at |-> at,
                                         content |-> [i \in 1..Hdr.ncomp |-> p.c.content[i - 1]],
                                         set |-> [i \in 1..Hdr.ncomp |-> SetToSeq(p.c.set[i - 1])]]))
View == <<prog>>
=============================================================================
