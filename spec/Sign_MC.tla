------------------------------- MODULE Sign_MC -------------------------------
(***************************************************************************)
(* Use A for C04 / C09: implementation-shaped model of signing             *)
(*   ncs/sign_script.py  Signer.sign_envelope  (init KMS; already-signed   *)
(*                       action; KMS sign with key-type check; append)     *)
(*   cmd_sign.py         RecursiveSigner (post-order over the configured   *)
(*                       dependencies, re-embedding, omit-signing)         *)
(* checked against the permissive judges of Envelope.tla / Extract.tla     *)
(* that are applied to traces of the real code:                            *)
(*  - every sequence of up to MAXOPS single-level sign operations over     *)
(*    3 actions x 5 algorithms x 4 keys x 2 key ids is accepted by         *)
(*    SignJudge, every block in the store verifies over the digest, and a  *)
(*    refusal never writes;                                                *)
(*  - every configuration tree over a 3-node hierarchy and a reduced       *)
(*    per-node alphabet is accepted by RecursiveJudge.                     *)
(* Deliberate oddities of the implementation that are modelled as they     *)
(* are: remove-old removes only the FIRST existing block; the already-     *)
(* signed action is not inherited by dependencies (default error).         *)
(***************************************************************************)
EXTENDS SignImpl, Json

CONSTANTS MAXOPS, EMIT

--------------------------------------------------------------------------
(* Part 1: sequences of single-level sign operations on one envelope       *)

VARIABLES env, nops, verdict, refusedWrote, hist
vars == <<env, nops, verdict, refusedWrote, hist>>

E0 == Mk(<<1>>, <<2>>, <<<<"k10", <<1>>>>, <<"#p", <<7>>>>>>, <<<<"#p", <<7>>>>>>, <<>>)

Init == env = E0 /\ nops = 0 /\ verdict = "ok" /\ refusedWrote = FALSE /\ hist = <<>>

SignOp(action, k, a, kid) ==
  /\ nops < MAXOPS
  /\ LET r == SignImpl(env, action, k, a, kid, nops) IN
     /\ verdict' = SignJudge(env, action, k, KType(k), a, kid, r.written, r.out)
     /\ env' = IF r.written THEN r.out ELSE env
     /\ refusedWrote' = (refusedWrote \/ (~r.written /\ r.out # env))
     /\ hist' = Append(hist, [action |-> action, key |-> k, alg |-> a, kid |-> kid, written |-> r.written])
  /\ nops' = nops + 1

Next == \E action \in Actions, k \in Keys, a \in Algs, kid \in Kids : SignOp(action, k, a, kid)
Spec == Init /\ [][Next]_vars

JudgeAcceptsImpl == verdict = "ok"
SigsAlwaysOverDigest == \A i \in 1..Len(env.blocks) : env.blocks[i].over = env.dgraw /\ env.blocks[i].signer \in Keys
RefusalWritesNothing == ~refusedWrote
AtMostOneBlockFromThisTool == Len(env.blocks) <= nops
Emit == (EMIT /\ nops = MAXOPS) => PrintT("SCN " \o ToJson(hist))
View == <<env, nops, verdict, refusedWrote>>
=============================================================================
