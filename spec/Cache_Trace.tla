----------------------------- MODULE Cache_Trace -----------------------------
(***************************************************************************)
(* Use C for C10: events recorded from the real CachePartition object and  *)
(* from the cache_create CLI, judged by the permissive layer of Cache.tla. *)
(* Events (ndjson, see harness/c10_cache.py):                              *)
(*   Begin {eb}                                                            *)
(*   Add   {u, ul, d, dl, res, opened, ents, end}                               *)
(*   Merge {inp : [[u, d] ...], res, opened, ents, end}                    *)
(*   Close {tail}                                                          *)
(*   File  {ok, flen, ents}                                                *)
(*   Cli   {eb, want, dup, refusal, written, ok, flen, ents}               *)
(***************************************************************************)
EXTENDS Cache, Json, IOUtils

Log == ndJsonDeserialize(IOEnv.TRACE_FILE)

VARIABLES l, st, bad, dead

PairSet(ps) == {<<ps[i][1], ps[i][2]>> : i \in 1..Len(ps)}

Judge(s, e) ==
  CASE e.ev = "Add"   -> AddJudge(s, e.u, e.ul, e.d, e.dl, e.res, e.opened, e.ents, e.end)
    [] e.ev = "Merge" -> MergeJudge(s, PairSet(e.inp), e.res, e.opened, e.ents, e.end)
    [] e.ev = "Close" -> CloseJudge(s, e.tail)
    [] e.ev = "File"  -> FileJudge(s, e.ok, e.flen, e.ents)
    [] e.ev = "Cli"   -> CliJudge(e.eb, PairSet(e.want), e.dup, e.refusal, e.written, e.ok, e.flen, e.ents)
    [] OTHER          -> "UnknownEvent"

Effect(s, e) ==
  CASE e.ev = "Add"   -> IF e.res = "ok" THEN AppendEffect(s, {<<e.u, e.d>>}, e.end) ELSE s
    [] e.ev = "Merge" -> IF e.res = "ok" /\ Len(e.inp) > 0 THEN AppendEffect(s, PairSet(e.inp), e.end) ELSE s
    [] e.ev = "Close" -> CloseEffect(s)
    [] OTHER          -> s

Start(e) == InitCache(e.eb)

TB == INSTANCE TraceBatch
Spec == TB!Spec
Report == TB!Report
AllConsumed == TB!AllConsumed
=============================================================================
