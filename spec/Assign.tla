------------------------------- MODULE Assign -------------------------------
(***************************************************************************)
(* C13: vendor/class identity and role assignment.                         *)
(*                                                                         *)
(* Identifiers are TERMS: the projection computes UUIDv5 itself (SHA-1 by  *)
(* hashlib) for the names of the scenario and looks every 16-byte string   *)
(* found in an artifact up: "C" (the class id of <<vendor, class>>),       *)
(* "V" (the vendor id of vendor), or "?" (anything else).                  *)
(*                                                                         *)
(* Role assignment: defaults first, then the build configuration           *)
(* (SB_CONFIG_SUIT_MPI_<ROLE>_VENDOR_NAME / _CLASS_NAME) in file order;    *)
(* one pair given to two roles by the configuration is rejected; a         *)
(* configured pair maps to exactly its configured role (also when the      *)
(* pair is another role's default).                                        *)
(***************************************************************************)
EXTENDS Integers, Sequences, FiniteSets, TLC

\* the triangle: manifest (create), MPI record (mpi generate), storage role lookup (image boot)
TriangleJudge(e) ==
  IF e.mfCid # "C" THEN "ManifestClassIdIsUuid5OfNames"
  ELSE IF e.mfVid # "V" THEN "ManifestVendorIdIsUuid5OfVendor"
  ELSE IF e.mfComp # "C" THEN "ComponentIdCarriesClassId"
  ELSE IF e.mpiCid # "C" THEN "MpiClassIdIsUuid5OfNames"
  ELSE IF e.mpiVid # "V" THEN "MpiVendorIdIsUuid5OfVendor"
  ELSE IF e.landed # e.role THEN "EnvelopeMappedToConfiguredRole"
  ELSE IF e.slotCid # "C" THEN "BootSlotClassEqualsMpiClass"
  ELSE "ok"

\* cfg : sequence of <<role, pair>> in configuration-file order; defaults : sequence of <<role, pair>>
ConfigRejected(cfg) == \E i, j \in 1..Len(cfg) : i # j /\ cfg[i][2] = cfg[j][2]

\* the role an envelope of class `pair` maps to ("NONE" if the class is not assigned)
RoleOf(defaults, cfg, pair) ==
  IF \E i \in 1..Len(cfg) : cfg[i][2] = pair
  THEN cfg[CHOOSE i \in 1..Len(cfg) : cfg[i][2] = pair][1]
  ELSE IF \E i \in 1..Len(defaults) : defaults[i][2] = pair
  THEN defaults[CHOOSE i \in 1..Len(defaults) : defaults[i][2] = pair][1]
  ELSE "NONE"

\* e = [cfg, pair, landed] : where an envelope of class `pair` landed ("NONE": rejected as unknown, "REJECT": run refused)
AssignJudge(defaults, e) ==
  IF ConfigRejected(e.cfg) THEN (IF e.landed = "REJECT" THEN "ok" ELSE "OnePairForTwoRolesRejected")
  ELSE IF e.landed # RoleOf(defaults, e.cfg, e.pair) THEN "AssignmentAppliesToExactlyTheNamedPair"
  ELSE "ok"
=============================================================================
