------------------------------- MODULE Keys_MC -------------------------------
(***************************************************************************)
(* Use A for C15: the scenario space type x encoding x private format x    *)
(* public format (keys) and type x leading-zero shape x layout options     *)
(* (convert) enumerated by TLC; checks of the specification itself: the    *)
(* expected array has the fixed width for every leading-zero shape, and    *)
(* the support table is total.  With EMIT the scenarios are printed for    *)
(* replay into the real commands.                                          *)
(***************************************************************************)
EXTENDS Keys, Json
CONSTANT EMIT
VARIABLES s
KeyScn == [kind : {"keys"}, type : Types, enc : Encodings, privfmt : PrivFormats, pubfmt : PubFormats]
\* cols: one byte per row, rows that end exactly at / one byte before / one byte after the end of a 32-, 57-, 64-, 96- or 132-byte
\* key, more columns than bytes; decor: the remaining layout options (array type, length type with a cast, header and footer file)
ConvScn == [kind : {"convert"}, type : Types, zx : 0..2, zy : 0..2, cols : {1, 7, 8, 13, 31, 32, 33, 200}, indent : {0, 4}, tab : BOOLEAN,
            nolength : BOOLEAN, noconst : BOOLEAN, decor : BOOLEAN]
\* coordinates whose FIRST or LAST byte has a value that byte-oriented (de)serialisation code treats specially: 0x00, the
\* X9.62 point-format markers 0x02 0x03 0x04 0x06 0x07, DER SEQUENCE 0x30, sign bit 0x80, 0xFF, 0x20 / 0x0A (whitespace)
EdgeVals == {0, 1, 2, 3, 4, 6, 7, 10, 32, 48, 128, 255}
EdgeScn == [kind : {"convertedge"}, type : {"secp256r1", "secp384r1"}, pos : {"x0", "y0", "xn", "yn"}, val : EdgeVals]
Init == s \in EdgeScn \cup KeyScn \cup {c \in ConvScn : (c.type \notin Nist => (c.zx = 0 /\ c.zy = 0)) /\ (c.tab => c.indent = 4)
                                           /\ (c.cols = 13 => ~c.noconst) /\ (c.cols \in {7, 31, 32, 33, 200} => (c.indent = 4 /\ ~c.tab /\ ~c.noconst))
                                           /\ (c.decor => (c.indent = 4 /\ ~c.tab))}
Next == UNCHANGED s
Spec == Init /\ [][Next]_s

Coord(w, z) == [i \in 1..(w - z) |-> IF i = 1 THEN 1 ELSE (i * 7) % 256]     \* minimal bytes of a coordinate with z leading zero bytes
EdgePreserved == s.kind = "convertedge" =>
   LET w == Width(s.type)
       c == [i \in 1..w |-> IF (s.pos \in {"x0", "y0"} /\ i = 1) \/ (s.pos \in {"xn", "yn"} /\ i = w) THEN s.val ELSE 9]
       m == IF c[1] = 0 THEN Tail(c) ELSE c                          \* minimal bytes
       e == Expected(s.type, m, m, <<>>) IN
   Len(e) = 2 * w /\ SubSeq(e, 1, w) = c /\ SubSeq(e, w + 1, 2 * w) = c
FixedWidth == s.kind = "convert" /\ s.type \in Nist =>
   LET w == Width(s.type)
       e == Expected(s.type, Coord(w, s.zx), Coord(w, s.zy), <<>>) IN
   /\ Len(e) = 2 * w
   /\ \A i \in 1..s.zx : e[i] = 0
   /\ \A i \in 1..s.zy : e[w + i] = 0
   /\ e[s.zx + 1] = 1 /\ e[w + s.zy + 1] = 1
TableTotal == s.kind = "keys" => Supported(s.type, s.privfmt, s.pubfmt) \in BOOLEAN
Emit == EMIT => PrintT("SCN " \o ToJson(s))
=============================================================================
