------------------------------- MODULE Keys_MC -------------------------------
(***************************************************************************)
(* Use A for C15: the scenario space type x encoding x private format x    *)
(* public format (keys) and type x leading-zero shape x layout options     *)
(* (convert) enumerated by TLC; checks of the specification itself: the    *)
(* expected array has the fixed width for every leading-zero shape, and    *)
(* the support table is total.  With EMIT the scenarios are printed for    *)
(* replay into the real commands.                                          *)
(***************************************************************************)
EXTENDS Keys, Json
CONSTANT EMIT
VARIABLES s
KeyScn == [kind : {"keys"}, type : Types, enc : Encodings, privfmt : PrivFormats, pubfmt : PubFormats]
ConvScn == [kind : {"convert"}, type : Types, zx : 0..2, zy : 0..2, cols : {1, 8, 13}, indent : {0, 4}, tab : BOOLEAN,
            nolength : BOOLEAN, noconst : BOOLEAN]
Init == s \in KeyScn \cup {c \in ConvScn : (c.type \notin Nist => (c.zx = 0 /\ c.zy = 0)) /\ (c.tab => c.indent = 4)
                                           /\ (c.cols = 13 => ~c.noconst)}
Next == UNCHANGED s
Spec == Init /\ [][Next]_s

Coord(w, z) == [i \in 1..(w - z) |-> IF i = 1 THEN 1 ELSE (i * 7) % 256]     \* minimal bytes of a coordinate with z leading zero bytes
FixedWidth == s.kind = "convert" /\ s.type \in Nist =>
   LET w == Width(s.type)
       e == Expected(s.type, Coord(w, s.zx), Coord(w, s.zy), <<>>) IN
   /\ Len(e) = 2 * w
   /\ \A i \in 1..s.zx : e[i] = 0
   /\ \A i \in 1..s.zy : e[w + i] = 0
   /\ e[s.zx + 1] = 1 /\ e[w + s.zy + 1] = 1
TableTotal == s.kind = "keys" => Supported(s.type, s.privfmt, s.pubfmt) \in BOOLEAN
Emit == EMIT => PrintT("SCN " \o ToJson(s))
=============================================================================
