---------------------------- MODULE Storage_Trace ----------------------------
(***************************************************************************)
(* Use C for C07 / C13.  One scenario per (run, domain):                   *)
(*   Begin {b, soc, base, domain, slots : [[role, members, cid, off]...]}  *)
(*          slots = ALL envelopes given to the run (any domain);           *)
(*          off = class-ID offset recorded by the tool in the slot map     *)
(*          (read back from the image; -1 if unreadable / no file)         *)
(*   Missing {}        the domain file does not exist                      *)
(*   Rec ... End {}    records of the domain file                          *)
(***************************************************************************)
EXTENDS Storage, Json, IOUtils

Log == ndJsonDeserialize(IOEnv.TRACE_FILE)

VARIABLES l, st, bad, dead

Slots(e) == [i \in 1..Len(e.slots) |-> [role |-> e.slots[i][1], members |-> e.slots[i][2], cid |-> e.slots[i][3], off |-> e.slots[i][4]]]

Reject(s) == MustReject(Layout(s.soc), s.slots)
Mine(s) == SelectSeq(s.slots, LAMBDA x : Layout(s.soc)[x.role].domain = s.domain)

Judge(s, e) ==
  CASE e.ev = "Missing" -> (IF Reject(s) THEN "ok"
                            ELSE IF Len(Mine(s)) = 0 THEN "ok" ELSE "DomainFileWritten")
    [] e.ev = "Rec"     -> (IF Reject(s) THEN "RejectedInputWritesNoFile"
                            ELSE IF \E i \in 1..Len(Mine(s)) : ~ClassIdAtOffset(Mine(s)[i]) THEN "ClassIdAtRecordedOffset"
                            ELSE RecJudge(s.h, s.regs, e))
    [] e.ev = "End"     -> (IF Reject(s) THEN "RejectedInputWritesNoFile" ELSE EndJudge(s.h, s.regs))
    [] OTHER            -> "UnknownEvent"

Effect(s, e) ==
  CASE e.ev = "Rec" -> [s EXCEPT !.h = RecEffect(s.h, s.regs, e)]
    [] OTHER        -> s

Start(e) ==
  LET sl == Slots(e)
      rej == MustReject(Layout(e.soc), sl)
      regs == IF rej THEN <<>> ELSE DomainRegions(Layout(e.soc), e.base, e.domain, sl)
  IN [soc |-> e.soc, domain |-> e.domain, slots |-> sl, regs |-> regs, h |-> HexInit(Len(regs))]

TB == INSTANCE TraceBatch
Spec == TB!Spec
Report == TB!Report
AllConsumed == TB!AllConsumed
=============================================================================
