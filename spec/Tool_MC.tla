-------------------------------- MODULE Tool_MC --------------------------------
(***************************************************************************)
(* Use A / B for C03 (and the composition of C01, C04, C11, C07): the      *)
(* artifact store under sequences of commands applied to one envelope      *)
(*   Sign(key) | SignRemoveOld(key) | ExtractOne(p) | CacheAll | Sever |   *)
(*   RoundTrip (parse, then create from the parsed description)            *)
(* with each command's effect as the code has it.  Invariants over every   *)
(* reachable store: the wrapper digest binds the manifest, every block is  *)
(* over that digest, the manifest is the one create produced (only create  *)
(* makes manifests), RoundTrip is the identity on manifest, wrapper,       *)
(* severed members and the SET of integrated members - so parse/create     *)
(* commute with sign, sever and extraction.  All command sequences up to   *)
(* MAXLEN are printed for replay on real envelopes.                        *)
(***************************************************************************)
EXTENDS Integers, Sequences, FiniteSets, TLC, Json
CONSTANTS MAXLEN, EMIT
Keys == {"kp256", "ked"}
Pays == {"#p0", "#dep"}
Sevs == {20, 23}
H(x) == <<"H", x>>
VARIABLES e, hist
vars == <<e, hist>>
E0 == [mf |-> "m0", dg |-> H("m0"), sev |-> Sevs, pay |-> Pays, blocks |-> <<>>]
Init == e = E0 /\ hist = <<>>
Block(k) == [signer |-> k, over |-> e.dg]
Step(name, new) == Len(hist) < MAXLEN /\ e' = new /\ hist' = Append(hist, name)
Sign(k) == e.blocks = <<>> /\ Step(<<"sign", k>>, [e EXCEPT !.blocks = Append(@, Block(k))])
SignRemoveOld(k) == e.blocks # <<>> /\ Step(<<"sign-remove-old", k>>, [e EXCEPT !.blocks = Append(Tail(@), Block(k))])
ExtractOne(p) == p \in e.pay /\ Step(<<"extract", p>>, [e EXCEPT !.pay = @ \ {p}])
CacheAll == e.pay # {} /\ Step(<<"cache">>, [e EXCEPT !.pay = {}])
Sever == (e.sev # {} \/ e.pay # {}) /\ Step(<<"sever">>, [e EXCEPT !.sev = {}, !.pay = {}])
\* parse then create: the description names exactly the content; create recomputes the digests from that content
Parse(x) == [mf |-> x.mf, dg |-> x.dg, sev |-> x.sev, pay |-> x.pay, blocks |-> x.blocks]
Create(d) == [mf |-> d.mf, dg |-> H(d.mf), sev |-> d.sev, pay |-> d.pay, blocks |-> d.blocks]
RoundTrip == Step(<<"roundtrip">>, Create(Parse(e)))
Next == (\E k \in Keys : Sign(k) \/ SignRemoveOld(k)) \/ (\E p \in Pays : ExtractOne(p)) \/ CacheAll \/ Sever \/ RoundTrip
Spec == Init /\ [][Next]_vars
DigestBindsManifest == e.dg = H(e.mf)
BlocksOverDigest == \A i \in 1..Len(e.blocks) : e.blocks[i].over = e.dg
ManifestProvenance == e.mf = E0.mf
RoundTripIsIdentity == Create(Parse(e)) = e
NothingInvented == e.sev \subseteq Sevs /\ e.pay \subseteq Pays
Emit == (EMIT /\ Len(hist) = MAXLEN) => PrintT("SCN " \o ToJson(hist))
=============================================================================
