----------------------------- MODULE Assign_Trace -----------------------------
(***************************************************************************)
(* Use C for C13:                                                          *)
(*   Begin    {defaults : [[role, pair id]...]}                            *)
(*   Triangle {mfCid, mfVid, mfComp, mpiCid, mpiVid, slotCid, landed, role}*)
(*   Assign   {cfg : [[role, pair id]...], pair, landed}                   *)
(***************************************************************************)
EXTENDS Assign, Json, IOUtils
Log == ndJsonDeserialize(IOEnv.TRACE_FILE)
VARIABLES l, st, bad, dead
Judge(s, e) == CASE e.ev = "Triangle" -> TriangleJudge(e)
                 [] e.ev = "Assign"   -> AssignJudge(s.defaults, e)
                 [] OTHER             -> "UnknownEvent"
Effect(s, e) == s
Start(e) == [defaults |-> e.defaults]
TB == INSTANCE TraceBatch
Spec == TB!Spec
Report == TB!Report
AllConsumed == TB!AllConsumed
=============================================================================
