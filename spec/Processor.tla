------------------------------ MODULE Processor ------------------------------
(***************************************************************************)
(* C19: a device-side view of a manifest - one step per SUIT command in    *)
(* the standard order of the sequences - abstract enough to state the      *)
(* wiring properties of the NCS templates:                                 *)
(*   IndexDeclared            every component index used by a command      *)
(*                            refers to a declared component               *)
(*   DependenciesAreManifestComponents  every declared dependency is a     *)
(*                            candidate- or installed-manifest component   *)
(*   FetchResolves            every fetched '#name' URI has an integrated  *)
(*                            dependency of that name                      *)
(*   ParentDigestEqualsChildManifestDigest  the digest the parent verifies *)
(*                            (image-match) is the hash of that            *)
(*                            dependency's wrapped manifest                *)
(*   InstalledClassIdsAreConfiguredNames                                   *)
(*                                                                         *)
(* Header h: [comps : Seq(<<kind, classTerm>>), deps : Seq(index),         *)
(*            integ : Seq(<<name id, mfw id, classTerm>>),                 *)
(*            allowed : Seq(classTerm)]                                    *)
(*   kind in {"CAND_MFST", "INSTLD_MFST", "other"}; classTerm = "n<k>" for *)
(*   the UUIDv5 of the k-th configured (vendor, class) pair, "?" otherwise *)
(* Step c: [seq, code, idx : Seq(index) | <<-1>> for `true`,               *)
(*          uri (name id, -1 none; ids of '#...' names are below           *)
(*          Remote, other URIs are offset by Remote), dg (preimage id,     *)
(*          -1 none, -2 unknown hash)]                                     *)
(* State: [sel : set of indices, uri, dg : index -> value, got : index ->  *)
(*         mfw id of the dependency fetched in this sequence (-1 none),    *)
(*         cur : current sequence name]                                    *)
(***************************************************************************)
EXTENDS Integers, Sequences, FiniteSets, TLC

SetIndex == 12
Override == 20
SetParams == 19
Fetch == 21
ImageMatch == 3
Remote == 1000000
Local(u) == u >= 0 /\ u < Remote

Range(s) == {s[i] : i \in 1..Len(s)}
NComp(h) == Len(h.comps)
All(h) == 0..(NComp(h) - 1)

HeaderJudge(h) ==
  IF \E d \in Range(h.deps) : d \notin All(h) THEN "IndexDeclared"
  ELSE IF \E d \in Range(h.deps) : h.comps[d + 1][1] \notin {"CAND_MFST", "INSTLD_MFST"} THEN "DependenciesAreManifestComponents"
  ELSE IF \E i \in 1..NComp(h) : h.comps[i][1] = "INSTLD_MFST" /\ h.comps[i][2] \notin Range(h.allowed)
       THEN "InstalledClassIdsAreConfiguredNames"
  ELSE "ok"

InitProc(h) == [sel |-> {0}, uri |-> [i \in All(h) |-> -1], dg |-> [i \in All(h) |-> -1],
                got |-> [i \in All(h) |-> -1], cur |-> ""]

\* new sequence: the selection and what was fetched do not carry over
Enter(h, s, c) == IF c.seq = s.cur THEN s ELSE [s EXCEPT !.cur = c.seq, !.sel = {0}, !.got = [i \in All(h) |-> -1]]

Sel(h, c) == IF c.idx = <<-1>> THEN All(h) ELSE Range(c.idx)

IntegOf(h, name) == {x \in Range(h.integ) : x[1] = name}
\* the integrated dependency that IS installed-manifest component i (same class)
IntegOfClass(h, i) == {x \in Range(h.integ) : h.comps[i + 1][1] = "INSTLD_MFST" /\ x[3] = h.comps[i + 1][2] /\ x[3] # "?"}

StepJudge(h, s0, c) ==
  LET s == Enter(h, s0, c) IN
  IF c.code = SetIndex THEN (IF \E i \in Sel(h, c) : i \notin All(h) THEN "IndexDeclared" ELSE "ok")
  ELSE IF \E i \in s.sel : i \notin All(h) THEN "IndexDeclared"
  ELSE IF c.code = Fetch
       THEN (IF \E i \in s.sel : Local(s.uri[i]) /\ IntegOf(h, s.uri[i]) = {} THEN "FetchResolves" ELSE "ok")
  ELSE IF c.code = ImageMatch
       THEN (IF \E i \in s.sel : s.got[i] >= 0 /\ s.dg[i] # -1 /\ s.dg[i] # s.got[i]
             THEN "ParentDigestEqualsChildManifestDigest"
             ELSE IF \E i \in s.sel : s.got[i] < 0 /\ s.dg[i] # -1 /\ IntegOfClass(h, i) # {}
                                      /\ \A x \in IntegOfClass(h, i) : x[2] # s.dg[i]
             THEN "ParentDigestEqualsChildManifestDigest"
             ELSE "ok")
  ELSE "ok"

StepEffect(h, s0, c) ==
  LET s == Enter(h, s0, c) IN
  IF c.code = SetIndex THEN [s EXCEPT !.sel = Sel(h, c)]
  ELSE IF c.code \in {Override, SetParams}
       THEN [s EXCEPT !.uri = [i \in All(h) |-> IF i \in s.sel /\ c.uri # -1 THEN c.uri ELSE @[i]],
                      !.dg = [i \in All(h) |-> IF i \in s.sel /\ c.dg # -1 THEN c.dg ELSE @[i]]]
  ELSE IF c.code = Fetch
       THEN [s EXCEPT !.got = [i \in All(h) |-> IF i \in s.sel /\ IntegOf(h, s.uri[i]) # {}
                                                THEN (CHOOSE x \in IntegOf(h, s.uri[i]) : TRUE)[2] ELSE @[i]]]
  ELSE s
=============================================================================
