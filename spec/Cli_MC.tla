-------------------------------- MODULE Cli_MC --------------------------------
(***************************************************************************)
(* Use A / B for the CLI growth spec: the failure table is enumerated and  *)
(* printed (every scenario is executed by the harness); the model's own    *)
(* sanity: a deviation is only ever named for a scenario of the table.     *)
(***************************************************************************)
EXTENDS Cli, Json
CONSTANT EMIT
VARIABLES f
Init == f \in Failures
Next == UNCHANGED f
Spec == Init /\ [][Next]_f
DeviationsAreKnown == Deviation(f[1], f[2]) \in {"none", "DevLeavesOutput", "DevAcceptsTheRequest"}
Emit == EMIT => PrintT("SCN " \o ToJson([cmd |-> f[1], cause |-> f[2], dev |-> Deviation(f[1], f[2])]))
=============================================================================
