SPECIFICATION Spec
CONSTANTS
  SOCS = {"nrf54h20", "nrf9280"}
  MAXSET = 4
  EMIT = FALSE
INVARIANT NoFileUnlessAllAccepted
INVARIANT FaultAlwaysRejected
INVARIANT DomainFilesContainOnlyOwnRoles
INVARIANT AllAcceptedAreWritten
INVARIANT SlotsInsideArea
CHECK_DEADLOCK FALSE
