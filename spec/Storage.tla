------------------------------- MODULE Storage -------------------------------
(***************************************************************************)
(* C07: SUIT storage images for the boot path (cmd_image.py:               *)
(* EnvelopeStorage / ImageCreator.create_files_for_boot).                  *)
(* The slot layout of both SoCs and the role/domain tables are pinned      *)
(* here: they are the ABI between the tool and the secure-domain firmware. *)
(***************************************************************************)
EXTENDS Hex

Domains == {"secure", "application", "radio"}

\* role -> [offset, size, domain]
Layout54 == [
  SEC_TOP      |-> [offset |-> 768,   size |-> 1280, domain |-> "secure"],
  SEC_SDFW     |-> [offset |-> 2048,  size |-> 1024, domain |-> "secure"],
  SEC_SYSCTRL  |-> [offset |-> 3072,  size |-> 1024, domain |-> "secure"],
  RAD_RECOVERY |-> [offset |-> 5120,  size |-> 1024, domain |-> "radio"],
  RAD_LOCAL_1  |-> [offset |-> 6144,  size |-> 1024, domain |-> "radio"],
  RAD_LOCAL_2  |-> [offset |-> 7168,  size |-> 1024, domain |-> "radio"],
  APP_ROOT     |-> [offset |-> 9216,  size |-> 2048, domain |-> "application"],
  APP_RECOVERY |-> [offset |-> 11264, size |-> 2048, domain |-> "application"],
  APP_LOCAL_1  |-> [offset |-> 13312, size |-> 1024, domain |-> "application"],
  APP_LOCAL_2  |-> [offset |-> 14336, size |-> 1024, domain |-> "application"],
  APP_LOCAL_3  |-> [offset |-> 15360, size |-> 1024, domain |-> "application"]]

Layout92 == [
  SEC_TOP      |-> [offset |-> 4096,  size |-> 1536, domain |-> "secure"],
  SEC_SDFW     |-> [offset |-> 2048,  size |-> 1024, domain |-> "secure"],
  SEC_SYSCTRL  |-> [offset |-> 3072,  size |-> 1024, domain |-> "secure"],
  RAD_RECOVERY |-> [offset |-> 9216,  size |-> 1024, domain |-> "radio"],
  RAD_LOCAL_1  |-> [offset |-> 10240, size |-> 1024, domain |-> "radio"],
  RAD_LOCAL_2  |-> [offset |-> 11264, size |-> 1024, domain |-> "radio"],
  APP_ROOT     |-> [offset |-> 13312, size |-> 2048, domain |-> "application"],
  APP_RECOVERY |-> [offset |-> 15360, size |-> 2048, domain |-> "application"],
  APP_LOCAL_1  |-> [offset |-> 17408, size |-> 1024, domain |-> "application"],
  APP_LOCAL_2  |-> [offset |-> 18432, size |-> 1024, domain |-> "application"],
  APP_LOCAL_3  |-> [offset |-> 19456, size |-> 1024, domain |-> "application"]]

Roles == DOMAIN Layout54
Layout(soc) == IF soc = "nrf54h20" THEN Layout54 ELSE Layout92

\* slots never overlap, on either SoC
SlotsDisjoint(L) == \A r, q \in DOMAIN L : r # q =>
    (L[r].offset + L[r].size <= L[q].offset \/ L[q].offset + L[q].size <= L[r].offset)
ASSUME SlotsDisjoint(Layout54) /\ SlotsDisjoint(Layout92) /\ DOMAIN Layout92 = Roles

--------------------------------------------------------------------------
(* CBOR pieces needed for a slot *)
FFs(n) == [i \in 1..n |-> 255]
UHead(mt, n) == IF n < 24 THEN <<mt * 32 + n>>
                ELSE IF n < 256 THEN <<mt * 32 + 24, n>>
                ELSE IF n < 65536 THEN <<mt * 32 + 25, n \div 256, n % 256>>
                ELSE <<mt * 32 + 26, n \div 16777216, (n \div 65536) % 256, (n \div 256) % 256, n % 256>>

\* members of the input envelope: <<intKey (or -1 for a text key), raw key bytes, raw value bytes>>
Severable == {15, 16, 18, 20, 23}
Kept(members) == SelectSeq(members, LAMBDA m : m[1] >= 0 /\ m[1] \notin Severable)
RECURSIVE Concat(_)
Concat(ss) == IF ss = <<>> THEN <<>> ELSE Head(ss) \o Concat(Tail(ss))
\* the stored envelope: tag 107, a map of exactly the kept members with their original bytes in the original order
StoredEnvelope(members) ==
  LET k == Kept(members) IN
  <<216, 107>> \o UHead(5, Len(k)) \o Concat([i \in 1..Len(k) |-> k[i][2] \o k[i][3]])

\* the slot: { 0: 1, 1: class-ID offset, 2: bstr envelope }
SlotBytes(env, off) == <<163, 0, 1, 1>> \o UHead(0, off) \o <<2>> \o UHead(2, Len(env)) \o env

\* a slot description s = [role, members, cid, off]; role "NONE" = class not assigned to any role
Unknown(s) == s.role \notin Roles
NoCid(s) == s.cid = <<>>
TooLarge(L, s) == ~Unknown(s) /\ Len(SlotBytes(StoredEnvelope(s.members), IF s.off < 0 THEN 0 ELSE s.off)) > L[s.role].size
MustReject(L, slots) ==
  \/ \E i \in 1..Len(slots) : NoCid(slots[i]) \/ Unknown(slots[i]) \/ TooLarge(L, slots[i])
  \/ \E i, j \in 1..Len(slots) : i # j /\ slots[i].role = slots[j].role

ClassIdAtOffset(s) ==
  LET env == StoredEnvelope(s.members) IN
  s.off >= 0 /\ s.off + 16 <= Len(env) /\ SubSeq(env, s.off + 1, s.off + 16) = s.cid

\* expected image of one domain file: the slots of that domain's envelopes at base + offset, padded with 0xFF
DomainRegions(L, base, domain, slots) ==
  LET mine == SelectSeq(slots, LAMBDA s : L[s.role].domain = domain) IN
  [i \in 1..Len(mine) |->
     LET b == SlotBytes(StoredEnvelope(mine[i].members), mine[i].off) IN
     [addr |-> AddSmall(base, L[mine[i].role].offset), bytes |-> b \o FFs(L[mine[i].role].size - Len(b))]]
=============================================================================
