------------------------------ MODULE Mpi_Trace ------------------------------
(***************************************************************************)
(* Use C for C12.  One scenario per `mpi generate` / `mpi merge` run:      *)
(*   Begin {b, kind : "gen", addr, size, dp, iu, sv, vid, cid}             *)
(*   Begin {b, kind : "merge", addr, size, inputs : [[off, bytes]...],     *)
(*          digest}   (digest = SHA-256, by hashlib, of the first `size`   *)
(*          bytes of the output image - only believed if TLC finds that    *)
(*          image equal to the AreaImage the spec builds from the inputs)  *)
(*   Refused {}       the tool raised / exited non-zero and wrote no file  *)
(*   Rec {t, off, data} ... End {}    records of the written file          *)
(***************************************************************************)
EXTENDS Mpi, Json, IOUtils

Log == ndJsonDeserialize(IOEnv.TRACE_FILE)

VARIABLES l, st, bad, dead

Inputs(e) == [i \in 1..Len(e.inputs) |-> [off |-> e.inputs[i][1], bytes |-> e.inputs[i][2]]]

Regions(s) == LET e == Log[s.b] IN
  IF e.kind = "gen" THEN RecordRegions(e.addr, e.dp, e.iu, e.sv, e.vid, e.cid, e.size)
  ELSE MergedRegions(e.addr, e.size, Inputs(e), e.digest)

Reject(s) == LET e == Log[s.b] IN e.kind = "merge" /\ MustReject(e.size, Inputs(e))

Judge(s, e) ==
  CASE e.ev = "Refused" -> (IF Reject(s) THEN "ok" ELSE "ValidInputAccepted")
    [] e.ev = "Rec"     -> (IF Reject(s) THEN "OutsideOrOverlappingInputRejectedWithoutOutput"
                            ELSE RecJudge(s.h, Regions(s), e))
    [] e.ev = "End"     -> (IF Reject(s) THEN "OutsideOrOverlappingInputRejectedWithoutOutput"
                            ELSE EndJudge(s.h, Regions(s)))
    [] OTHER            -> "UnknownEvent"

Effect(s, e) ==
  CASE e.ev = "Rec" -> [s EXCEPT !.h = RecEffect(s.h, Regions(s), e)]
    [] OTHER        -> s

Start(e) == [b |-> e.b, h |-> HexInit(1)]

TB == INSTANCE TraceBatch
Spec == TB!Spec
Report == TB!Report
AllConsumed == TB!AllConsumed
=============================================================================
