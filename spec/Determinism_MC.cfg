SPECIFICATION Spec
CONSTANTS
  OPS = {"create1", "create1json", "create2", "parse", "boot", "cache", "cachenv", "reuse1"}
  MAXLEN = 4
  EMIT = TRUE
INVARIANT SameKeySameInputs
INVARIANT Emit
CHECK_DEADLOCK FALSE
