SPECIFICATION Spec
CONSTANTS
  OPS = {"create1", "create1json", "create2", "parse", "boot", "cache", "cachenv", "reuse1", "create3", "create3perm", "create3rel", "parsehA", "parsehB"}
  MAXLEN = 4
  EMIT = TRUE
INVARIANT SameKeySameInputs
INVARIANT Emit
CHECK_DEADLOCK FALSE
