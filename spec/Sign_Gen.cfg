SPECIFICATION Spec
CONSTANTS
  MAXOPS = 2
  EMIT = TRUE
INVARIANT Emit
INVARIANT JudgeAcceptsImpl
CHECK_DEADLOCK FALSE
