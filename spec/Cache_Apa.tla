---- MODULE Cache_Apa ----
EXTENDS Integers
VARIABLES
  \* @type: Int;
  eb,
  \* @type: Int;
  n
ImplPad(e, m) == LET r == (e - (m % e)) % e IN IF r = 1 THEN e + 1 ELSE r
Init == eb \in Nat /\ eb >= 1 /\ n \in Nat
Next == UNCHANGED <<eb, n>>
PadOk == LET p == ImplPad(eb, n) IN (n + p) % eb = 0 /\ p # 1 /\ p >= 0 /\ p <= eb + 1
====
