------------------------------ MODULE Encrypt_MC ------------------------------
(***************************************************************************)
(* Use A for C06 / C14 (design level, symbolic AEAD):                      *)
(*   Seal(key, iv, aad, pt) is an uninterpreted term; Open recovers pt iff *)
(*   key, iv and aad are the ones sealed with.                             *)
(* Encrypt: the KMS draws an IV (GEN = "fresh": never one used before with *)
(* this key - the ASSUMPTION under which C14 holds; GEN = "any" shows the  *)
(* counterexample), seals with the hard-coded AAD literal; the script      *)
(* publishes iv and protected header.  Invariants: what is published       *)
(* decrypts (so the literal must equal Enc_structure of the published      *)
(* header, and the published IV must be the one used), IVs per key are     *)
(* pairwise distinct.  generate-info: byte-level split/join of the blob.   *)
(***************************************************************************)
EXTENDS Integers, Sequences, FiniteSets, TLC

CONSTANTS KEYS, IVS, PTS, GEN, LITERAL, MAXOPS

Seal(k, iv, aad, pt) == [k |-> k, iv |-> iv, aad |-> aad, pt |-> pt]
Open(k, iv, aad, c) == IF c.k = k /\ c.iv = iv /\ c.aad = aad THEN c.pt ELSE "fail"
EncStructure(prot) == <<"Encrypt", prot, "">>
Published == "a10103"                  \* protected header {1: 3} as emitted

VARIABLES used, arts
vars == <<used, arts>>
Init == used = [k \in KEYS |-> {}] /\ arts = <<>>

Encrypt(k, pt, iv) ==
  /\ Len(arts) < MAXOPS
  /\ GEN = "fresh" => iv \notin used[k]
  /\ LET aadUsed == IF LITERAL = "matches" THEN EncStructure(Published) ELSE EncStructure("a10101") IN
     arts' = Append(arts, [key |-> k, pt |-> pt, ivpub |-> iv, prot |-> Published, c |-> Seal(k, iv, aadUsed, pt)])
  /\ used' = [used EXCEPT ![k] = @ \cup {iv}]

Next == \E k \in KEYS, pt \in PTS, iv \in IVS : Encrypt(k, pt, iv)
Spec == Init /\ [][Next]_vars

DecryptsToFirmware == \A i \in 1..Len(arts) :
   Open(arts[i].key, arts[i].ivpub, EncStructure(arts[i].prot), arts[i].c) = arts[i].pt
IvsPairwiseDistinctPerKey == \A i, j \in 1..Len(arts) : (i # j /\ arts[i].key = arts[j].key) => arts[i].ivpub # arts[j].ivpub

\* generate-info at byte level: blob = iv(12) || tag(16) || ciphertext ; content = tag || ciphertext
Blob(n) == [i \in 1..n |-> (i * 7) % 256]
SplitJoin == \A n \in 28..44 :
   LET b == Blob(n)
       iv == SubSeq(b, 1, 12)  tag == SubSeq(b, 13, 28)  ct == SubSeq(b, 29, n) IN
   /\ Len(iv) = 12 /\ Len(tag) = 16
   /\ tag \o ct = SubSeq(b, 13, n)
   /\ iv \o tag \o ct = b
ASSUME SplitJoin
=============================================================================
