------------------------------ MODULE Encrypt_MC ------------------------------
(***************************************************************************)
(* Use A for C06 / C14 (design level, symbolic AEAD):                      *)
(*   Seal(key, iv, aad, pt) is an uninterpreted term; Open recovers pt iff *)
(*   key, iv and aad are the ones sealed with.                             *)
(* A key is NAMED by a call as (context, key name): the KMS context (a     *)
(* keys directory) and the name inside it.  An Encryptor object is         *)
(* stateful: init_kms_backend binds a KMS to a context and the KMS then    *)
(* resolves names in the context it was INITIALISED with (basic_kms        *)
(* ignores the per-call context).  The shipped script re-initialises on    *)
(* every call (INITKMS = "each"); INITKMS = "once" is the variant in which *)
(* a reused object keeps its first context - the counterexample to         *)
(* DecryptsToFirmware that needs a history of two calls.                   *)
(* Encrypt: the KMS draws an IV (GEN = "fresh": never one used before with *)
(* this key - the ASSUMPTION under which C14 holds; GEN = "any" shows the  *)
(* counterexample), seals with the hard-coded AAD literal; the script      *)
(* publishes iv and protected header.  Invariants: what is published       *)
(* decrypts UNDER THE NAMED KEY (so the literal must equal Enc_structure   *)
(* of the published header, the published IV must be the one used and the  *)
(* key used must be the one the call names), IVs per key are pairwise      *)
(* distinct.  generate-info: byte-level split/join of the blob.            *)
(***************************************************************************)
EXTENDS Integers, Sequences, FiniteSets, TLC, Json

CONSTANTS CTXS, NAMES, IVS, PTS, GEN, LITERAL, INITKMS, MAXOPS, EMIT

KEYS == CTXS \X NAMES                  \* every (context, name) holds its own key bytes
Seal(k, iv, aad, pt) == [k |-> k, iv |-> iv, aad |-> aad, pt |-> pt]
Open(k, iv, aad, c) == IF c.k = k /\ c.iv = iv /\ c.aad = aad THEN c.pt ELSE "fail"
EncStructure(prot) == <<"Encrypt", prot, "">>
Published == "a10103"                  \* protected header {1: 3} as emitted

VARIABLES used, arts, bound, hist
\* bound: the context the current Encryptor object's KMS is initialised with ("none" for a new object)
vars == <<used, arts, bound, hist>>
Init == used = [k \in KEYS |-> {}] /\ arts = <<>> /\ bound = "none" /\ hist = <<>>

\* a new Encryptor object (the CLI makes one per process; a library user may keep one)
NewObject ==
  /\ bound # "none"
  /\ bound' = "none"
  /\ hist' = Append(hist, [op |-> "new"])
  /\ UNCHANGED <<used, arts>>

Encrypt(ctx, name, pt, iv) ==
  LET b == IF INITKMS = "each" \/ bound = "none" THEN ctx ELSE bound    \* init_kms_backend
      k == <<b, name>>                                                  \* the key the KMS resolves
      aadUsed == IF LITERAL = "matches" THEN EncStructure(Published) ELSE EncStructure("a10101") IN
  /\ Len(arts) < MAXOPS
  /\ GEN = "fresh" => iv \notin used[k]
  /\ bound' = b
  /\ arts' = Append(arts, [key |-> <<ctx, name>>, pt |-> pt, ivpub |-> iv, prot |-> Published,
                           c |-> Seal(k, iv, aadUsed, pt)])
  /\ used' = [used EXCEPT ![k] = @ \cup {iv}]
  /\ hist' = Append(hist, [op |-> "enc", ctx |-> ctx, name |-> name])

EncryptAny == \E ctx \in CTXS, name \in NAMES, pt \in PTS, iv \in IVS : Encrypt(ctx, name, pt, iv)
Next == NewObject \/ EncryptAny
Spec == Init /\ [][Next]_vars

DecryptsToFirmware == \A i \in 1..Len(arts) :
   Open(arts[i].key, arts[i].ivpub, EncStructure(arts[i].prot), arts[i].c) = arts[i].pt
IvsPairwiseDistinctPerKey == \A i, j \in 1..Len(arts) : (i # j /\ arts[i].c.k = arts[j].c.k) => arts[i].ivpub # arts[j].ivpub

\* Use B: session histories (which object, which context, which name) for replay into the real Encryptor
Emit == (EMIT /\ Len(arts) = MAXOPS) => PrintT("SCN " \o ToJson(hist))

\* generate-info at byte level: blob = iv(12) || tag(16) || ciphertext ; content = tag || ciphertext
Blob(n) == [i \in 1..n |-> (i * 7) % 256]
SplitJoin == \A n \in 28..44 :
   LET b == Blob(n)
       iv == SubSeq(b, 1, 12)  tag == SubSeq(b, 13, 28)  ct == SubSeq(b, 29, n) IN
   /\ Len(iv) = 12 /\ Len(tag) = 16
   /\ tag \o ct = SubSeq(b, 13, n)
   /\ iv \o tag \o ct = b
ASSUME SplitJoin
=============================================================================
