SPECIFICATION Spec
CONSTANTS
  EBS = {1, 2, 3, 4, 5, 7, 8, 16, 24, 25, 32, 64, 128, 256}
  KEYLENS = {1, 2, 23, 24, 255, 256}
  DATALENS = {0, 1, 5, 17, 40, 250, 300}
  KTAGS = {0, 1, 2}
  DTAGS = {0, 1}
  MAXOPS = 8
  EMIT = TRUE
INVARIANT Emit
INVARIANT JudgeAcceptsImpl
CHECK_DEADLOCK FALSE
