------------------------------ MODULE SignImpl ------------------------------
(***************************************************************************)
(* Implementation-shaped model of ncs/sign_script.py Signer.sign_envelope  *)
(* shared by Sign_MC (operation sequences) and Sign_RecMC (recursive).     *)
(***************************************************************************)
EXTENDS Extract

Keys == {"kp256", "kp384", "ked", "kp521"}
KType(k) == CASE k = "kp256" -> "p256" [] k = "kp384" -> "p384" [] k = "kp521" -> "p521" [] OTHER -> "ed25519"
Algs == {"es-256", "es-384", "es-521", "eddsa", "hash-eddsa"}
Actions == {"error", "skip", "remove-old"}
Kids == {"0x1", "0x4000aa00"}

\* an abstract envelope of the model; `all` is determined by the rest
AllOf(e) == <<e.mfw, e.dgraw, e.others, [i \in 1..Len(e.blocks) |-> e.blocks[i].raw]>>
Mk(mfw, dgraw, others, pay, blocks) ==
  LET e == [mfw |-> mfw, dgraw |-> dgraw, others |-> others, pay |-> pay, blocks |-> blocks, all |-> <<>>]
  IN [e EXCEPT !.all = AllOf(e)]

NewBlock(e, k, a, kid, n) ==
  [signer |-> k, alg |-> CoseAlg(a), kid |-> kid, kidwrapped |-> TRUE, over |-> e.dgraw, shape |-> TRUE,
   width |-> SigWidth(a), raw |-> <<"blk", k, a, kid, n>>]

\* sign_envelope as the code does it; n makes signature values distinct
SignImpl(e, action, k, a, kid, n) ==
  IF Signed(e) /\ action = "error" THEN [written |-> FALSE, out |-> e]
  ELSE IF Signed(e) /\ action = "skip" THEN [written |-> TRUE, out |-> e]
  ELSE LET base == IF Signed(e) /\ action = "remove-old" THEN Tail(e.blocks) ELSE e.blocks IN
       IF ~KeyMatches(KType(k), a) THEN [written |-> FALSE, out |-> e]
       ELSE [written |-> TRUE, out |-> Mk(e.mfw, e.dgraw, e.others, e.pay, Append(base, NewBlock(e, k, a, kid, n)))]

=============================================================================
