------------------------------ MODULE Extract ------------------------------
(***************************************************************************)
(* C09 (recursive signing) and C11 (payload extraction) over envelope      *)
(* hierarchies, plus the comparison judge used by C03.                     *)
(***************************************************************************)
EXTENDS Envelope

--------------------------------------------------------------------------
(* C09 recursive signing.  e.nodes : sequence of configuration nodes in pre-order; node fields:            *)
(*   parent (index, 0 for the root), name (id of the member name), exists, isenv, omit, haskey, key,      *)
(*   ktype, alg, kid, action, inp, out (abstract envelopes; out only meaningful when e.written),          *)
(*   named : ids of the member names that the configuration lists under this node                          *)

NodeMustFail(n) ==
  \/ ~n.exists \/ ~n.isenv
  \/ (~n.omit /\ ~n.haskey)
  \/ (~n.omit /\ n.haskey /\ Signed(n.inp) /\ n.action = "error")
  \/ (~n.omit /\ n.haskey /\ ~(Signed(n.inp) /\ n.action = "skip") /\ ~KeyMatches(n.ktype, n.alg))

Unnamed(others, named) == SelectSeq(others, LAMBDA kv : kv[1] \notin named)

NodeClause(nodes, i) ==
  LET n == nodes[i] IN
  IF n.out.mfw # n.inp.mfw THEN "ManifestsByteIdentical"
  ELSE IF n.out.dgraw # n.inp.dgraw THEN "DigestUnchanged"
  ELSE IF Unnamed(n.out.others, n.namedk) # Unnamed(n.inp.others, n.namedk) THEN "UnnamedMembersByteIdentical"
  ELSE IF \E j \in 1..Len(nodes) : nodes[j].parent = i /\
            ~\E p \in Range(n.out.pay) : p[1] = nodes[j].name /\ p[2] = nodes[j].out.all
       THEN "DependencyReEmbeddedUnderSameName"
  ELSE IF n.omit THEN (IF Raws(n.out.blocks) # Raws(n.inp.blocks) THEN "OmittedEnvelopeLeftUnsigned" ELSE "ok")
  ELSE IF Signed(n.inp) /\ n.action = "skip"
       THEN (IF Raws(n.out.blocks) # Raws(n.inp.blocks) THEN "SkipReturnsEnvelopeUnchanged" ELSE "ok")
  ELSE IF Signed(n.inp) /\ n.action = "remove-old"
       THEN (IF Len(n.out.blocks) # Len(n.inp.blocks) THEN "RemoveOldReplacesOneBlock"
             ELSE BlockClause(n.out.blocks[Len(n.out.blocks)], n.out, n.key, n.alg, n.kid))
  ELSE IF Len(n.out.blocks) # Len(n.inp.blocks) + 1 THEN "ExactlyOneBlockAppended"
  ELSE IF Raws(SubSeq(n.out.blocks, 1, Len(n.inp.blocks))) # Raws(n.inp.blocks) THEN "ExistingBlocksUnchanged"
  ELSE BlockClause(n.out.blocks[Len(n.out.blocks)], n.out, n.key, n.alg, n.kid)

RECURSIVE FirstBad(_, _)
FirstBad(nodes, i) == IF i > Len(nodes) THEN "ok"
                      ELSE LET c == NodeClause(nodes, i) IN IF c # "ok" THEN c ELSE FirstBad(nodes, i + 1)

RecursiveJudge(e) ==
  IF \E i \in 1..Len(e.nodes) : NodeMustFail(e.nodes[i])
  THEN (IF e.written THEN "FailureWritesNothing" ELSE "ok")
  ELSE IF ~e.written THEN "ValidConfigurationSigned"
  ELSE FirstBad(e.nodes, 1)

--------------------------------------------------------------------------
(* C11 cache_create from_envelope.  e.nodes : visited envelopes in pre-order; node fields:                 *)
(*   parent, name, inOthers, outOthers (non-text-keyed members <<key id, value id>>), outAll,             *)
(*   mem : text-keyed members of the input <<name, content, omit, dep, isenv>>,                            *)
(*   outPay : text-keyed members of the output <<name, content>>                                           *)
(* e.cache : <<uri id, content id>> entries of the cache file; e.written; e.omitGiven; e.depGiven          *)

ExtractedAt(n) == {<<m[1], m[2]>> : m \in {x \in Range(n.mem) : ~x[4] /\ ~x[3]}}
KeptAt(n) == {<<m[1], m[2]>> : m \in {x \in Range(n.mem) : ~x[4] /\ x[3]}}
DepsAt(n) == {m[1] : m \in {x \in Range(n.mem) : x[4]}}

ExtractMustFail(e) ==
  \/ \E i \in 1..Len(e.nodes) : \E m \in Range(e.nodes[i].mem) : m[4] /\ ~m[5]       \* dependency that is no envelope
  \/ \E i, j \in 1..Len(e.nodes) : \E a \in ExtractedAt(e.nodes[i]), b \in ExtractedAt(e.nodes[j]) :
        a[1] = b[1] /\ (i # j \/ a # b)                                                \* duplicate URI
  \/ \E i \in 1..Len(e.nodes) : Cardinality({m[1] : m \in Range(e.nodes[i].mem)}) # Len(e.nodes[i].mem)

ExtractNodeClause(nodes, i) ==
  LET n == nodes[i] IN
  IF n.outOthers # n.inOthers THEN "AuthenticatedContentByteIdentical"
  ELSE IF \E p \in KeptAt(n) : p \notin Range(n.outPay) THEN "OmittedPayloadStaysUnderSameName"
  ELSE IF \E p \in ExtractedAt(n) : \E q \in Range(n.outPay) : q[1] = p[1] THEN "ExtractedPayloadInExactlyOnePlace"
  ELSE IF \E d \in DepsAt(n) : ~\E j \in 1..Len(nodes) : nodes[j].parent = i /\ nodes[j].name = d
                                                             /\ <<d, nodes[j].outAll>> \in Range(n.outPay)
       THEN "DependencyReEmbeddedUnderSameName"
  ELSE IF Len(n.outPay) # Cardinality(KeptAt(n)) + Cardinality(DepsAt(n)) THEN "NoPayloadInvented"
  ELSE "ok"

RECURSIVE FirstBadX(_, _)
FirstBadX(nodes, i) == IF i > Len(nodes) THEN "ok"
                       ELSE LET c == ExtractNodeClause(nodes, i) IN IF c # "ok" THEN c ELSE FirstBadX(nodes, i + 1)

CacheJudge(e) ==
  IF ExtractMustFail(e) THEN (IF e.written THEN "FailureWritesNothing" ELSE "ok")
  ELSE IF ~e.written THEN "ValidExtractionSucceeds"
  ELSE LET want == UNION {ExtractedAt(e.nodes[i]) : i \in 1..Len(e.nodes)} IN
       IF Range(e.cache) # want THEN "EveryExtractedPayloadInCacheWithIdenticalBytes"
       ELSE IF Len(e.cache) # Cardinality(want) THEN "ExtractedPayloadInExactlyOnePlace"
       ELSE FirstBadX(e.nodes, 1)

\* payload_extract: single payload `name` popped (must exist), optionally replaced, optionally stored to a file
OneJudge(e) ==
  LET hit == {m \in Range(e.inPay) : m[1] = e.name} IN
  IF hit = {} THEN "ok"                                         \* C11 quantifies over payloads that exist
  ELSE LET m == CHOOSE m \in hit : TRUE IN
  IF e.outOthers # e.inOthers THEN "AuthenticatedContentByteIdentical"
  ELSE IF e.fileGiven /\ e.file # m[2] THEN "ExtractedPayloadStoredWithIdenticalBytes"
  ELSE IF e.replaceGiven /\ Range(e.outPay) # (Range(e.inPay) \ {m}) \cup {<<e.name, e.replace>>} THEN "ReplacedUnderSameName"
  ELSE IF ~e.replaceGiven /\ Range(e.outPay) # Range(e.inPay) \ {m} THEN "OnlyTheNamedPayloadRemoved"
  ELSE "ok"

ExtractJudge(e) == IF e.mode = "cache" THEN CacheJudge(e) ELSE OneJudge(e)

--------------------------------------------------------------------------
(* C03: two stored envelopes agree on manifest, wrapper, severed members and the SET of integrated members *)
SameJudge(a, b, what) ==
  IF a.mfw # b.mfw THEN "ManifestByteIdentical"
  ELSE IF a.dgraw # b.dgraw \/ Raws(a.blocks) # Raws(b.blocks) THEN "AuthenticationWrapperByteIdentical"
  ELSE IF Range(a.sev) # Range(b.sev) THEN "SeveredMembersByteIdentical"
  ELSE IF Range(a.pay) # Range(b.pay) \/ Len(a.pay) # Len(b.pay) THEN "SameSetOfIntegratedPayloadsAndDependencies"
  ELSE "ok"
=============================================================================
