--------------------------- MODULE TraceBatch ---------------------------
(***************************************************************************)
(* Generic batch trace validator shared by every X_Trace module.           *)
(*                                                                         *)
(* A trace file is ndjson; every line is an event record with at least the *)
(* fields tid (scenario id), i (index inside the scenario) and ev (event   *)
(* name).  A scenario starts with a "Begin" event.  Each event is judged   *)
(* by the instantiating module's own Judge operator - which is built from  *)
(* the same judge/effect operator pairs the model-checking specification   *)
(* uses - and verdicts are TOTAL: a rejected event records                 *)
(* [tid, i, clause] in `bad`, marks the scenario dead (its remaining       *)
(* events are skipped) and the batch continues with the next scenario.     *)
(***************************************************************************)
EXTENDS Naturals, Sequences, TLC, TLCExt, Json

CONSTANTS Log,            \* the deserialised trace (sequence of records)
          Judge(_, _),    \* (state, event) -> "ok" or the name of the first failing clause
          Effect(_, _),   \* (state, event) -> next state (only evaluated when Judge = "ok")
          Start(_)        \* Begin event -> initial scenario state

VARIABLES l, st, bad, dead

vars == <<l, st, bad, dead>>

NoState == [none |-> TRUE]

Init == l = 1 /\ st = NoState /\ bad = {} /\ dead = FALSE

Step ==
  /\ l <= Len(Log)
  /\ l' = l + 1
  /\ LET e == Log[l] IN
       IF e.ev = "Begin"
       THEN st' = Start(e) /\ dead' = FALSE /\ bad' = bad
       ELSE IF dead \/ st = NoState
            THEN UNCHANGED <<st, dead, bad>>
            ELSE LET j == Judge(st, e) IN
                 IF j = "ok"
                 THEN st' = Effect(st, e) /\ UNCHANGED <<bad, dead>>
                 ELSE /\ bad' = bad \cup {[tid |-> e.tid, i |-> e.i, clause |-> j]}
                      /\ dead' = TRUE
                      /\ st' = st

Spec == Init /\ [][Step]_vars

\* Printed exactly once, in the state that has consumed the whole log.
Report == l = Len(Log) + 1 => PrintT("BAD " \o ToJson(bad))

\* One state per consumed line plus the initial state.
AllConsumed == TLCGet("stats").diameter = Len(Log) + 1
=============================================================================
