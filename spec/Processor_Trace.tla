--------------------------- MODULE Processor_Trace ---------------------------
(***************************************************************************)
(* Use C for C19: Begin {h...}; Created {ok}; Header {}; Cmd {seq, code,   *)
(* idx, uri, local, dg}                                                    *)
(***************************************************************************)
EXTENDS Processor, Json, IOUtils
Log == ndJsonDeserialize(IOEnv.TRACE_FILE)
VARIABLES l, st, bad, dead
H(e) == [comps |-> e.comps, deps |-> e.deps, integ |-> e.integ, allowed |-> e.allowed]
Judge(s, e) ==
  CASE e.ev = "Created" -> (IF e.ok THEN "ok" ELSE "RenderingAndCreatingSucceeds")
    [] e.ev = "Header"  -> HeaderJudge(s.h)
    [] e.ev = "Cmd"     -> StepJudge(s.h, s.p, e)
    [] OTHER -> "UnknownEvent"
Effect(s, e) == IF e.ev = "Cmd" THEN [s EXCEPT !.p = StepEffect(s.h, s.p, e)] ELSE s
Start(e) == [h |-> H(e), p |-> InitProc(H(e))]
TB == INSTANCE TraceBatch
Spec == TB!Spec
Report == TB!Report
AllConsumed == TB!AllConsumed
=============================================================================
