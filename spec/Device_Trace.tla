---------------------------- MODULE Device_Trace ----------------------------
(***************************************************************************)
(* Use C for G07: Begin {ncomp, deps, integ, lens}; Header {}; Seq {name}; *)
(* Cmd {code, idx, ps, uri, dg, size, src, cval}; Alt {}; EndTry {};       *)
(* Expect {content, set} - the state Device_MC predicted for the program   *)
(* the envelope was created from (Use B).                                  *)
(***************************************************************************)
EXTENDS Device, Json, IOUtils
Log == ndJsonDeserialize(IOEnv.TRACE_FILE)
VARIABLES l, st, bad, dead
H(e) == [ncomp |-> e.ncomp, deps |-> e.deps, integ |-> e.integ, lens |-> e.lens, mf |-> e.mf]
AsSeq(f, h) == [i \in 1..h.ncomp |-> f[i - 1]]
Judge(s, e) ==
  CASE e.ev = "Header" -> HeaderJudge(s.h)
    [] e.ev = "Seq" -> "ok"
    [] e.ev = "Cmd" -> CmdJudge(s.h, s.p, e)
    [] e.ev \in {"Alt", "EndTry"} -> AltJudge(s.p)
    [] e.ev = "Expect" -> (IF AsSeq(s.p.c.content, s.h) # e.content THEN "ComponentsHoldWhatTheDescriptionSays"
                           ELSE IF AsSeq(s.p.c.set, s.h) # [i \in 1..s.h.ncomp |-> Rng(e.set[i])]
                                THEN "ParametersKnownAreThoseTheDescriptionSets"
                           ELSE "ok")
    [] OTHER -> "UnknownEvent"
Effect(s, e) ==
  CASE e.ev = "Seq" -> [s EXCEPT !.p = InitDev(s.h)]
    [] e.ev = "Cmd" -> [s EXCEPT !.p = CmdEffect(s.h, s.p, e)]
    [] e.ev = "Alt" -> [s EXCEPT !.p = AltEffect(s.h, s.p)]
    [] e.ev = "EndTry" -> [s EXCEPT !.p = EndTryEffect(s.h, s.p)]
    [] OTHER -> s
Start(e) == [h |-> H(e), p |-> InitDev(H(e))]
TB == INSTANCE TraceBatch
Spec == TB!Spec
Report == TB!Report
AllConsumed == TB!AllConsumed
=============================================================================
