SPECIFICATION Spec
CONSTANTS
  EMIT = TRUE
INVARIANT LookupAgreesWithProperty
INVARIANT RejectedIffDuplicate
INVARIANT Emit
CHECK_DEADLOCK FALSE
