SPECIFICATION Spec
CONSTANTS
  SIZE = 10
  RLENS = {1, 3}
  NREC = 3
  WINDOW = 3
  EMIT = FALSE
INVARIANT RejectIffPropertySaysSo
INVARIANT RejectWritesNothing
INVARIANT WrittenIsTheSpecifiedImage
INVARIANT InputsAtOriginalAddresses
INVARIANT FFElsewhere
CHECK_DEADLOCK FALSE
