SPECIFICATION Spec
CONSTANTS
  EMIT = FALSE
INVARIANT RecursiveAccepted
INVARIANT WrittenIffNoNodeFails
CHECK_DEADLOCK FALSE
