---------------------------------- MODULE Cli ----------------------------------
(***************************************************************************)
(* Growth beyond the listed properties (DESIGN.md 4.16): the command line  *)
(* front end - format selection for create / parse by file extension and   *)
(* --input-format / --output-format, and the exit-status contract of       *)
(* suit_generator/cli.py (input errors are REPORTED: exit status 1 without *)
(* a traceback; usage errors exit 2; success exits 0 and writes the file). *)
(***************************************************************************)
EXTENDS Integers, Sequences, TLC

TextFormats == {"json", "yaml"}
Lower(x) == CASE x = "JSON" -> "json" [] x = "YAML" -> "yaml" [] x = "Yaml" -> "yaml" [] OTHER -> x
\* the format create reads a description in: the flag wins, AUTO takes the extension (case-insensitively)
InFormat(ext, flag) == IF flag # "AUTO" THEN flag ELSE Lower(ext)
ReadableByCreate(ext, flag) == InFormat(ext, flag) \in TextFormats \cup {"suit"}
WritableByParse(ext, flag) == InFormat(ext, flag) \in TextFormats

\* e = [cmd, ext, flag, content (format the file really is in), rc, written, same (output equals the reference), tb (traceback printed)]
FormatJudge(e) ==
  LET supported == IF e.cmd = "create" THEN ReadableByCreate(e.ext, e.flag) ELSE WritableByParse(e.ext, e.flag)
      \* JSON is a subset of YAML: a JSON file read as YAML is fine; a YAML file read as JSON is an input error
      parses == e.cmd = "parse" \/ InFormat(e.ext, e.flag) = e.content \/ (InFormat(e.ext, e.flag) = "yaml" /\ e.content = "json") IN
  IF supported /\ parses THEN (IF e.rc # 0 \/ ~e.written THEN "SupportedFormatSucceeds" ELSE IF ~e.same THEN "FormatDoesNotChangeTheResult" ELSE "ok")
  ELSE IF e.rc = 0 THEN "UnsupportedOrMismatchedFormatFails"
  ELSE IF e.written THEN "FailureWritesNoEnvelope"
  ELSE "ok"

\* input errors that the tool classifies itself (create: ValueError / FileNotFoundError -> SUITError; GeneratorError) are
\* reported without a traceback; errors it does not classify (a YAML syntax error, a CBOR error in parse) still end the
\* process with a non-zero status - with a traceback, which is recorded as an observation, not judged.
\* `written` = a NON-EMPTY output file exists (a failing create leaves a 0-byte file behind: observation O11).
Classified == {"missing-input", "unknown-key"}
ErrorJudge(e) ==
  IF e.cause \in Classified THEN
       (IF e.rc # 1 THEN "InputErrorExitsWithStatus1" ELSE IF e.tb THEN "ClassifiedInputErrorIsReportedWithoutTraceback" ELSE IF e.written THEN "FailureWritesNoEnvelope" ELSE "ok")
  ELSE IF e.cause \in {"broken-yaml", "bad-cbor"} THEN
       (IF e.rc = 0 THEN "InputErrorFails" ELSE IF e.written THEN "FailureWritesNoEnvelope" ELSE "ok")
  ELSE IF e.cause = "usage" THEN (IF e.rc # 2 THEN "UsageErrorExitsWithStatus2" ELSE "ok")
  ELSE "UnknownCause"
=============================================================================
