---------------------------------- MODULE Cli ----------------------------------
(***************************************************************************)
(* Growth beyond the listed properties (DESIGN.md 4.16): the command line  *)
(* front end - format selection for create / parse by file extension and   *)
(* --input-format / --output-format, and the exit-status contract of       *)
(* suit_generator/cli.py (input errors are REPORTED: exit status 1 without *)
(* a traceback; usage errors exit 2; success exits 0 and writes the file). *)
(***************************************************************************)
EXTENDS Integers, Sequences, TLC

TextFormats == {"json", "yaml"}
Lower(x) == CASE x = "JSON" -> "json" [] x = "YAML" -> "yaml" [] x = "Yaml" -> "yaml" [] OTHER -> x
\* the format create reads a description in: the flag wins, AUTO takes the extension (case-insensitively)
InFormat(ext, flag) == IF flag # "AUTO" THEN flag ELSE Lower(ext)
ReadableByCreate(ext, flag) == InFormat(ext, flag) \in TextFormats \cup {"suit"}
WritableByParse(ext, flag) == InFormat(ext, flag) \in TextFormats

\* e = [cmd, ext, flag, content (format the file really is in), rc, written, same (output equals the reference), tb (traceback printed)]
FormatJudge(e) ==
  LET supported == IF e.cmd = "create" THEN ReadableByCreate(e.ext, e.flag) ELSE WritableByParse(e.ext, e.flag)
      \* JSON is a subset of YAML: a JSON file read as YAML is fine; a YAML file read as JSON is an input error
      parses == e.cmd = "parse" \/ InFormat(e.ext, e.flag) = e.content \/ (InFormat(e.ext, e.flag) = "yaml" /\ e.content = "json") IN
  IF supported /\ parses THEN (IF e.rc # 0 \/ ~e.written THEN "SupportedFormatSucceeds" ELSE IF ~e.same THEN "FormatDoesNotChangeTheResult" ELSE "ok")
  ELSE IF e.rc = 0 THEN "UnsupportedOrMismatchedFormatFails"
  ELSE IF e.written THEN "FailureWritesNoEnvelope"
  ELSE "ok"

\* input errors that the tool classifies itself (create: ValueError / FileNotFoundError -> SUITError; GeneratorError) are
\* reported without a traceback; errors it does not classify (a YAML syntax error, a CBOR error in parse) still end the
\* process with a non-zero status - with a traceback, which is recorded as an observation, not judged.
\* `written` = a NON-EMPTY output file exists (a failing create leaves a 0-byte file behind: observation O11).
Classified == {"missing-input", "unknown-key"}
ErrorJudge(e) ==
  IF e.cause \in Classified THEN
       (IF e.rc # 1 THEN "InputErrorExitsWithStatus1" ELSE IF e.tb THEN "ClassifiedInputErrorIsReportedWithoutTraceback" ELSE IF e.written THEN "FailureWritesNoEnvelope" ELSE "ok")
  ELSE IF e.cause \in {"broken-yaml", "bad-cbor"} THEN
       (IF e.rc = 0 THEN "InputErrorFails" ELSE IF e.written THEN "FailureWritesNoEnvelope" ELSE "ok")
  ELSE IF e.cause = "usage" THEN (IF e.rc # 2 THEN "UsageErrorExitsWithStatus2" ELSE "ok")
  ELSE "UnknownCause"

\* ---- every sub-command: a request that cannot be served is REPORTED BY THE EXIT STATUS and leaves no output behind.
\* The contract is the first two clauses; what the shipped code does beyond / short of it is the table of NAMED deviations
\* (model what the code does): a scenario that takes a deviation is accepted as that deviation and recorded as an observation,
\* a scenario that deviates WITHOUT being in the table is rejected (ModelDescribesTheCode).
\*   DevLeavesOutput        a non-zero exit status, but output files (possibly empty) stay behind
\*   DevAcceptsTheRequest   exit status 0: the request is served although it cannot be meaningful
Failures == {
  <<"create", "missing-input">>, <<"create", "unknown-key">>, <<"create", "broken-yaml">>,
  <<"parse", "missing-input">>, <<"parse", "bad-cbor">>,
  <<"sign", "missing-input">>, <<"sign", "missing-key">>, <<"sign", "key-type-mismatch">>, <<"sign", "already-signed-error">>,
  <<"sign-recursive", "missing-configuration">>, <<"sign-recursive", "absent-dependency">>,
  <<"payload_extract", "missing-input">>, <<"payload_extract", "absent-payload">>,
  <<"cache_create", "missing-file">>, <<"cache_create", "duplicate-uri">>, <<"cache_create", "malformed-input-argument">>,
  <<"cache_create", "zero-erase-block">>, <<"cache_create-merge", "duplicate-uri">>,
  <<"mpi-generate", "area-smaller-than-record">>, <<"mpi-merge", "missing-input">>, <<"mpi-merge", "input-outside-area">>,
  <<"image-boot", "missing-input">>, <<"image-boot", "envelope-larger-than-slot">>, <<"image-update", "missing-input">>,
  <<"keys", "unsupported-combination">>, <<"convert", "missing-input">>, <<"convert", "not-a-pem-key">>,
  <<"encrypt", "missing-firmware">>, <<"encrypt", "missing-key">> }
Deviation(cmd, cause) ==
  CASE <<cmd, cause>> \in {<<"create", "unknown-key">>, <<"convert", "not-a-pem-key">>,
                           <<"payload_extract", "absent-payload">>} -> "DevLeavesOutput"
    [] <<cmd, cause>> = <<"mpi-generate", "area-smaller-than-record">> -> "DevAcceptsTheRequest"
    [] OTHER -> "none"
\* e = [cmd, cause, rc, left (some output file - even an empty one - exists afterwards)]
FailureJudge(e) ==
  LET dv == Deviation(e.cmd, e.cause) IN
  IF <<e.cmd, e.cause>> \notin Failures THEN "UnknownFailureScenario"
  ELSE IF dv = "DevAcceptsTheRequest" THEN (IF e.rc # 0 THEN "ModelDescribesTheCode" ELSE "ok")
  ELSE IF e.rc = 0 THEN "FailureIsReportedByTheExitStatus"
  ELSE IF dv = "DevLeavesOutput" THEN (IF ~e.left THEN "ModelDescribesTheCode" ELSE "ok")
  ELSE IF e.left THEN "FailureLeavesNoOutput"
  ELSE "ok"
=============================================================================
