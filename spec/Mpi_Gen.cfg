SPECIFICATION Spec
CONSTANTS
  SIZE = 8
  RLENS = {1, 3}
  NREC = 3
  WINDOW = 3
  EMIT = TRUE
INVARIANT Emit
INVARIANT RejectIffPropertySaysSo
INVARIANT RejectWritesNothing
INVARIANT WrittenIsTheSpecifiedImage
INVARIANT InputsAtOriginalAddresses
INVARIANT FFElsewhere
CHECK_DEADLOCK FALSE
