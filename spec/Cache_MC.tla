------------------------------ MODULE Cache_MC ------------------------------
(***************************************************************************)
(* Use A for C10: exhaustive exploration of the implementation layer of    *)
(* Cache.tla at byte level (small keys / payloads, every erase-block size  *)
(* in EBS, sequences of up to MAXOPS operations incl. duplicates, close    *)
(* and merge into a cache with another block size), checking               *)
(*  - the byte-level C10 invariants with the CBOR walker of Cache.tla, and *)
(*  - that the permissive judges used for traces of the real code accept   *)
(*    every step of the implementation layer (refinement Impl => Spec).    *)
(* Use B: with EMIT = TRUE every completed behaviour is printed as a       *)
(* scenario (SCN line) that the harness replays into the real object.      *)
(***************************************************************************)
EXTENDS Cache, Json

CONSTANTS EBS, KEYLENS, DATALENS, KTAGS, DTAGS, MAXOPS, EMIT

VARIABLES c,      \* [eb, bytes, first, uris, pairs (sequence of <<key, data>>), closed]
          a,      \* abstract judge state (Cache!InitCache ...) kept in lock step
          verdict,\* verdict of the permissive judge on the last step
          hist    \* operations so far (scenario for replay)

vars == <<c, a, verdict, hist>>

Key(n, tag) == [i \in 1..n |-> IF i = 1 THEN 97 + tag ELSE 120]    \* distinct first byte per tag (n >= 1)
Data(n, tag) == [i \in 1..n |-> (tag * 16 + i) % 256]

\* interning for the abstract layer (any injective naming will do)
KeyId(key) == Len(key) * 256 + key[1]
DataId(val) == IF Len(val) = 0 THEN 0 ELSE Len(val) * 256 + val[1]
Abs(ents) == [i \in 1..Len(ents) |->
                [s |-> ents[i].s, e |-> ents[i].e, kl |-> ents[i].kl,
                 u |-> IF ents[i].kl = 0 THEN -1 ELSE KeyId(ents[i].key),
                 vh |-> ents[i].vh, vl |-> ents[i].vl,
                 d |-> IF ents[i].kl = 0 THEN -1 ELSE DataId(ents[i].val),
                 z |-> IsZero(ents[i].val)]]

Fresh(eb) == [eb |-> eb, bytes |-> <<>>, first |-> TRUE, uris |-> {}, pairs |-> <<>>, closed |-> FALSE]

Init == \E eb \in EBS : c = Fresh(eb) /\ a = InitCache(eb) /\ verdict = "ok" /\ hist = <<[op |-> "begin", eb |-> eb]>>

\* entries of freshly appended bytes nb that start at 0-based offset off (opened: nb begins with 0xBF)
EntsOf(nb, off, opened) ==
  LET w == WalkFrom((IF opened THEN SubSeq(nb, 2, Len(nb)) ELSE nb) \o <<255>>, 1)
      sh == off + (IF opened THEN 1 ELSE 0)
  IN [ok |-> w.ok, ents |-> [i \in 1..Len(w.ents) |-> [w.ents[i] EXCEPT !.s = @ + sh, !.e = @ + sh]]]

AddOp(k, d, kt, dt) ==
  /\ ~c.closed /\ Len(hist) <= MAXOPS
  /\ LET key == Key(k, kt)  data == Data(d, dt) IN
     IF key \in c.uris
     THEN /\ verdict' = AddJudge(a, KeyId(key), k, DataId(data), d, "rejected", FALSE, <<>>, a.off)
          /\ UNCHANGED <<c, a>>
          /\ hist' = Append(hist, [op |-> "add", kl |-> k, kt |-> kt, dl |-> d, dt |-> dt, res |-> "rejected"])
     ELSE LET nb == SlotBytes(c.first, key, data, c.eb)
              ents == EntsOf(nb, Len(c.bytes), c.first)
              end == Len(c.bytes) + Len(nb) IN
          /\ ents.ok
          /\ verdict' = AddJudge(a, KeyId(key), k, DataId(data), d, "ok", c.first, Abs(ents.ents), end)
          /\ c' = [c EXCEPT !.bytes = @ \o nb, !.first = FALSE, !.uris = @ \cup {key},
                            !.pairs = Append(@, <<key, data>>)]
          /\ a' = AppendEffect(a, {<<KeyId(key), DataId(data)>>}, end)
          /\ hist' = Append(hist, [op |-> "add", kl |-> k, kt |-> kt, dl |-> d, dt |-> dt, res |-> "ok"])

CloseOp ==
  /\ ~c.closed /\ ~c.first
  /\ verdict' = CloseJudge(a, <<255>>)
  /\ c' = [c EXCEPT !.bytes = @ \o <<255>>, !.closed = TRUE]
  /\ a' = CloseEffect(a)
  /\ hist' = Append(hist, [op |-> "close"])

RECURSIVE AddAll(_, _, _)
AddAll(cache, pairs, i) ==
  IF i > Len(pairs) THEN cache
  ELSE AddAll([cache EXCEPT !.bytes = @ \o SlotBytes(cache.first, pairs[i][1], pairs[i][2], cache.eb),
                            !.first = FALSE, !.uris = @ \cup {pairs[i][1]}, !.pairs = Append(@, pairs[i])],
              pairs, i + 1)

\* merge: a new cache (possibly another block size) re-adds what the walker finds in the closed file
MergeOp(eb2) ==
  /\ c.closed /\ Len(hist) <= MAXOPS
  /\ LET found == PairsOf(Walk(c.bytes).ents)
         nc == AddAll(Fresh(eb2), found, 1)
         ents == EntsOf(nc.bytes, 0, TRUE)
         a0 == InitCache(eb2) IN
     /\ ents.ok
     /\ verdict' = MergeJudge(a0, {<<KeyId(found[i][1]), DataId(found[i][2])>> : i \in 1..Len(found)}, "ok", TRUE, Abs(ents.ents), Len(nc.bytes))
     /\ c' = nc
     /\ a' = AppendEffect(a0, {<<KeyId(found[i][1]), DataId(found[i][2])>> : i \in 1..Len(found)}, Len(nc.bytes))
     /\ hist' = Append(hist, [op |-> "merge", eb |-> eb2])

Next ==
  \/ \E k \in KEYLENS, d \in DATALENS, kt \in KTAGS, dt \in DTAGS : AddOp(k, d, kt, dt)
  \/ CloseOp
  \/ \E eb2 \in EBS : MergeOp(eb2)

Spec == Init /\ [][Next]_vars

--------------------------------------------------------------------------
JudgeAcceptsImpl == verdict = "ok"

ClosedFileWellFormed ==
  c.closed => /\ FileWellFormed(c.eb, Walk(c.bytes), c.pairs)
              /\ FileJudge(a, TRUE, Len(c.bytes), Abs(Walk(c.bytes).ents)) = "ok"

OpenBufferAligned == (~c.closed /\ ~c.first) => Len(c.bytes) % c.eb = 0

AbstractInStep == a.off = Len(c.bytes) /\ a.first = c.first /\ a.closed = c.closed /\ a.uris = {KeyId(k) : k \in c.uris}

\* the padding entry the implementation emits is exactly the amount it computed, and never a single byte
PadShape == \A eb \in EBS : \A n \in 1..(2 * eb + 30) :
               LET p == ImplPad(eb, n) IN Len(PadBytes(p)) = p /\ p # 1 /\ (n + p) % eb = 0 /\ p <= eb + 1
ASSUME PadShape

Emit == (EMIT /\ c.closed) => PrintT("SCN " \o ToJson(hist))

View == <<c, a, verdict>>
=============================================================================
