------------------------------- MODULE Mpi_MC -------------------------------
(***************************************************************************)
(* Use A for C12: the merge as the state machine the code runs             *)
(* (per file: bounds check, overlap-detecting merge; then fill, digest,    *)
(* write) over ALL placements of up to NREC records of length RLEN in a    *)
(* window around an area of SIZE bytes (inside, touching both borders, one *)
(* byte out; partial overlap, enclosing, enclosed, identical - in every     *)
(* order, hence two record lengths)                                        *)
(* byte out, overlapping by one byte).  Scaled-down constants; the record  *)
(* content is irrelevant to placement.  Also the policy table of Record.   *)
(***************************************************************************)
EXTENDS Mpi, Json

CONSTANTS SIZE, RLENS, NREC, WINDOW,   \* record lengths; offsets range over -WINDOW .. SIZE + WINDOW
          EMIT

VARIABLES todo,     \* input files still to merge (sequence of [off, bytes])
          all,      \* all inputs of the scenario
          mem,      \* merged memory: function from covered offsets to bytes (the IntelHex object)
          phase,    \* "merging" | "rejected" | "written"
          out       \* written output bytes (<<>> if none)

vars == <<todo, all, mem, phase, out>>

RecBytes(k, n) == [i \in 1..n |-> k * 16 + i]
Offsets == (0 - WINDOW)..(SIZE + WINDOW)

RECURSIVE SeqsUpTo(_)
SeqsUpTo(n) == IF n = 0 THEN {<<>>}
               ELSE LET shorter == SeqsUpTo(n - 1) IN
                    shorter \cup {Append(s, [off |-> o, bytes |-> RecBytes(Len(s) + 1, rl)]) : s \in {x \in shorter : Len(x) = n - 1}, o \in Offsets, rl \in RLENS}

Init == /\ all \in SeqsUpTo(NREC)
        /\ todo = all /\ mem = <<>> /\ phase = "merging" /\ out = <<>>

Covered == DOMAIN mem

\* one file: `minaddr < address or maxaddr > address + size - 1` => reject; overlap with merged data => reject
MergeFile ==
  /\ phase = "merging" /\ todo # <<>>
  /\ LET f == Head(todo)
         cells == {f.off + i : i \in 1..Len(f.bytes)} IN
     IF f.off < 0 \/ f.off + Len(f.bytes) - 1 > SIZE - 1
     THEN phase' = "rejected" /\ UNCHANGED <<mem, out>>
     ELSE IF cells \cap Covered # {}
     THEN phase' = "rejected" /\ UNCHANGED <<mem, out>>
     ELSE /\ mem' = [c \in Covered \cup cells |-> IF c \in cells THEN f.bytes[c - f.off] ELSE mem[c]]
          /\ UNCHANGED <<phase, out>>
  /\ todo' = Tail(todo)
  /\ UNCHANGED all

\* fill with 0xFF, append digest (symbolic: 32 bytes 0..31 stand for SHA-256 of the area), write
Digest == [i \in 1..4 |-> 200 + i]
Write ==
  /\ phase = "merging" /\ todo = <<>>
  /\ out' = [p \in 1..SIZE |-> IF p \in Covered THEN mem[p] ELSE 255] \o Digest
  /\ phase' = "written"
  /\ UNCHANGED <<todo, all, mem>>

Next == MergeFile \/ Write
Spec == Init /\ [][Next]_vars

--------------------------------------------------------------------------
RejectIffPropertySaysSo ==
  /\ phase = "rejected" => MustReject(SIZE, all)
  /\ phase = "written"  => ~MustReject(SIZE, all)
RejectWritesNothing == phase = "rejected" => out = <<>>
WrittenIsTheSpecifiedImage ==
  phase = "written" => out = MergedRegions(<<0, 0>>, SIZE, all, Digest)[1].bytes
InputsAtOriginalAddresses ==
  phase = "written" => \A i \in 1..Len(all) : SubSeq(out, all[i].off + 1, all[i].off + Len(all[i].bytes)) = all[i].bytes
FFElsewhere ==
  phase = "written" => \A p \in 1..SIZE :
      (~\E i \in 1..Len(all) : all[i].off < p /\ p <= all[i].off + Len(all[i].bytes)) => out[p] = 255

Emit == (EMIT /\ phase # "merging") =>
          PrintT("SCN " \o ToJson([offs |-> [i \in 1..Len(all) |-> all[i].off], lens |-> [i \in 1..Len(all) |-> Len(all[i].bytes)], phase |-> phase]))

\* policy table and record shape
Uuid(k) == [i \in 1..16 |-> k + i]
PolicyTable ==
  \A dp \in BOOLEAN, iu \in BOOLEAN, sv \in {"none", "update", "update-and-boot"}, size \in {48, 49, 64} :
    LET r == Record(dp, iu, sv, Uuid(1), Uuid(100), size) IN
    /\ Len(r) = size
    /\ r[1] = 1
    /\ r[2] = (IF dp THEN 2 ELSE 1) /\ r[3] = (IF iu THEN 2 ELSE 1)
    /\ r[4] = (CASE sv = "none" -> 1 [] sv = "update" -> 2 [] OTHER -> 3)
    /\ SubSeq(r, 5, 16) = FF(12)
    /\ SubSeq(r, 17, 32) = Uuid(1) /\ SubSeq(r, 33, 48) = Uuid(100)
    /\ \A i \in 49..size : r[i] = 255
ASSUME PolicyTable
=============================================================================
