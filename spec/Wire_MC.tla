-------------------------------- MODULE Wire_MC --------------------------------
(***************************************************************************)
(* Use A / B for C02: (a) properties of the reference encoder itself at    *)
(* every CBOR width boundary - heads are shortest form on limbs, the       *)
(* policy bitfield is injective on subsets, hole codes are unambiguous;    *)
(* (b) TLC enumerates every REGISTRY ATOM of the description language:     *)
(* each of the 22 commands with each admissible argument shape, each of    *)
(* the 14 parameters with each value variant, each algorithm, each policy  *)
(* subset, each comparator, each text key - crossed with the integer       *)
(* boundary set where the atom carries an integer - and prints them; the   *)
(* harness embeds each atom in a minimal description, runs the real create *)
(* and Wire_Trace compares the bytes with Wire(desc).                      *)
(***************************************************************************)
EXTENDS Wire, Json
CONSTANT EMIT

\* boundary values as limbs: 0, 23, 24, 255, 256, 65535, 65536, 2^32 - 1, 2^32, 2^64 - 1
Bounds == {<<0, 0, 0, 0>>, <<0, 0, 0, 23>>, <<0, 0, 0, 24>>, <<0, 0, 0, 255>>, <<0, 0, 0, 256>>, <<0, 0, 0, 65535>>,
           <<0, 0, 1, 0>>, <<0, 0, 65535, 65535>>, <<0, 1, 0, 0>>, <<65535, 65535, 65535, 65535>>}
Width(l) == IF l[1] # 0 \/ l[2] # 0 THEN 9 ELSE IF l[3] # 0 THEN 5 ELSE IF l[4] >= 256 THEN 3 ELSE IF l[4] >= 24 THEN 2 ELSE 1
ShortestHeads == \A l \in Bounds : \A mt \in 0..1 : Len(HeadL(mt, l)) = Width(l) /\ HeadL(mt, l)[1] \div 32 = mt
LengthHeads == \A n \in {0, 23, 24, 255, 256, 65535, 65536, 70000} :
                  Len(HeadN(2, n)) = (IF n < 24 THEN 1 ELSE IF n < 256 THEN 2 ELSE IF n < 65536 THEN 3 ELSE 5)
PolicyNames == {e[1] : e \in Reg.policy}
PolicySubsetSum(S) == LET f[T \in SUBSET S] == IF T = {} THEN 0 ELSE LET x == CHOOSE x \in T : TRUE IN CodeOf("policy", x) + f[T \ {x}] IN f[S]
PolicyInjective == \A S, T \in SUBSET PolicyNames : PolicySubsetSum(S) = PolicySubsetSum(T) => S = T
HoleCodesDistinct == \A r1, r2 \in {1} \cup {100 + k : k \in {15, 16, 17, 18, 20, 23}}, a1, a2 \in 1..5 :
                        (r1 * 8 + a1 = r2 * 8 + a2) => (r1 = r2 /\ a1 = a2)
ASSUME ShortestHeads /\ LengthHeads /\ PolicyInjective /\ HoleCodesDistinct

CmdNames == {e[1] : e \in Reg.command}
ParamNames == {e[1] : e \in Reg.parameter}
IntParams == {"suit-parameter-component-slot", "suit-parameter-source-component", "suit-parameter-image-size", "suit-parameter-content"}
Atoms ==
     {[kind |-> "policycmd", name |-> c, pol |-> S] : c \in Conditions \cup PolicyDirectives, S \in SUBSET PolicyNames}
  \cup {[kind |-> "index", var |-> v] : v \in {"true", "false", "list0", "list3"}}
  \cup {[kind |-> "indexint", l |-> l] : l \in Bounds}
  \cup {[kind |-> "nest", name |-> c, depth |-> d] : c \in {"suit-directive-try-each", "suit-directive-run-sequence"}, d \in 1..3}
  \cup {[kind |-> "paramint", name |-> p, l |-> l] : p \in IntParams, l \in Bounds}
  \cup {[kind |-> "param", name |-> p, var |-> v] : p \in ParamNames \ IntParams, v \in 1..2}
  \cup {[kind |-> "seqnum", l |-> l] : l \in Bounds}
  \cup {[kind |-> "hashalg", name |-> e[1]] : e \in Reg.hashalg}
  \cup {[kind |-> "signalg", name |-> e[1]] : e \in Reg.cosealg}
  \cup {[kind |-> "kid", l |-> l] : l \in Bounds}
  \cup {[kind |-> "comparator", name |-> e[1]] : e \in Reg.comparator}
  \cup {[kind |-> "textkey", name |-> e[1]] : e \in Reg.text \cup Reg.textcomponent}
  \cup {[kind |-> "member", name |-> m] : m \in SeqMembers \cup SevSeqMembers}
  \cup {[kind |-> "strlen", n |-> n] : n \in {0, 1, 23, 24, 255, 256}}

\* hex texts for the two fields whose type is a UNION of an integer and a byte string (suit-parameter-content, suit-cose-key-id):
\* the text is hex and means bytes, whatever else it may look like (decimal digits, a 0b.. literal, an exponent, upper case)
HexTexts == {"", "00", "0000", "10", "1234", "3031", "0102", "0b01", "1e10", "c0ffee", "ABCDEF", "99999999999999999999"}
UnionAtoms == {[kind |-> "unionhex", field |-> f, text |-> t] : f \in {"content", "kid", "kidunprot", "rcpkid"}, t \in HexTexts}

\* one-character component-identifier parts: a letter, a digit, punctuation, a blank, a non-ASCII character (the raw character, not a
\* wrapped text string), against longer strings (wrapped text)
CidAtoms == {[kind |-> "cidpart", text |-> t] : t \in {"M", "z", "2", "0", "_", "#", " ", "é", "ab", "2a", "CAND_MFST"}}

\* authentication blocks: their order on the wire is the order of the description, whatever their keys are called - eleven and
\* twelve blocks with the conventional names (..9, 10, 11: string order differs from numeric order), and a few blocks whose keys
\* are listed against their numbering
AuthAtoms == {[kind |-> "authblocks", n |-> n, names |-> o] : n \in {2, 3, 11, 12}, o \in {"ascending", "descending", "rotated"}}

VARIABLES a
Init == a \in Atoms \cup UnionAtoms \cup CidAtoms \cup AuthAtoms
Next == UNCHANGED a
Spec == Init /\ [][Next]_a
AtomIsKnown == a.kind \in {"policycmd", "index", "indexint", "nest", "paramint", "param", "seqnum", "hashalg", "signalg", "kid",
                           "comparator", "textkey", "member", "strlen", "unionhex", "cidpart", "authblocks"}
Emit == EMIT => PrintT("SCN " \o ToJson(a))
=============================================================================
