------------------------------- MODULE Registry -------------------------------
(***************************************************************************)
(* C08: the vocabulary of the description language and its registered      *)
(* integers, kept in the verifier as data.                                 *)
(*                                                                         *)
(* Source: draft-ietf-suit-manifest, draft-ietf-suit-trust-domains,        *)
(* draft-ietf-suit-update-management, draft-ietf-suit-firmware-encryption, *)
(* RFC 9052 / 9053 / 9054 (COSE), RFC 8392 (CWT) as known to the author;   *)
(* the sandbox has no copy of the registries, so the table was written     *)
(* from memory, diffed against suit_generator/suit/types/keys.py and every *)
(* entry reviewed by hand.  Entries that are Nordic/tool specific or whose *)
(* registered value could not be confirmed offline are PINNED from the     *)
(* shipped tool and marked (pinned): suit-install-legacy 17,               *)
(* suit-current-version 6, cose-alg-vs-hash-eddsa -65537 (private use),    *)
(* the invoke-args keys, and the spelling "suit_uninstall" (sic, O10).     *)
(* From then on the table is the oracle: any later change of a code, any   *)
(* collision and any name accepted in a foreign closed space is detected.  *)
(***************************************************************************)
EXTENDS Integers, FiniteSets, TLC

Reg == [
  envelope |-> {<<"suit-delegation", 1>>, <<"suit-authentication-wrapper", 2>>, <<"suit-manifest", 3>>,
                <<"suit-dependency-resolution", 15>>, <<"suit-payload-fetch", 16>>, <<"suit-install-legacy", 17>>,
                <<"suit-candidate-verification", 18>>, <<"suit-install", 20>>, <<"suit-text", 23>>},
  manifest |-> {<<"suit-manifest-version", 1>>, <<"suit-manifest-sequence-number", 2>>, <<"suit-common", 3>>,
                <<"suit-reference-uri", 4>>, <<"suit-manifest-component-id", 5>>, <<"suit-current-version", 6>>,
                <<"suit-validate", 7>>, <<"suit-load", 8>>, <<"suit-invoke", 9>>, <<"suit-dependency-resolution", 15>>,
                <<"suit-payload-fetch", 16>>, <<"suit-install-legacy", 17>>, <<"suit-candidate-verification", 18>>,
                <<"suit-install", 20>>, <<"suit-text", 23>>, <<"suit_uninstall", 24>>},
  common |-> {<<"suit-dependencies", 1>>, <<"suit-components", 2>>, <<"suit-shared-sequence", 4>>},
  command |-> {<<"suit-condition-vendor-identifier", 1>>, <<"suit-condition-class-identifier", 2>>,
               <<"suit-condition-image-match", 3>>, <<"suit-condition-component-slot", 5>>,
               <<"suit-condition-check-content", 6>>, <<"suit-condition-dependency-integrity", 7>>,
               <<"suit-condition-is-dependency", 8>>, <<"suit-condition-abort", 14>>,
               <<"suit-condition-device-identifier", 24>>, <<"suit-condition-version", 28>>,
               <<"suit-directive-process-dependency", 11>>, <<"suit-directive-set-component-index", 12>>,
               <<"suit-directive-try-each", 15>>, <<"suit-directive-write", 18>>, <<"suit-directive-set-parameters", 19>>,
               <<"suit-directive-override-parameters", 20>>, <<"suit-directive-fetch", 21>>, <<"suit-directive-copy", 22>>,
               <<"suit-directive-invoke", 23>>, <<"suit-directive-swap", 31>>, <<"suit-directive-run-sequence", 32>>,
               <<"suit-directive-unlink", 33>>},
  parameter |-> {<<"suit-parameter-vendor-identifier", 1>>, <<"suit-parameter-class-identifier", 2>>,
                 <<"suit-parameter-image-digest", 3>>, <<"suit-parameter-component-slot", 5>>,
                 <<"suit-parameter-strict-order", 12>>, <<"suit-parameter-soft-failure", 13>>,
                 <<"suit-parameter-image-size", 14>>, <<"suit-parameter-content", 18>>,
                 <<"suit-parameter-encryption-info", 19>>, <<"suit-parameter-uri", 21>>,
                 <<"suit-parameter-source-component", 22>>, <<"suit-parameter-invoke-args", 23>>,
                 <<"suit-parameter-device-identifier", 24>>, <<"suit-parameter-version", 28>>},
  text |-> {<<"suit-text-manifest-description", 1>>, <<"suit-text-update-description", 2>>,
            <<"suit-text-manifest-json-source", 3>>, <<"suit-text-manifest-yaml-source", 4>>},
  textcomponent |-> {<<"suit-text-vendor-name", 1>>, <<"suit-text-model-name", 2>>, <<"suit-text-vendor-domain", 3>>,
                     <<"suit-text-model-info", 4>>, <<"suit-text-component-description", 5>>,
                     <<"suit-text-component-version", 6>>},
  header |-> {<<"suit-cose-algorithm-id", 1>>, <<"suit-cose-key-id", 4>>, <<"suit-cose-iv", 5>>},
  cosealg |-> {<<"cose-alg-es-256", -7>>, <<"cose-alg-es-384", -35>>, <<"cose-alg-es-521", -36>>, <<"cose-alg-eddsa", -8>>,
               <<"cose-alg-vs-hash-eddsa", -65537>>, <<"cose-alg-aes-gcm-128", 1>>, <<"cose-alg-aes-gcm-192", 2>>,
               <<"cose-alg-aes-gcm-256", 3>>, <<"cose-alg-a128kw", -3>>, <<"cose-alg-a192kw", -4>>, <<"cose-alg-a256kw", -5>>,
               <<"cose-alg-direct", -6>>},
  hashalg |-> {<<"cose-alg-sha-256", -16>>, <<"cose-alg-shake128", -18>>, <<"cose-alg-sha-384", -43>>,
               <<"cose-alg-sha-512", -44>>, <<"cose-alg-shake256", -45>>},
  cwt |-> {<<"Issuer", 1>>, <<"Subject", 2>>, <<"Audience", 3>>, <<"Expiration Time", 4>>, <<"Not Before", 5>>,
           <<"Issued At", 6>>, <<"CW ID", 7>>},
  policy |-> {<<"suit-send-record-success", 1>>, <<"suit-send-record-failure", 2>>, <<"suit-send-sysinfo-success", 4>>,
              <<"suit-send-sysinfo-failure", 8>>},
  comparator |-> {<<"suit-condition-version-comparison-greater", 1>>, <<"suit-condition-version-comparison-greater-equal", 2>>,
                  <<"suit-condition-version-comparison-equal", 3>>, <<"suit-condition-version-comparison-lesser-equal", 4>>,
                  <<"suit-condition-version-comparison-lesser", 5>>},
  invokeargs |-> {<<"suit-synchronous-invoke", 1>>, <<"suit-timeout", 2>>},
  depmeta |-> {<<"suit-dependency-prefix", 1>>}]

Spaces == DOMAIN Reg
\* every listed space is closed for integer-keyed names (the envelope additionally admits arbitrary TEXT keys for
\* integrated payloads, which are not names of the vocabulary)
Names(sp) == {e[1] : e \in Reg[sp]}
Codes(sp) == {e[2] : e \in Reg[sp]}
CodeOf(sp, n) == (CHOOSE e \in Reg[sp] : e[1] = n)[2]
NameOf(sp, c) == (CHOOSE e \in Reg[sp] : e[2] = c)[1]

Tags == [envelope |-> 107, sign1 |-> 18, encrypt |-> 96]

\* one-to-one inside every space
Injective == \A sp \in Spaces : Cardinality(Names(sp)) = Cardinality(Reg[sp]) /\ Cardinality(Codes(sp)) = Cardinality(Reg[sp])
\* conditions and directives share the command space: no condition code is a directive code (covered by Injective)
PolicyBitsArePowersOfTwo == \A e \in Reg.policy : e[2] \in {1, 2, 4, 8, 16, 32, 64, 128}
ASSUME Injective /\ PolicyBitsArePowersOfTwo

\* judges
EncodeJudge(sp, n, accepted, code, back) ==
  IF n \notin Names(sp) THEN "NameBelongsToSpace"
  ELSE IF ~accepted THEN "KnownNameAccepted"
  ELSE IF code # CodeOf(sp, n) THEN "NameEncodesToRegisteredInteger"
  ELSE IF back # n THEN "ParseRendersIntegerAsSameName"
  ELSE "ok"
CrossJudge(sp, n, accepted) ==
  IF n \in Names(sp) THEN (IF accepted THEN "ok" ELSE "KnownNameAccepted")
  ELSE IF accepted THEN "NameRejectedInForeignClosedSpace" ELSE "ok"
TagJudge(what, tag) == IF tag # Tags[what] THEN "RegisteredCborTag" ELSE "ok"
\* parsing an item of kind `what` that carries tag number `tag` (-2: a number beyond 32 bits) in a head of any well-formed width
ParseTagJudge(what, tag, accepted) ==
  IF tag # Tags[what] /\ accepted THEN "ForeignTagRefused"
  ELSE IF tag = Tags[what] /\ ~accepted THEN "RegisteredTagAcceptedInEveryHeadWidth"
  ELSE "ok"
=============================================================================
