SPECIFICATION Spec
CONSTANTS
  EMIT = TRUE
INVARIANT RecursiveAccepted
INVARIANT WrittenIffNoNodeFails
INVARIANT Emit
CHECK_DEADLOCK FALSE
