---------------------------- MODULE Envelope_MC ----------------------------
(***************************************************************************)
(* Use A for C01 / C05: the create pipeline as the code runs it            *)
(*   from_obj ; update_severable_digests ; update_digest ; to_cbor         *)
(* over the product {severable members} x {absent, embedded, severed and   *)
(* present, severed and missing} x supplied digest {none, wrong, right},   *)
(* for a parent with one dependency whose own pipeline must have completed *)
(* (been "refreshed") before the parent hashes and embeds it.              *)
(* ORDER is the order of the two update steps; REFRESH says after which    *)
(* child step the parent may take its reference.  The shipped order is     *)
(* <<"sev", "dig">> / "dig"; swapping the steps or referencing a stale     *)
(* child is a TLC counterexample (see selftest).                           *)
(* With EMIT every completed behaviour is printed as a scenario (Use B).   *)
(***************************************************************************)
EXTENDS Integers, Sequences, FiniteSets, TLC, Json

CONSTANTS MEMBERS,     \* severable members that vary (subset of {15, 16, 18, 20, 23})
          ORDER,       \* <<"sev", "dig">>
          REFRESH,     \* "dig": the child is referenced after its update_digest
          WITHCHILD,   \* BOOLEAN
          EMIT

OrderShipped == <<"sev", "dig">>
OrderSwapped == <<"dig", "sev">>

Modes == {"absent", "emb", "sev", "sevmiss"}
Sups == {"none", "wrong", "right"}

None == [k |-> "none"]
Wrong == [k |-> "wrong"]
Hm(m) == [k |-> "Hmember", m |-> m]                 \* hash of the wrapped member m as it appears in the envelope
Hmf(v) == [k |-> "Hmanifest", v |-> v]               \* hash of the wrapped manifest whose member digests are v

\* value the description supplies
Supplied(sup, right) == IF sup = "none" THEN None ELSE IF sup = "wrong" THEN Wrong ELSE right

VARIABLES shape,   \* [lvl -> [w : sup, mem : [MEMBERS -> [mode, sup]]]]
          obj,     \* [lvl -> [w : value, mem : [MEMBERS -> value], ref : value]]   the model objects
          pc,      \* [lvl -> "new" | "built" | "sev" | "dig" | "written"]
          step,    \* [lvl -> index into ORDER]
          out      \* [lvl -> written envelope or None]

vars == <<shape, obj, pc, step, out>>
Lvls == IF WITHCHILD THEN {0, 1} ELSE {0}           \* 0 = parent, 1 = dependency

\* the manifest "bytes": everything that is inside the manifest and can change
Mf(o) == [mem |-> o.mem, ref |-> o.ref]

Shapes == [w : Sups, mem : [MEMBERS -> Modes \X Sups]]

Init ==
  /\ shape \in [Lvls -> Shapes]
  /\ \A l \in Lvls : \A m \in MEMBERS : shape[l].mem[m][1] = "absent" => shape[l].mem[m][2] = "none"
  /\ \A l \in Lvls : \A m \in MEMBERS : shape[l].mem[m][1] = "emb" => shape[l].mem[m][2] = "none"
  /\ obj = [l \in Lvls |-> None]
  /\ pc = [l \in Lvls |-> "new"]
  /\ step = [l \in Lvls |-> 1]
  /\ out = [l \in Lvls |-> None]

\* the digest a "right" description value carries for member m / for the wrapper of a finished object
RightMem(m) == Hm(m)

\* from_obj: the description values go into the object; the parent takes its reference to the child here
FromObj(l) ==
  /\ pc[l] = "new"
  /\ (l = 0 /\ WITHCHILD) => pc[1] = REFRESH             \* the child has been processed this far
  /\ LET memv == [m \in MEMBERS |->
                    IF shape[l].mem[m][1] \in {"sev", "sevmiss"} THEN Supplied(shape[l].mem[m][2], RightMem(m))
                    ELSE None]
         ref == IF l = 0 /\ WITHCHILD THEN Hmf(Mf(obj[1])) ELSE None
         o0 == [w |-> None, mem |-> memv, ref |-> ref]
         \* a "right" wrapper digest is the digest of the manifest as it will finally be
         final == [o0 EXCEPT !.mem = [m \in MEMBERS |-> IF shape[l].mem[m][1] = "sev" THEN Hm(m) ELSE memv[m]]]
     IN obj' = [obj EXCEPT ![l] = [o0 EXCEPT !.w = Supplied(shape[l].w, Hmf(Mf(final)))]]
  /\ pc' = [pc EXCEPT ![l] = "built"]
  /\ UNCHANGED <<shape, step, out>>

UpdSev(l) ==
  obj' = [obj EXCEPT ![l].mem = [m \in MEMBERS |-> IF shape[l].mem[m][1] = "sev" THEN Hm(m) ELSE @[m]]]
UpdDig(l) ==
  obj' = [obj EXCEPT ![l].w = Hmf(Mf(obj[l]))]

Update(l) ==
  /\ pc[l] \in {"built", "sev", "dig"} /\ step[l] <= Len(ORDER)
  /\ IF ORDER[step[l]] = "sev" THEN UpdSev(l) ELSE UpdDig(l)
  /\ pc' = [pc EXCEPT ![l] = ORDER[step[l]]]
  /\ step' = [step EXCEPT ![l] = @ + 1]
  /\ UNCHANGED <<shape, out>>

Write(l) ==
  /\ pc[l] \in {"built", "sev", "dig"} /\ step[l] > Len(ORDER)
  /\ (l = 1) => TRUE
  /\ out' = [out EXCEPT ![l] = obj[l]]
  /\ pc' = [pc EXCEPT ![l] = "written"]
  /\ UNCHANGED <<shape, obj, step>>

Next == \E l \in Lvls : FromObj(l) \/ Update(l) \/ Write(l)
Spec == Init /\ [][Next]_vars

--------------------------------------------------------------------------
Written(l) == pc[l] = "written"

I1_DigestBindsManifest == \A l \in Lvls : Written(l) => out[l].w = Hmf(Mf(out[l]))
I2_SeveredBound == \A l \in Lvls : Written(l) =>
                      \A m \in MEMBERS : shape[l].mem[m][1] = "sev" => out[l].mem[m] = Hm(m)
I3_SuppliedNeverSurvives == \A l \in Lvls : Written(l) =>
                      /\ out[l].w # Wrong
                      /\ \A m \in MEMBERS : shape[l].mem[m][1] = "sev" => out[l].mem[m] # Wrong
\* C05: what the parent recorded is the hash of the manifest of the dependency as created on its own
ParentBindsChild == (WITHCHILD /\ Written(0) /\ Written(1)) => out[0].ref = Hmf(Mf(out[1]))

Emit == (EMIT /\ \A l \in Lvls : Written(l)) =>
          PrintT("SCN " \o ToJson([l \in Lvls |->
                   [w |-> shape[l].w,
                    mem |-> [m \in MEMBERS |-> <<m, shape[l].mem[m][1], shape[l].mem[m][2]>>]]]))
=============================================================================
