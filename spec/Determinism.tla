----------------------------- MODULE Determinism -----------------------------
(***************************************************************************)
(* C18: output depends only on the inputs.                                 *)
(* An operation's INPUTS are: the operation and its arguments, and the     *)
(* current version of every file it names (absolute paths; a RELATIVE path *)
(* names the file of that name in the current directory, so for the one    *)
(* operation that uses relative paths the directory is part of the key).   *)
(* NOT inputs:                                                             *)
(* what was processed earlier in the process, the order, the string-hash   *)
(* seed, the working directory, the text format (YAML / JSON) of a         *)
(* description.  The key of an execution is built from the inputs only;    *)
(* its output (signature value and IV / ciphertext erased) must be THE     *)
(* output of that key - the one a fresh interpreter produces.              *)
(***************************************************************************)
EXTENDS Integers, Sequences, FiniteSets, TLC

\* files each operation reads (the dependency relation)
Reads(op) == CASE op \in {"create1", "create1json", "reuse1", "create3", "create3perm"} -> {"fw"}
               [] op = "create2" -> {"fw", "child"}
               [] op = "cache" -> {"fw"}
               [] op = "encrypt" -> {"fw"}
               [] op \in {"parse", "boot", "sign", "update"} -> {"env"}
               [] op \in {"cachenv", "cachenv2", "parsehA"} -> {"multi"}
               [] op = "parsehB" -> {"multi2"}
               \* the extended alphabet (Determinism_MC2): every remaining command, most with two DIFFERENT inputs of one kind
               [] op \in {"extractA", "signrecA", "bootB", "updateB", "signB", "parseyamlA"} -> {"multi"}
               [] op \in {"extractB", "signrecB", "parseyamlB"} -> {"multi2"}
               [] op \in {"convertA", "convertB", "mpimerge", "cachemerge", "geninfo", "bootcfg"} -> {}
               [] OTHER -> {}
\* YAML and JSON renderings (and the re-used dictionary) denote the same description
Canon(op) == IF op \in {"create1json", "reuse1"} THEN "create1" ELSE op
\* create3 / create3perm: a parent whose dependency is an INLINE description that itself reads fw (perm: the same dependency with
\* its manifest entries in another order - a different description, hence a different key); create3rel: the inline dependency
\* names its files by relative path, and each directory holds its own file of that name
CwdOps == {"create3rel"}
Key(op, ver, cwd) == <<Canon(op), [f \in Reads(op) |-> ver[f]], IF op \in CwdOps THEN cwd ELSE 0>>

\* refs : key id -> output id, from fresh interpreters
RefJudge(refs, key, out) == IF key \in DOMAIN refs /\ refs[key] # out THEN "FreshInterpretersAgree" ELSE "ok"
ExecJudge(refs, key, out) ==
  IF key \notin DOMAIN refs THEN "ReferenceExists"
  ELSE IF refs[key] # out THEN "OutputDependsOnlyOnInputs"
  ELSE "ok"
=============================================================================
