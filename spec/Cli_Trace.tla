------------------------------- MODULE Cli_Trace -------------------------------
EXTENDS Cli, Json, IOUtils
Log == ndJsonDeserialize(IOEnv.TRACE_FILE)
VARIABLES l, st, bad, dead
Judge(s, e) == CASE e.ev = "Format" -> FormatJudge(e) [] e.ev = "Error" -> ErrorJudge(e) [] e.ev = "Failure" -> FailureJudge(e) [] OTHER -> "UnknownEvent"
Effect(s, e) == s
Start(e) == [x |-> 0]
TB == INSTANCE TraceBatch
Spec == TB!Spec
Report == TB!Report
AllConsumed == TB!AllConsumed
=============================================================================
