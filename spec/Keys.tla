--------------------------------- MODULE Keys ---------------------------------
(***************************************************************************)
(* C15: `keys` (key pair generation) and `convert` (public key as C array) *)
(***************************************************************************)
EXTENDS Integers, Sequences, FiniteSets, TLC

Types == {"secp256r1", "secp384r1", "secp521r1", "ed25519", "ed448"}
Nist == {"secp256r1", "secp384r1", "secp521r1"}
Encodings == {"pem", "der"}
PrivFormats == {"pkcs8", "pkcs1"}
PubFormats == {"default", "pkcs1"}

\* PKCS#8 + SubjectPublicKeyInfo exist for every type; the traditional (SEC1 / "pkcs1") private form exists for EC
\* keys only; the PKCS#1 public form is RSA-only
Supported(type, privfmt, pubfmt) == pubfmt = "default" /\ (privfmt = "pkcs8" \/ type \in Nist)

\* r = [ok, privExists, pubExists, privType, pubType, privEnc, pubEnc, pair]
KeysJudge(type, enc, privfmt, pubfmt, r) ==
  IF ~Supported(type, privfmt, pubfmt)
  THEN (IF r.ok THEN "UnsupportedCombinationReportedAsError"
        \* the property does not speak of leftovers - but two loadable key files at the prefix are a pair, also after a refusal
        \* (an earlier pair must not be half overwritten)
        ELSE IF r.privExists /\ r.pubExists /\ r.privType # "none" /\ r.pubType # "none" /\ ~r.pair
             THEN "PrivateAndPublicBelongTogether" ELSE "ok")
  ELSE IF ~r.ok \/ ~r.privExists \/ ~r.pubExists THEN "SupportedCombinationWritesBothFiles"
  ELSE IF r.privType # type \/ r.pubType # type THEN "FilesHoldRequestedKeyType"
  ELSE IF r.privEnc # enc \/ r.pubEnc # enc THEN "FilesUseRequestedEncoding"
  ELSE IF ~r.pair THEN "PrivateAndPublicBelongTogether"
  ELSE "ok"

--------------------------------------------------------------------------
Width(type) == CASE type = "secp256r1" -> 32 [] type = "secp384r1" -> 48 [] type = "secp521r1" -> 66
                 [] type = "ed25519" -> 32 [] type = "ed448" -> 57
Zeros(n) == [i \in 1..n |-> 0]
PadTo(b, w) == Zeros(w - Len(b)) \o b          \* b = minimal big-endian bytes of a coordinate (no leading zero byte)

\* the exact public key bytes: fixed-width X || Y for the NIST curves, the raw key for EdDSA
Expected(type, x, y, raw) == IF type \in Nist THEN PadTo(x, Width(type)) \o PadTo(y, Width(type)) ELSE raw

\* c = [tokens : the 0x.. literals of the array in order, lenvar : a length variable is present,
\*      lensizeof : it is sizeof(array), nolength : --no-length was given]
ConvertJudge(type, x, y, raw, c) ==
  IF c.tokens # Expected(type, x, y, raw) THEN "ArrayIsExactlyThePublicKey"
  ELSE IF c.nolength /\ c.lenvar THEN "NoLengthOmitsTheVariable"
  ELSE IF ~c.nolength /\ (~c.lenvar \/ ~c.lensizeof) THEN "LengthVariableEqualsArraySize"
  ELSE "ok"
=============================================================================
