SPECIFICATION Spec
CONSTANTS
  EMIT = TRUE
INVARIANT RoundTrip
INVARIANT Emit
CHECK_DEADLOCK FALSE
