------------------------------- MODULE Update -------------------------------
(***************************************************************************)
(* C16: update-candidate info record and DFU partition image               *)
(* (cmd_image.py: _prepare_update_candidate_info_for_update,               *)
(*  _create_suit_storage_file_for_update, _create_dfu_partition_hex_file). *)
(***************************************************************************)
EXTENDS Hex

Magic == <<21930, 21930>>        \* 0x55AA55AA

\* magic, one region, partition address, envelope size, then (address, size) = (0, 0) per cache; all LE32
UciRecord(part, size, caches) ==
  LE32(Magic) \o LE32(<<0, 1>>) \o LE32(part) \o LE32(size) \o [i \in 1..(8 * caches) |-> 0]

\* expected image of the storage file and of the partition file
UciRegions(addr, part, size, caches) == <<[addr |-> addr, bytes |-> UciRecord(part, size, caches)]>>
PartitionRegions(part, envelope) == <<[addr |-> part, bytes |-> envelope]>>
=============================================================================
