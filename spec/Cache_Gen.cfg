SPECIFICATION Spec
CONSTANTS
  EBS = {1, 4, 8, 16}
  KEYLENS = {1, 2}
  DATALENS = {0, 5, 17}
  KTAGS = {0, 1}
  DTAGS = {0}
  MAXOPS = 3
  EMIT = TRUE
INVARIANT Emit
CHECK_DEADLOCK FALSE
