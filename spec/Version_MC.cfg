SPECIFICATION Spec
CONSTANTS
  FIELD = {0, 1, 3}
  PRENUMS = {0, 2}
  EMIT = TRUE
INVARIANT OrderEmbedding
INVARIANT EqualIffEqualLists
INVARIANT Irreflexive
INVARIANT Asymmetric
INVARIANT Emit
CHECK_DEADLOCK FALSE
