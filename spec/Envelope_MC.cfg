SPECIFICATION Spec
CONSTANTS
  MEMBERS = {16, 20}
  ORDER <- OrderShipped
  REFRESH = "dig"
  WITHCHILD = TRUE
  EMIT = FALSE
INVARIANT I1_DigestBindsManifest
INVARIANT I2_SeveredBound
INVARIANT I3_SuppliedNeverSurvives
INVARIANT ParentBindsChild
CHECK_DEADLOCK FALSE
