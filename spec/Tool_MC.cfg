SPECIFICATION Spec
CONSTANTS
  MAXLEN = 3
  EMIT = TRUE
INVARIANT DigestBindsManifest
INVARIANT BlocksOverDigest
INVARIANT ManifestProvenance
INVARIANT RoundTripIsIdentity
INVARIANT NothingInvented
INVARIANT Emit
CHECK_DEADLOCK FALSE
