#!/venv/bin/python
"""Clause coverage of the trace judges by single-field corruption (the binding demonstrated wholesale, DESIGN.md 10/11).

  tools/clausecov.py collect      run the quick checks with VERIF_SAVE_TRACES set: genuine traces recorded from the real tool
  tools/clausecov.py corrupt      for every trace module: take a few genuine scenarios per event type, corrupt ONE leaf field at a
                                  time (bool flipped, int +1, list of ints: first element +1 / last element dropped / emptied), give
                                  each corrupted copy a scenario of its own and let TLC judge the batch; record which clause
                                  rejected which corruption.  Output: evidence/growth/clause_coverage.json + a table on stdout.

A corruption that is ACCEPTED is not an error (not every field is constrained by a property); a clause that no single-field
corruption can reach is listed so that it is looked at by hand.  Strings are never corrupted (a judge's CASE over names has no
OTHER branch on purpose: an unknown name is a machinery failure, not a verdict)."""
from __future__ import annotations

import copy
import json
import os
import re
import subprocess
import sys
from collections import defaultdict
from pathlib import Path

V = Path(__file__).resolve().parent.parent
sys.path.insert(0, str(V))
from harness import core, tlc  # noqa: E402

KEEP = Path("/tmp/verif_clausecov_traces")
CHECKS = ["C01", "C03", "C04", "C05", "C06", "C07", "C08", "C09", "C10", "C11", "C12", "C13", "C14", "C15", "C16", "C17", "C18", "C19", "C20",
          "C02", "G01", "G02", "G03", "G04", "G06"]
MAX_SCN_PER_KIND = 5
MAX_LEAVES_PER_SCN = 240


def collect():
    if KEEP.exists():
        for f in KEEP.iterdir():
            f.unlink()
    env = dict(os.environ, VERIF_SAVE_TRACES=str(KEEP), VERIF_EVIDENCE_DIR="/tmp/verif_clausecov_evidence")
    for c in CHECKS:
        p = subprocess.run([str(V / "check"), c, "--tier", "quick"], cwd=V, env=env, capture_output=True, text=True)
        print(c, p.stdout.strip().splitlines()[-1][:120] if p.stdout.strip() else p.stderr[-200:], flush=True)


def leaves(o, path=()):
    """(path, kind) of corruptible leaves: bools, ints, lists of ints."""
    if isinstance(o, bool):
        yield path, "bool"
    elif isinstance(o, int):
        yield path, "int"
    elif isinstance(o, list):
        if o and all(isinstance(x, int) and not isinstance(x, bool) for x in o):
            yield path, "ints"
        else:
            for i, x in enumerate(o[:6]):
                yield from leaves(x, path + (i,))
            if len(o) > 1:
                yield path, "droplast"
    elif isinstance(o, dict):
        for k, v in o.items():
            if k in ("tid", "i", "ev", "b"):
                continue
            yield from leaves(v, path + (k,))


def get(o, path):
    for k in path:
        o = o[k]
    return o


def put(o, path, v):
    for k in path[:-1]:
        o = o[k]
    o[path[-1]] = v


def corrupt(ev, path, kind):
    e = copy.deepcopy(ev)
    cur = get(e, path)
    if kind == "bool":
        put(e, path, not cur)
        return [("flip", e)]
    if kind == "int":
        put(e, path, cur + 1)
        return [("+1", e)]
    if kind == "ints":
        a = copy.deepcopy(e)
        put(a, path, [cur[0] + 1] + cur[1:])
        b = copy.deepcopy(e)
        put(b, path, cur[:-1])
        return [("first+1", a), ("droplast", b)]
    if kind == "droplast":
        put(e, path, cur[:-1])
        return [("droplast", e)]
    return []


def scenarios(events):
    by = defaultdict(list)
    for e in events:
        by[e["tid"]].append(e)
    return list(by.values())


def run_batch(module, cfg, batch):
    """batch: list of (label, events) -> {tid: (label, clause|ok)}"""
    d = Path("/tmp/verif_clausecov_run")
    d.mkdir(exist_ok=True)
    f = d / f"{module}.ndjson"
    meta = {}
    with open(f, "w") as fh:
        for tid, (label, evs) in enumerate(batch, 1):
            meta[tid] = label
            for e in evs:
                fh.write(json.dumps(dict(e, tid=tid), separators=(",", ":")) + "\n")
    # Begin events of some modules carry their own line number
    lines = [json.loads(x) for x in open(f)]
    if any("b" in e for e in lines):
        with open(f, "w") as fh:
            for n, e in enumerate(lines):
                if e.get("ev") == "Begin" and "b" in e:
                    e["b"] = n + 1
                fh.write(json.dumps(e, separators=(",", ":")) + "\n")
    r = tlc.run_tlc(module, cfg, workers=1, env={"TRACE_FILE": str(f)}, timeout=3000, java_opts=["-Xmx8g"])
    if not r.ok:
        return None, "\n".join(r.out.splitlines()[-15:])
    bad = r.tagged("BAD")[0]
    out = {tid: (label, "ok") for tid, label in meta.items()}
    for b in bad:
        out[b["tid"]] = (meta[b["tid"]], b["clause"])
    return out, ""


def corrupt_all():
    files = sorted(KEEP.glob("*.ndjson"))
    per_module = defaultdict(list)
    for f in files:
        m = re.match(r"([CG]\d\d)_(\w+?_Trace)_(\w+\.cfg)_\d+\.ndjson", f.name)
        if m:
            per_module[(m.group(2), m.group(3))].append((m.group(1), f))
    report = {}
    for (module, cfg), fl in sorted(per_module.items()):
        chosen = defaultdict(list)   # kind signature -> scenarios
        for pid, f in fl:
            events = [json.loads(x) for x in open(f)]
            for scn in scenarios(events):
                sig = (pid,) + tuple(sorted({e["ev"] for e in scn}))
                if sum(len(json.dumps(e)) for e in scn) >= 60000:
                    scn = scn[:260]   # one very long history (C18): its first events (references, then the first executions)
                if len(chosen[sig]) < MAX_SCN_PER_KIND and sum(len(json.dumps(e)) for e in scn) < 400000:
                    chosen[sig].append(scn)
        batch = []
        for sig, scns in chosen.items():
            for scn in scns:
                batch.append((("genuine", sig[0], "-", "-"), scn))
                n = 0
                for idx, ev in enumerate(scn):
                    for path, kind in leaves(ev):
                        for how, ce in corrupt(ev, path, kind):
                            n += 1
                            if n > MAX_LEAVES_PER_SCN:
                                break
                            batch.append((("corrupt", sig[0], f"{ev['ev']}." + ".".join(str(p) for p in path), how), scn[:idx] + [ce] + scn[idx + 1:]))
        # TLC may stop on an evaluation error caused by an ill-typed corruption: bisect the batch in chunks
        results = {}
        pending = [batch[i:i + 400] for i in range(0, len(batch), 400)]
        skipped = 0
        while pending:
            chunk = pending.pop()
            out, err = run_batch(module, cfg, chunk)
            if out is None:
                if len(chunk) == 1:
                    skipped += 1
                    continue
                h = len(chunk) // 2
                pending += [chunk[:h], chunk[h:]]
                continue
            for label, clause in out.values():
                results.setdefault(label, clause)
        clauses = defaultdict(list)
        genuine_bad = []
        for label, clause in results.items():
            if label[0] == "genuine":
                if clause != "ok":
                    genuine_bad.append((label, clause))
                continue
            clauses[clause].append(f"{label[1]}:{label[2]}({label[3]})")
        report[module] = {"scenarios_taken": sum(len(v) for v in chosen.values()), "corruptions": sum(1 for k in results if k[0] == "corrupt"),
                          "ill_typed_skipped": skipped, "accepted": len(clauses.get("ok", [])),
                          "genuine_rejected": [list(map(str, g)) for g in genuine_bad],
                          "clauses_fired": {c: sorted(set(v))[:4] + ([f"... {len(set(v))} in all"] if len(set(v)) > 4 else []) for c, v in sorted(clauses.items()) if c != "ok"}}
        print(f"{module}: {report[module]['corruptions']} corruptions, {len(report[module]['clauses_fired'])} clauses fired, "
              f"{report[module]['accepted']} accepted, {skipped} ill-typed, genuine rejected: {len(genuine_bad)}", flush=True)
    # clauses named in the specifications of each trace module's judges that no corruption reached
    out = V / "evidence" / "growth" / "clause_coverage.json"
    out.parent.mkdir(parents=True, exist_ok=True)
    json.dump(report, open(out, "w"), indent=1)
    print("written", out)


if __name__ == "__main__":
    (collect if sys.argv[1:] == ["collect"] else corrupt_all)()
