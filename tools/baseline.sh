#!/bin/bash
# Run the pinned baseline suite of a suit-generator tree (default /repo) and compare with /root/.vp/BASELINE.json.
# usage: tools/baseline.sh [repo_dir]
R=${1:-/repo}
OUT=$(mktemp /tmp/junit.XXXXXX.xml)
cd "$R" && env -u SUIT_GENERATOR_VERIF /venv/bin/python -m pytest -ra -q -p no:cacheprovider --timeout=900 --continue-on-collection-errors --junitxml=$OUT >/dev/null 2>&1
/venv/bin/python - "$OUT" <<'PY'
import sys,json,xml.etree.ElementTree as ET
b=json.load(open('/root/.vp/BASELINE.json'))
stable=set(b['stable_pass'])
t=ET.parse(sys.argv[1])
passed=set()
allc=0
for tc in t.iter('testcase'):
    allc+=1
    name=tc.get('classname')+'::'+tc.get('name')
    if not any(c.tag in ('failure','error','skipped') for c in tc):
        passed.add(name)
missing=sorted(stable-passed)
print(f"cases={allc} passed={len(passed)} stable={len(stable)} stable_missing={len(missing)}")
for m in missing[:20]: print("  MISSING",m)
sys.exit(1 if missing else 0)
PY
rc=$?
rm -f $OUT
exit $rc
