#!/bin/bash
# Run one check against a stored seeded change without the baseline / demo steps: tools/seed_try.sh <seed-id> <check args...>
ID=$1; shift
S=/verif/seeded/$ID
F=$(mktemp -d /tmp/seedtry_XXXX); rmdir $F
git -C /repo worktree add --detach -q $F HEAD || exit 3
git -C $F apply $S/patch.diff || { echo "PATCH DOES NOT APPLY"; git -C /repo worktree remove --force $F; exit 3; }
OUT=$(cd /verif && VERIF_REPO=$F "$@" 2>&1 | grep -v conda)
echo "$OUT" | grep -E "violation|HELD|MACHINERY|VIOLATION|Error|Traceback" | cut -c1-400 | head -8
git -C /repo worktree remove --force $F
