#!/usr/bin/env python3
"""Regenerate /verif/MANIFEST.json from the table below (single place where claims are recorded)."""
import json, os
V = os.path.dirname(os.path.dirname(os.path.abspath(__file__)))
props = [json.loads(l) for l in open(os.path.join(V, "properties.jsonl"))]

BASE = "cd /repo && /venv/bin/python -m pytest -ra -q -p no:cacheprovider --timeout=900 --continue-on-collection-errors"

# what the seeded rounds 2-4 added to each check (DESIGN.md 11.2), appended to the claim text
EXTRA = {
 "C13": "Kconfig file forms vary (comments incl. commented-out assignments, CRLF, no final newline); white-space-bounded, empty and blank names also go through the command line. Name pairs whose concatenations coincide (under '.', '', blank, '/', ':', '-', '_', ',' in either order) in one process. Every fourth envelope also lists another installed manifest among its components; one name under two namespaces.",
 "C08": "Every name is also placed after / before a valid entry of its space (4815 scenarios), commands next to another command of their class. The parse side is judged too: the same content under 17 tag numbers x every head width (ParseTagJudge).",
 "C01": "Generated descriptions vary the order of envelope members; a description the tree under test refuses is skipped and counted, never a crash. Supplied wrong digests are written in all three notations of the language (hex, raw, file_direct); the wrapped manifest and the wrapped severed text are padded to hash / buffer block sizes (128 .. 8192) as well as to CBOR head boundaries.",
 "C02": "Wire_MC also enumerates 48 union-typed atoms (hex texts that are valid under BOTH alternatives of suit-parameter-content / suit-cose-key-id); the grammar stream shuffles the envelope members. Histories of inline dependency descriptions in one process (fresh objects and one kept object that is changed and created again) are judged compositionally.",
 "C03": "The grammar stream (0..4 authentication blocks, shuffled envelope members) and generated shapes with varied member order are round-tripped too; the names-the-content conjunct compares in a canonical order of envelope members. Hierarchies with ONE dependency name in sibling branches (different envelopes) go through all four format / hierarchy combinations.",
 "C04": "A recursive stream (omit patterns x algorithms) and a session stream (ONE Signer object across calls that name different KMS contexts holding the same key names) are judged by the same clauses. Key names <key>.<generation> stored beside <key> are part of the key-id stream. Every third single-operation scenario finds an earlier valid signing of the same input at its output path.",
 "C05": "Every third description is created again in the same process after all its files got other contents at the same paths; digests and file contents whose first / last byte is NUL, whitespace or 0xFF are found by search for every algorithm and form. Path dependencies are also stored in a non-canonical but valid encoding and named through symbolic links; file sizes include hash / buffer block sizes. Declared sizes beyond 2^53 (up to 2^64 - 1) in the file_direct and raw forms.",
 "C06": "Encrypt_MC carries the Encryptor session (object lifetime, KMS context bound at initialisation, key named by (context, name)); its histories are replayed into real Encryptor objects; runs into an output directory that still holds the previous artifacts are judged as well. Blobs, wrapped keys and firmware made of characters only (hex digits, digits, base64); output directories with braces, per-cent signs, blanks, shell characters. Fourteen spellings of --key-id (binary, octal, underscores, upper-case prefixes) on the command line of both sub-commands.",
 "C07": "Three entry points (library, image boot, ncs/build.py storage --soc); every fourth scenario starts with the output files already present (stale-output history). The output directory's name varies over braces, per-cent signs, blanks, shell and pattern characters.",
 "C09": "Resolve.tla states how sign-script, kms-script, context, algorithm and action are resolved per node (own > inherited > NCS_SUIT_* > ZEPHYR_BASE); Resolve_MC checks the precedence invariants and its 15 552 (own settings x environment) scenarios are replayed with logging plug-in sign scripts (the call RecursiveSigner makes for a node carries every resolved setting). Every second pre-signed node carries its COSE_Sign1 tag in the two-byte form another encoder may write.",
 "C10": "The CLI stream includes from_envelope with 0..3 adjacent dependency envelopes, payloads with edge bytes at both ends and pre-existing output files. The library entry point is called repeatedly in one process over rewritten files and over one relative name in two directories; inputs are named through links. URIs with 2-, 3- and 4-byte UTF-8 characters whose byte lengths straddle the head widths (objects, from_payloads, merge).",
 "C11": "Payloads with edge bytes at both ends; every fourth run starts with the output files already present. Payload names that spell the integer label of another member (2, 3, 20, 23). One payload of every size 0..70 at erase blocks 32 and 64 (first-slot residues beyond the short padding headers).",
 "C12": "Every fifth run starts with the output file already present (a refusal must not pass for an output). The stale-output history also leaves valid files of an earlier invocation with the same content at another address; MPI areas at address 0. --size in hexadecimal with every letter as last digit, in both cases, on the real command line (generate and merge).",
 "C14": "Histories also run through cmd_encrypt.main and real CLI processes writing runs of identical firmware into ONE output directory. Also zero-length firmware and workers forked after the library was loaded.",
 "C15": "The key is drawn by the tool, so the key space is reached by volume (DER x200 / x4000 pairs per type, special tails counted in the evidence); convert scenarios cover rows that end at / around the end of every key length and the remaining layout options (array type, length type with cast, header and footer file). Output prefixes with dots; pre-existing key files longer than any key. One KeyConverter object used repeatedly (preview, write, write again). A valid earlier pair stands at the prefix of every request that is refused at the public key.",
 "C16": "The CLI stream passes the partition address in decimal; every fourth scenario starts with both output files already present. The directory of the output files carries braces, per-cent signs, blanks, shell characters. Contents with long runs of 0xFF / 0x00 and all-0xFF files; output files named absolute / relative / ./relative.",
 "C17": "CutHead(node, major type, width, present bytes) puts heads with a cut-short length field in place of every node (inside bstr wrappers: well-formed outside, cut short inside) and as whole inputs; the parent process enforces the per-input watchdog (10 s, kill, fresh worker). Further replacement kinds (maps without key 0, simple values, undefined) and chains of 10..800 nested dependency envelopes. 25 stress strings at every text node of every base envelope; CBOR shared references (tags 28 / 29) of 4..400 levels at six positions (genuine defect F11, fixed). Shared-reference inputs also with two- and eight-byte tag heads.",
 "C18": "The alphabet has grown to 35 operations (Determinism_MC2: every remaining command, most with two different inputs of one kind; inline dependencies reading a file that changes, permuted entries, relative paths with the directory in the key; hierarchical YAML parse of two hierarchies). Operations on ONE kept signer object (skip on a signed envelope, sign, sign another) are in the extended alphabet. failretry: a description object that survives a failed create.",
 "C19": "Every second configuration is built in ONE shared artifacts folder with the children regenerated under the same names; a share is rendered through the ncs/build.py template command line (Kconfig + VERSION files). Punctuated custom MPI names (& < > ') and an artifacts folder whose path carries such characters.",
 "C20": "A share of the VERSION files goes through ncs/build.py template --version_file. The corners of the tuple space (all zero with / without tweak line, ...) are enumerated first; VERSION file forms vary. VERSION files with exactly one of the two explicit overrides.",
}

# id -> dict(level, text, note, technique, design_ref, engine)
CLAIMS = {
 "C02": dict(
  level="model_checking",
  text="Wire.tla is an executable reference semantics of the description language written from the CDDL of the SUIT drafts and "
       "RFC 9052 (second translator): Wire(desc) yields the bytes, with the digests the tool must compute as holes that name "
       "exactly which wrapped bytes are hashed. Wire_MC checks the encoder itself at every CBOR width boundary on limbs "
       "(shortest heads, injective policy bitfield) and enumerates all 419 registry atoms (22 commands x argument shapes, 14 "
       "parameters x variants, algorithms, policy subsets, comparators, text keys, integer/length boundaries up to 2^64-1); "
       "every atom in a minimal envelope, seeded descriptions over the whole grammar (nesting, recipients, member order), the "
       "repository example and the generator shapes of the other checks are created by the real tool and TLC compares "
       "byte for byte (MatchJudge), holes against hashlib over the actual spans.",
  note="Trusted: TLC, the author's transcription of the CDDL (validated on the repository's example and all generator shapes "
       "before use), hashlib, own CBOR reader. Excluded forms (F7a): unsevered text map in the manifest, suit-delegation; version "
       "strings (C20), file/envelope sugar (C05) are resolved or skipped. Known finding O1 (CWT payload emitted as a bare map) is "
       "pinned in known_findings.json.",
  technique="TLA+ reference encoder (Wire.tla) as second translator + TLC enumeration of all registry atoms and boundary values + TLC byte-for-byte comparison (trace validation) of the real create output",
  design_ref="DESIGN.md 4.1-4.3, 5 (C02)", engine="tlc"),
 "C03": dict(
  level="model_checking",
  text="Tool_MC explores the artifact store under all command sequences (sign, sign remove-old, extract, cache, sever, round "
       "trip) up to length 3 with RoundTripIsIdentity, DigestBindsManifest, BlocksOverDigest and ManifestProvenance in every "
       "reachable store; the sequences are replayed on real envelopes and at every intermediate artifact the real parse -> "
       "{yaml, json} x {+-hierarchy} -> create round trip runs through files (library + CLI); both envelopes are projected "
       "and TLC judges Same (manifest, wrapper incl. every block, severed members byte-identical; same SET of integrated "
       "members) and CreatedJudge on the re-created envelope. The second conjunct (the shown description names exactly the "
       "content) is judged by re-encoding the PARSED description with the reference encoder Wire.tla (see C02) where that "
       "encoder applies.",
  note="Known finding F4 (lossy union decoding of raw byte strings that decode as CBOR int/tstr) is pinned by one "
       "representative per site in known_findings.json and excluded from the random stream. Order of text-keyed members is "
       "not compared (the property says 'set').",
  technique="TLA+ spec (Tool_MC.tla, Extract.tla SameJudge) + TLC exhaustive command-sequence model + sequences replayed on real envelopes with real parse/create round trips + TLC trace validation",
  design_ref="DESIGN.md 4.4, 5 (C03)", engine="tlc"),
 "C17": dict(
  level="exploration",
  text="Parser.tla contributes the mutation machine (Replace(node, kind) for every node of the item tree x 20 CBOR kinds, "
       "Truncate at every byte, Inflate(node, 2^8/16/32/63 - 1), Nest(node, 10..1100)) whose behaviours TLC enumerates "
       "exhaustively for one mutation and samples (TLC -simulate) for sequences of three, and the only judgement the property "
       "makes: outcome class in {model, ValueError, SUITError} and CPU / peak-RSS budgets. Every mutant of three base "
       "envelopes (flat, hierarchical, signed) plus seeded byte edits is fed to the real parser in disposable workers; Parse "
       "events are judged by TLC. Exploration level: this family cannot quantify over all byte strings and the resource "
       "clause is a measurement.",
  note="Budgets: 5 s CPU, 256 MiB RSS growth for inputs <= 64 KiB. Accept vs reject is deliberately not predicted. Needs fix "
       "F5 (2a526e7).",
  technique="TLA+ mutation machine (Parser_MC) enumerated/simulated by TLC + replay of every mutant into the real parser + TLC trace validation of outcome class and budgets",
  design_ref="DESIGN.md 4.14, 5 (C17)", engine="tlc"),
 "C18": dict(
  level="model_checking",
  text="Determinism.tla defines the INPUTS of every operation (operation + versions of the files it reads; not history, order, "
       "hash seed, working directory or text format) as a key; Determinism_MC enumerates all 5733 schedules of length 4 over "
       "the operation alphabet with environment steps (new content at the same path, chdir) and checks that equal keys mean "
       "equal inputs. The schedules are executed back to back in one real interpreter per PYTHONHASHSEED in {0, 1, 12345, "
       "random}; every distinct key is executed in fresh interpreters; Ref / Exec events are judged by TLC: out = ref[key], "
       "with signature value and IV/ciphertext erased for sign / encrypt.",
  note="Trusted: TLC, the projection that erases signature/IV, sha256 interning. Quick tier samples 40 schedules per seed.",
  technique="TLA+ spec (Determinism.tla, Determinism_MC.tla) + TLC enumeration of all bounded schedules replayed in one real interpreter + TLC trace validation against fresh-interpreter references",
  design_ref="DESIGN.md 4.14, 5 (C18)", engine="tlc"),
 "C19": dict(
  level="model_checking",
  text="Processor.tla is a device-side step machine over SUIT commands stating IndexDeclared, "
       "DependenciesAreManifestComponents, FetchResolves, ParentDigestEqualsChildManifestDigest and "
       "InstalledClassIdsAreConfiguredNames. Template_MC models the root template's index bookkeeping for every non-empty "
       "image subset and checks it against those judges; TLC enumerates the complete configuration space (42 root + 3 top "
       "configurations), each is rendered with the real Jinja template through ncs/build.py render_template, created by the "
       "real tool with generated child envelopes, flattened by the verifier's manifest walker into Header/Cmd events and "
       "judged by TLC.",
  note="Configuration space enumerated completely (exhaustive: true); child envelopes sampled. Trusted: TLC, own manifest "
       "walker, UUIDv5, hashlib. For {top only} the validate/invoke selections are empty (O5, vacuous).",
  technique="TLA+ spec (Processor.tla, Template_MC.tla) + TLC model checking of the template bookkeeping + complete TLC-enumerated configuration space replayed through real rendering/create + TLC trace validation",
  design_ref="DESIGN.md 4.13, 5 (C19)", engine="tlc"),
 "C05": dict(
  level="model_checking",
  text="Envelope.tla states the binding clauses (digest = hash under the named algorithm of exactly the named bytes; direct "
       "digests copied verbatim; size = length; integrated payload = the file; dependency embedded identically to its "
       "standalone creation; the parent's digest is over the same wrapped manifest the child's own wrapper digests). "
       "Envelope_MC checks ParentBindsChild over the parent/child member product (a stale child is a counterexample). "
       "TLC-enumerated parent/child combinations with stale supplied digests and the reference-form x algorithm x size product "
       "are created by the real tool; every image-digest/size parameter, text-keyed member and dependency is a Ref / Embed / "
       "ChildBind event judged by TLC.",
  note="Trusted: TLC, hashlib, own CBOR reader and manifest walker; the dependency created on its own by the real tool is the "
       "reference for 'embedded identically'. Names made only of hex digits are hex literals by the language's own rule (O2).",
  technique="TLA+ spec (Envelope.tla, Envelope_MC.tla) + TLC model checking + TLC-generated parent/child combinations replayed into real create + TLC trace validation",
  design_ref="DESIGN.md 4.4, 5 (C05)", engine="tlc"),
 "C08": dict(
  level="model_checking",
  text="Registry.tla holds the vocabulary as data (15 key spaces, 107 names, three tags) with injectivity ASSUMEs checked by "
       "TLC; TLC enumerates the complete finite space of 1605 (space, name) pairs; for each pair the driver encodes a "
       "single-entry object of the space's carrier type through the public API, reads the code with the verifier's own CBOR "
       "reader and decodes it back (Encode), or checks that a foreign name is rejected (Cross); tags 107/18/96. Judged by TLC.",
  note="Complete enumeration (exhaustive: true). The table was written from the drafts as known to the author and reviewed "
       "against keys.py by hand; pinned entries are marked in Registry.tla; it cannot be more right than that review.",
  technique="TLA+ registry specification with TLC-checked injectivity + complete TLC enumeration replayed into the real encoder/decoder + TLC trace validation",
  design_ref="DESIGN.md 4.2, 5 (C08)", engine="tlc"),
 "C15": dict(
  level="model_checking",
  text="Keys.tla states KeysJudge (support table; files of the requested type and encoding that belong together) and "
       "ConvertJudge (array = fixed-width X||Y / raw key, length variable = sizeof(array), layout options do not change the "
       "literals); the spec pads coordinates that the harness supplies as minimal big-endian bytes. Keys_MC enumerates the "
       "whole scenario space (type x encoding x formats; type x leading-zero shape x layout options) and checks the fixed "
       "width of the specified array; every emitted scenario is replayed into the real keys/convert, with keys SEARCHED to "
       "have 0..2 leading zero bytes in X / Y; events are judged by TLC.",
  note="Trusted: TLC, cryptography loaders/sign/verify. Needs fixes F2 (7b1c28e), F3 (bca0220).",
  technique="TLA+ spec (Keys.tla) + TLC enumeration of the scenario space + replay into real keys/convert with searched key shapes + TLC trace validation",
  design_ref="DESIGN.md 4.14, 5 (C15)", engine="tlc"),
 "C06": dict(
  level="model_checking",
  text="Encrypt.tla states the artifact relation with a symbolic AEAD (info shape: bstr-wrapped tag-96 COSE_Encrypt, "
       "AES-GCM-256, one direct recipient, wrapped key id; published IV + Enc_structure of the published header decrypt to "
       "the firmware; digest and size describe the plaintext; create accepts the info unchanged; generate-info splits the "
       "blob without altering a byte). Encrypt_MC checks the design (a stale AAD literal or a published IV other than the "
       "used one is a counterexample) and the byte-level split/join. Real encrypt-and-generate / generate-info runs (library "
       "+ CLI) over sizes x key-id widths x five digest algorithms are projected with independent primitives and judged by TLC.",
  note="Trusted: TLC, own CBOR reader, cryptography AES-GCM decryption, hashlib. AES-KW is 'not supported yet' in the tool and "
       "outside the property.",
  technique="TLA+ spec (Encrypt.tla, Encrypt_MC.tla) + TLC model checking (symbolic AEAD) + TLC trace validation of real encrypt artifacts",
  design_ref="DESIGN.md 4.12, 5 (C06)", engine="tlc"),
 "C14": dict(
  level="model_checking",
  text="Encrypt_MC shows IV distinctness per key holds exactly under the fresh-generator assumption and that the published "
       "IV must be the used one; conformance is trace validation of histories: thousands of real encryptions with one key "
       "(same/different plaintext, one reused Encryptor, fresh objects, fresh interpreter processes), each an Iv event "
       "(IV interned in order of first appearance; independent decryption with the published IV) judged by TLC.",
  note="Detects structural reuse (constant / plaintext-derived / per-object or per-process counter), not a weak RNG.",
  technique="TLA+ spec (Encrypt.tla FreshJudge, Encrypt_MC.tla) + TLC model checking + TLC trace validation of multi-process encryption histories",
  design_ref="DESIGN.md 4.12, 5 (C14)", engine="tlc"),
 "C20": dict(
  level="model_checking",
  text="Version.tla defines Conv, SemLess (the property's precedence) and zero-padded ListLess; TLC checks the order "
       "embedding SemLess <=> ListLess(Conv, Conv) for all 152100 pairs of the bounded domain (1..3 fields x labels x "
       "pre-release numbers), Apalache proves it for unbounded field values at fixed shape and proves strict monotonicity of "
       "(M<<24)+(m<<16)+(p<<8)+t for m,p,t < 256. Every domain version (emitted by TLC) and seeded versions with fields up to "
       "300 go through the real converter; Conv/Order/Reject/Seq/SeqOrder/Default events are judged by TLC.",
  note="Trusted: TLC, Apalache. Pairs with different field counts where the shorter has a label are outside 'coincides' (O3).",
  technique="TLA+ spec (Version.tla) + TLC all-pairs model checking + Apalache unbounded arithmetic + TLC-emitted domain replayed into the real converter + TLC trace validation",
  design_ref="DESIGN.md 4.14, 5 (C20)", engine="tlc"),
 "C07": dict(
  level="model_checking",
  text="Storage.tla pins the slot layout of both SoCs (SlotsDisjoint ASSUMEd and checked) and builds the expected image: "
       "slot = {0:1, 1:class-ID offset, 2:bstr envelope} padded with 0xFF, stored envelope = the input's non-severable "
       "integer-keyed members with their original bytes. Storage_MC checks the add/reject/write pipeline over role subsets "
       "x 2 SoCs x one fault of each kind at any position (no file unless all accepted; files hold only own roles). "
       "TLC-enumerated role lists are concretised (real create, some signed, default and Kconfig assignments, several base "
       "addresses) and run through the real image boot; every domain hex file is judged record by record by TLC through "
       "the HEX reader machine; the recorded class-ID offset must point at the manifest's class UUID.",
  note="Trusted: TLC, own hex tokenizer and CBOR reader, the pinned layout tables. Component ids use the NCS form "
       "['INSTLD_MFST', class UUID] (O9). nRF9280 only through the library entry point (image boot has no SoC switch; "
       "ncs/build.py storage needs a Zephyr devicetree pickle that is not available offline).",
  technique="TLA+ spec (Storage.tla, Hex.tla, Storage_MC.tla) + TLC model checking + TLC-generated role lists replayed into real image boot + TLC trace validation of hex output",
  design_ref="DESIGN.md 4.9, 4.10, 5 (C07)", engine="tlc"),
 "C13": dict(
  level="model_checking",
  text="Assign.tla states the identity triangle on terms (every 16-byte identifier found in the manifest from create, the "
       "MPI record and the boot slot is looked up among the UUIDv5 values the verifier computes) and the role-assignment "
       "rule (RoleOf, ConfigRejected). Assign_MC checks the storage-construction state machine over all 216 configurations "
       "of the three configurable roles against that rule; the configurations are replayed as Kconfig files into the real "
       "image boot with an envelope of each pair; names cover ASCII, non-ASCII, empty, 300 characters and Kconfig-hostile "
       "characters.",
  note="Trusted: own UUIDv5 (hashlib.sha1), own readers, TLC. Names containing \" or \\ only in an observation stream (O8).",
  technique="TLA+ spec (Assign.tla, Assign_MC.tla) + TLC exhaustive model checking + TLC-generated configurations replayed into real image boot/mpi/create + TLC trace validation",
  design_ref="DESIGN.md 4.10, 4.13, 5 (C13)", engine="tlc"),
 "C11": dict(
  level="model_checking",
  text="Extract.tla states conservation (every integrated payload of the input hierarchy in exactly one place with identical "
       "bytes, as selected by the two patterns; dependencies re-embedded under the same name; every other member "
       "byte-identical; duplicate URI / non-envelope dependency => failure without output). Extract_MC checks an "
       "implementation-shaped from_envelope against CacheJudge and a directly stated Conservation invariant over every "
       "two-level hierarchy and pattern class; the TLC-enumerated hierarchies are built with the real create and run "
       "through the real cache_create from_envelope (library + CLI); seeded hierarchies to depth 3 and payload_extract "
       "with/without replacement and output file; every run is an Extract event judged by TLC.",
  note="Trusted: TLC, verifier's CBOR reader and cache walker, re.fullmatch as the meaning of a pattern. Needs fix F1 "
       "(27c7c27). A payload name that does not exist (O7) is outside the property.",
  technique="TLA+ spec (Extract.tla, Extract_MC.tla) + TLC exhaustive model checking + TLC-generated hierarchies replayed into real cache_create/payload_extract + TLC trace validation",
  design_ref="DESIGN.md 4.7, 5 (C11)", engine="tlc"),
 "C04": dict(
  level="model_checking",
  text="Envelope.tla states SignJudge (exactly one block appended, every other element byte-identical, block verifies under "
       "the matching key over the envelope's digest, protected header {alg, wrapped key id}, fixed-width ECDSA). Sign_MC "
       "checks an implementation-shaped sign_envelope against it over all bounded operation sequences; TLC-emitted "
       "sequences are replayed with real keys into the real sign single-level (library + CLI); every output is projected "
       "(own CBOR reader, public-key verification over the rebuilt Sig_structure) and judged by TLC; >= 300 (quick) / 3000 "
       "(thorough) raw KMS signatures per curve are judged for fixed width.",
  note="Trusted: TLC, verifier's CBOR reader, cryptography/pycryptodome for verification only. Needs fix F1 (27c7c27).",
  technique="TLA+ spec (Envelope.tla, Sign_MC.tla) + TLC model checking + TLC-generated operation sequences replayed into real sign + TLC trace validation",
  design_ref="DESIGN.md 4.5, 5 (C04)", engine="tlc"),
 "C09": dict(
  level="model_checking",
  text="Sign_MC (policy table over operation sequences) and Sign_RecMC (RecursiveSigner over a 3-level hierarchy, every "
       "assignment of the reduced per-node alphabet: omit, algorithm ok/mismatch, three actions, pre-signed, key missing, "
       "dependency absent / not an envelope) are checked exhaustively against SignJudge / RecursiveJudge; the TLC-enumerated "
       "configurations are concretised (real nested envelopes, keys, JSON configuration) and run through the real sign "
       "recursive; seeded deeper trees with inherited algorithms; every run is a Recursive event judged by TLC.",
  note="Trusted as C04. Refusal = no output file (exception class/message not judged). Needs fixes F1 (27c7c27), F6 (ab18fe9).",
  technique="TLA+ spec (Extract.tla RecursiveJudge, Sign_MC, Sign_RecMC) + TLC exhaustive model checking + TLC-generated configurations replayed into real sign recursive + TLC trace validation",
  design_ref="DESIGN.md 4.5, 5 (C09)", engine="tlc"),
 "C01": dict(
  level="model_checking",
  text="Envelope_MC models the create pipeline (from_obj; update_severable_digests; update_digest; to_cbor) with a "
       "dependency that must be refreshed before the parent hashes it; TLC checks I1 DigestBindsManifest, I2 SeveredBound, "
       "I3 SuppliedNeverSurvives, ParentBindsChild exhaustively over the member x mode x supplied-digest product (swapped "
       "steps / stale child are counterexamples). The TLC-enumerated combinations are concretised with all five algorithms "
       "cycled over every field and created by the real tool (library, CLI as YAML and JSON); every level of every output "
       "is projected with the verifier's own CBOR reader and hashlib reverse lookup and judged by TLC (Tool_Trace / "
       "Envelope.tla).",
  note="Trusted: TLC, the verifier's CBOR reader, hashlib, sha256 interning. suit-install-legacy (17) observed, not judged. "
       "Manifest lengths 23/24 are unreachable for any real manifest (> 60 bytes); 255/256 and 65535/65536 are exercised.",
  technique="TLA+ spec (Envelope.tla, Envelope_MC.tla) + TLC exhaustive model checking + TLC-generated combinations replayed into real create + TLC trace validation of projected envelopes",
  design_ref="DESIGN.md 4.4, 5 (C01)", engine="tlc"),
 "C12": dict(
  level="model_checking",
  text="Mpi.tla specifies the 48-byte record (policy table, reserved bytes, UUIDs, 0xFF fill) and the merged area "
       "(inputs at their original addresses, 0xFF elsewhere, digest appended, outside/overlap => reject). TLC checks the "
       "merge state machine exhaustively over all placements of <= 3 records around a small area and the policy table; the "
       "TLC-enumerated placements are scaled to real records and replayed into the real mpi generate/merge; every output "
       "hex file is judged record by record by TLC through the Intel-HEX reader machine (Hex.tla) against the image the "
       "spec builds.",
  note="Trusted: TLC, the verifier's hex tokenizer, hashlib (SHA-256 of the read-back area, believed only when TLC finds "
       "the area equal to the specified image), own UUIDv5. Sizes >= 48 as the property states.",
  technique="TLA+ spec (Mpi.tla, Hex.tla) + TLC exhaustive model checking + TLC-generated placements replayed + TLC trace validation of real hex output",
  design_ref="DESIGN.md 4.8, 4.9, 5 (C12)", engine="tlc"),
 "C16": dict(
  level="model_checking",
  text="Update.tla builds the update-candidate record and the partition image from the scenario parameters on 16-bit "
       "limbs; Hex.tla gives hex files their memory-image meaning. TLC checks a writer model against the reader machine "
       "across 64 KiB boundaries (faulty writers must be rejected), and validates every record of the files written by the "
       "real `image update` (library and CLI) over sizes, addresses up to 2^32 and cache counts 0..16.",
  note="Trusted: TLC, the verifier's hex tokenizer (checksums verified). address + size <= 2^32.",
  technique="TLA+ spec (Update.tla, Hex.tla) + TLC model checking of the HEX reader/writer + TLC trace validation of real hex output",
  design_ref="DESIGN.md 4.9, 4.11, 5 (C16)", engine="tlc"),
 "C10": dict(
  level="model_checking",
  text="Cache.tla specifies the partition at byte level (implementation layer with a CBOR walker) and at property level "
       "(permissive judges). TLC exhaustively checks the byte-level C10 invariants and Impl => Spec refinement on small "
       "constants, Apalache proves the padding arithmetic for all naturals, TLC-generated operation sequences are replayed "
       "into the real CachePartition object, and every execution of the real object/CLI (sweep over eb 1..512 and 2^k x all "
       "residues, URI widths, merges with duplicates) is validated by TLC against the permissive judges.",
  note="Trusted: TLC/Apalache, the verifier's own CBOR walker, sha256 interning. A refusal (ValueError) for padding above "
       "0xFFFF bytes is accepted. Bounded by the scenarios run.",
  technique="TLA+ spec (Cache.tla) + TLC exhaustive model checking + TLC-generated scenario replay + TLC trace validation of the real code; Apalache for unbounded padding arithmetic",
  design_ref="DESIGN.md 4.6, 5 (C10)", engine="tlc"),
}

REASON_TODO = "check not built yet (framework under construction); will be claimed once its TLA+ module and conformance harness exist"

checks = []
na = []
for p in props:
    i = p["id"]
    if i in CLAIMS:
        c = CLAIMS[i]
        checks.append({
            "property_id": i,
            "quick_cmd": f"./check {i} --tier quick",
            "thorough_cmd": f"./check {i} --tier thorough",
            "evidence_file": f"/verif/evidence/{i}.json",
            "replay_cmd_template": f"./check {i} --replay {{path}}",
            "engine": c.get("engine", "tlc"),
            "level_claimed": {"category": c["level"], "text": (c["text"] + " " + EXTRA.get(p["id"], "")).strip(), "design_ref": c["design_ref"]},
            "level_note": c["note"],
            "technique": c["technique"],
        })
    else:
        na.append({"property_id": i, "reason": REASON_TODO})

hooks_commits = []
try:
    import subprocess
    out = subprocess.run(["git", "-C", "/repo", "log", "--format=%H %s"], capture_output=True, text=True).stdout
    hooks_commits = [l.split()[0] for l in out.splitlines() if "verif hook" in l]
except Exception:
    pass

m = {
 "version": 1,
 "setup_cmd": "cd /verif && ./tools/setup.sh",
 "hooks": {
   "guard": "SUIT_GENERATOR_VERIF",
   "enable": "environment variable SUIT_GENERATOR_VERIF=1 set by the harness for in-process library calls (log_call fast path only); CLI subprocess runs and a sampled fraction of library runs execute with the guard off",
   "baseline_off_cmd": BASE,
   "source_commits": hooks_commits,
   "add_only": True,
 },
 "engines": [
   {"name": "tlc", "path": "/verif/spec", "serves_properties": sorted(CLAIMS), "kind_free_text": "TLA+ specifications checked with TLC 1.8 (exhaustive, simulation, trace validation); Apalache for unbounded arithmetic obligations; Python harness (harness/*.py) concretises scenarios, runs the real code and projects artifacts into trace events"},
 ],
 "checks": checks,
 "not_applicable": na,
 "notes": "Entry point ./check <ID> [--tier quick|thorough] [--seed N] [--replay FILE]; exit 2 = machinery failure. Known findings: /verif/known_findings.json. Design: /verif/DESIGN.md.",
}
json.dump(m, open(os.path.join(V, "MANIFEST.json"), "w"), indent=1)
print("claimed:", sorted(CLAIMS), "not_applicable:", len(na))
