#!/bin/bash
# Evaluate a sub-agent seeded change: tools/seed_eval.sh <worktree> <seed-id> <check args...>
# 1. the patch applies to a fresh worktree of /repo HEAD  2. baseline still passes  3. demo fails with / passes without
# 4. our check against the patched tree.  Stores patch/demo/meta under /verif/seeded/<seed-id>/.
WT=$1; ID=$2; shift 2
S=/verif/seeded/$ID; mkdir -p $S
cp $WT/patch.diff $WT/demo.py $WT/meta.json $S/ 2>/dev/null
F=$(mktemp -d /tmp/seedchk_XXXX); rmdir $F
git -C /repo worktree add --detach -q $F HEAD || exit 3
cp $S/demo.py $F/
( cd $F && /venv/bin/python demo.py >/tmp/demo_clean_$ID.out 2>&1 ); RC_CLEAN=$?
git -C $F apply $S/patch.diff || { echo "PATCH DOES NOT APPLY"; git -C /repo worktree remove --force $F; exit 3; }
( cd $F && /venv/bin/python demo.py >/tmp/demo_mut_$ID.out 2>&1 ); RC_MUT=$?
BASE=$(/verif/tools/baseline.sh $F 2>&1 | grep -v conda | tail -3)
echo "demo clean rc=$RC_CLEAN  demo mutant rc=$RC_MUT"
echo "baseline with patch: $BASE"
tail -2 /tmp/demo_mut_$ID.out
OUT=$(cd /verif && VERIF_REPO=$F "$@" 2>&1 | grep -v conda)
RC=$?
echo "$OUT" | grep -E "violation|HELD|MACHINERY|VIOLATION" | cut -c1-300 | head -6
echo "check exit: $(echo "$OUT" | grep -c '^VIOLATION') VIOLATION lines"
git -C /repo worktree remove --force $F
python3 - "$S" "$RC_CLEAN" "$RC_MUT" "$BASE" "$*" "$(echo "$OUT" | grep -c '^VIOLATION')" <<'PY'
import json,sys
s,rc0,rc1,base,cmd,nv=sys.argv[1:7]
m=json.load(open(s+'/meta.json'))
m['verified']={'demo_exit_unchanged':int(rc0),'demo_exit_with_change':int(rc1),'baseline_with_change':base.strip(),'check_cmd':cmd,'violation_lines':int(nv),'detected':int(nv)>0}
json.dump(m,open(s+'/meta.json','w'),indent=1)
PY
