#!/bin/bash
# Offline setup: nothing is fetched or installed; only syntax-check every specification with SANY.
cd /verif/spec || exit 1
rc=0
for f in *.tla; do
  case "$f" in *_Apa.tla) continue;; esac
  out=$(java -cp /opt/veriftools/tla/tla2tools.jar:/opt/veriftools/tla/CommunityModules-deps.jar tla2sany.SANY "$f" 2>&1)
  if echo "$out" | grep -q -E "\*\*\* Errors|Fatal errors|Could not"; then echo "SANY FAILED: $f"; echo "$out" | tail -5; rc=1; fi
done
[ $rc = 0 ] && echo "setup ok: $(ls *.tla | wc -l) modules parse"
exit $rc
