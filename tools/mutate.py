#!/usr/bin/env python3
"""Run a check against a mutated scratch worktree of /repo (never touches /repo or the committed evidence).

usage: tools/mutate.py [--baseline] (--patch FILE | --sub PATH OLD NEW)... -- ./check C10 --tier quick
"""
import os, subprocess, sys, tempfile, shutil

def main():
    a = sys.argv[1:]
    cmd = a[a.index("--") + 1:]
    a = a[:a.index("--")]
    wt = tempfile.mkdtemp(prefix="mutwt_")
    os.rmdir(wt)
    subprocess.run(["git", "-C", "/repo", "worktree", "add", "--detach", "-q", wt, "HEAD"], check=True)
    try:
        i = 0
        baseline = False
        while i < len(a):
            if a[i] == "--baseline":
                baseline = True; i += 1
            elif a[i] == "--patch":
                subprocess.run(["git", "-C", wt, "apply", os.path.abspath(a[i + 1])], check=True); i += 2
            elif a[i] == "--sub":
                path, old, new = a[i + 1:i + 4]
                s = open(os.path.join(wt, path)).read()
                if old not in s:
                    print("MUTATE: pattern not found:", old); return 3
                open(os.path.join(wt, path), "w").write(s.replace(old, new, 1)); i += 4
            else:
                print("bad arg", a[i]); return 3
        subprocess.run(["git", "-C", wt, "--no-pager", "diff", "--stat"])
        if baseline:
            rc = subprocess.run(["/verif/tools/baseline.sh", wt]).returncode
            print("MUTATE: baseline", "PASSES" if rc == 0 else "FAILS")
        e = dict(os.environ, VERIF_REPO=wt)
        rc = subprocess.run(cmd, env=e, cwd="/verif").returncode
        print("MUTATE: check exit", rc)
        return rc
    finally:
        subprocess.run(["git", "-C", "/repo", "worktree", "remove", "--force", wt])
        shutil.rmtree(wt, ignore_errors=True)

sys.exit(main())
