"""G02 (growth, DESIGN.md 4.16) - envelope API accessors agree with the independent reader; simplified file form round trip."""
from __future__ import annotations

import json

from . import cborx, core, envgen, project, seqwalk, signrun, toolrun
from .wiredesc import limbs

LEVEL = "model_checking"


def run(ctx: core.Check):
    ctx.cov["rule"] = "generated envelopes (flat, hierarchical, signed) x accessor; simplified load/dump round trip"
    core.setup_repo_path()
    from suit_generator.envelope import SuitEnvelope

    d = ctx.tmp("g02")
    keys = signrun.Keys(d / "keys")
    tr = toolrun.Trace()
    for k in range(60 if ctx.quick else 1500):
        sh = envgen.random_shape(ctx.rng, maxdepth=1)
        if isinstance(sh.get("version"), str):
            sh["version"] = [1, 0, 0, -1, 2]
        data = toolrun.create_lib(envgen.Builder(d / f"e{k}").desc(sh, toolrun.create_lib))
        p = d / f"e{k}.suit"
        p.write_bytes(data)
        if k % 3 == 0:
            q = d / f"e{k}s.suit"
            if signrun.sign_single(p, q, keys, "ked", 5 + k, "eddsa", "error") is None and q.exists():
                p, data = q, q.read_bytes()
        env = SuitEnvelope()
        env.load(str(p), "suit")
        e = project.Env(data)
        m = e.manifest
        cid = m.get(5)
        ver = m.get(6)
        want_version = [x.val for x in seqwalk.unwrap(ver).val] if ver is not None else []
        gv = env.current_version
        tr.begin({"shape": sh, "signed": k % 3 == 0})
        tr.ev("Api", gotSeq=limbs(env.sequence_number)["l"], wantSeq=limbs(m.get(2).val)["l"], gotVer=env.manifest_version,
              wantVer=m.get(1).val, gotAlg=env.digest_algorithm, wantAlgCode=e.alg,
              gotDigest=tr.terms.id(bytes.fromhex(env.digest_bytes)), wantDigest=tr.terms.id(e.digest),
              gotHasCid=env.manifest_component_id is not None, wantHasCid=cid is not None,
              gotHasVersion=gv is not None, wantHasVersion=ver is not None, gotVersion=list(gv or []), wantVersion=want_version)
        ok, out = True, b""
        try:
            s2 = SuitEnvelope()
            s2.load(str(p), "suit_simplified")
            s2.dump(str(d / f"e{k}_simpl.suit"), "suit_simplified")
            out = (d / f"e{k}_simpl.suit").read_bytes()
        except Exception:
            ok = False
        tr.ev("Simplified", ok=ok, inp=tr.terms.id(data), out=tr.terms.id(out))
        ctx.count("evaluations", 2)
        ctx.nontriv(json.dumps(sh, sort_keys=True))
        if k == 0:
            ctx.sample({"events": tr.of(tr.tid)[1:]})
    toolrun.report(ctx, tr, module="Api_Trace", label="api", cap=5)
    ctx.cov["states"] = max(ctx.cov["states"], 1)
    ctx.cov["transitions"] = max(ctx.cov["transitions"], 1)


def replay(ctx, rec):
    run(ctx)
