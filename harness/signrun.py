"""Shared pieces of the signing checks (C04, C09): key registry and real `sign` execution."""
from __future__ import annotations

import json
import subprocess
from pathlib import Path

from . import core, sigverify as sv

KEYSET = {"kp256": "p256", "kp384": "p384", "kp521": "p521", "ked": "ed25519", "ked448": "ed448", "kp256b": "p256",
          "kedb": "ed25519",
          # a key name is the whole name: rotated keys named <key>.<generation> live next to <key> (another key of the same type)
          "kp256.gen2": "p256", "ked.v2": "ed25519"}
MODEL_KEY = {"kp256": "kp256", "kp384": "kp384", "kp521": "kp521", "ked": "ked"}


class Keys:
    """Key files in a directory (the file-based KMS context) + public halves for verification."""

    def __init__(self, d: Path):
        self.dir = Path(d)
        self.dir.mkdir(parents=True, exist_ok=True)
        self.pub = {}
        for n, (name, kind) in enumerate(KEYSET.items()):
            k = sv.gen_private(kind)
            if n % 3 == 2 and "." not in name:
                (self.dir / f"{name}.der").write_bytes(sv.der(k))
            else:
                (self.dir / f"{name}.pem").write_bytes(sv.pem(k))
            self.pub[name] = (kind, k.public_key())

    def kind(self, name):
        return self.pub[name][0]


def sign_scripts():
    return str(core.REPO / "ncs" / "sign_script.py"), str(core.REPO / "ncs" / "basic_kms.py")


def sign_single(inp: Path, out: Path, keys: Keys, key: str, kid: int, alg: str, action: str, via="lib", stale=None):
    """Run the real `sign single-level`.  Returns error text or None.
    stale = (key, kid, alg): the output path already holds what an EARLIER run of the tool wrote for the same input with another
    key / key id (a build directory after a key rotation); an output that is still that file afterwards was not written."""
    ss, kms = sign_scripts()
    if out.exists():
        out.unlink()
    if stale is not None:
        if sign_single(inp, out, keys, stale[0], stale[1], stale[2], "remove-old", via="lib") is None and out.exists():
            old = out.read_bytes()
            err = sign_single_keep(inp, out, keys, key, kid, alg, action, via)
            if out.exists() and out.read_bytes() == old:
                out.unlink()
                return err or "the output file still holds the earlier run's envelope"
            return err
        if out.exists():
            out.unlink()
    return sign_single_keep(inp, out, keys, key, kid, alg, action, via)


def sign_single_keep(inp: Path, out: Path, keys: Keys, key: str, kid: int, alg: str, action: str, via="lib"):
    ss, kms = sign_scripts()
    if via == "cli":
        p = subprocess.run(core.cli_cmd("sign", "single-level", "--input-envelope", inp, "--output-envelope", out,
                                        "--key-name", key, "--key-id", core.num(kid), "--alg", alg, "--context",
                                        keys.dir, "--sign-script", ss, "--kms-script", kms,
                                        "--already-signed-action", action),
                           cwd=out.parent, env=core.cli_env(), capture_output=True, text=True)
        return None if p.returncode == 0 else (p.stderr[-300:] or "exit %d" % p.returncode)
    core.setup_repo_path()
    from suit_generator import cmd_sign
    from suit_generator.suit_sign_script_base import SignatureAlreadyPresentActions, SuitSignAlgorithms

    try:
        cmd_sign.main(sign_subcommand="single-level", input_envelope=inp, output_envelope=out, key_name=key,
                      key_id=kid, alg=SuitSignAlgorithms(alg), context=str(keys.dir), sign_script=ss, kms_script=kms,
                      already_signed_action=SignatureAlreadyPresentActions(action))
    except BaseException as e:  # SignerError, ValueError, ...: a refusal; the output file decides
        if isinstance(e, (KeyboardInterrupt, SystemExit, MemoryError)):
            raise
        return repr(e)
    return None


def sign_recursive(inp: Path, out: Path, cfg: dict, via="lib"):
    if out.exists():
        out.unlink()
    cfile = out.parent / (out.stem + "_cfg.json")
    cfile.write_text(json.dumps(cfg))
    if via == "cli":
        p = subprocess.run(core.cli_cmd("sign", "recursive", "--input-envelope", inp, "--output-envelope", out,
                                        "--configuration", cfile),
                           cwd=out.parent, env=core.cli_env(), capture_output=True, text=True)
        return None if p.returncode == 0 else (p.stderr[-300:] or "exit %d" % p.returncode)
    core.setup_repo_path()
    from suit_generator import cmd_sign

    try:
        cmd_sign.main(sign_subcommand="recursive", input_envelope=inp, output_envelope=out, configuration=cfile)
    except BaseException as e:
        if isinstance(e, (KeyboardInterrupt, SystemExit, MemoryError)):
            raise
        return repr(e)
    return None
