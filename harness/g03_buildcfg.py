"""G03 (growth, DESIGN.md 4.16) - ncs/build.py read_configurations and the file-based KMS context parsing."""
from __future__ import annotations

import importlib.util
import json

from . import core, signrun, toolrun

LEVEL = "model_checking"


def load(path, name):
    spec = importlib.util.spec_from_file_location(name, path)
    m = importlib.util.module_from_spec(spec)
    spec.loader.exec_module(m)
    return m


def run(ctx: core.Check):
    ctx.cov["rule"] = "image lists (names incl. digit-first and duplicates, short entries, target) ; KMS context kinds"
    core.setup_repo_path()
    build = load(str(core.REPO / "ncs" / "build.py"), "verif_ncs_build_g03")
    kms = load(signrun.sign_scripts()[1], "verif_basic_kms_g03")
    d = ctx.tmp("g03")
    kc = d / "k.config"
    kc.write_text('CONFIG_X=y\nSB_CONFIG_SUIT_MPI_ROOT_VENDOR_NAME="v"\n')
    tr = toolrun.Trace()
    names = ["application", "radio", "802154_rpmsg_subimage", "hci_rpmsg_subimage", "9lives", "top"]
    for k in range(80 if ctx.quick else 800):
        n = ctx.rng.randint(1, 4)
        imgs = [ctx.rng.choice(names) for _ in range(n)]
        short = ctx.rng.random() < 0.15
        entries = [f"{nm},/bin/{nm}.bin,,{kc}" for nm in imgs]
        if short:
            entries[ctx.rng.randrange(n)] = f"{imgs[0]},/bin/x.bin"
        target = ctx.rng.choice([None, imgs[0]])
        try:
            data = build.read_configurations(entries, target)
            result = "ok"
            vars_ = [x for x in data if x not in ("get_absolute_address", "target")]
            aliased = target is not None and data.get("target") is data.get(target)
        except Exception:
            result, vars_, aliased = "refused", [], False
        if result == "ok" and any(nm[0].isdigit() and nm in vars_ for nm in imgs):
            ctx.observe("O6: read_configurations never adds the leading underscore to image names that start with a digit (the pattern "
                        "'^[0-9].*]' only matches names containing ']'), so '802154_rpmsg_subimage' is not available to the templates "
                        "as '_802154_rpmsg_subimage'")
        tr.begin({"images": imgs, "short": short, "target": target})
        tr.ev("Config", images=[{"name": nm, "digitfirst": nm[0].isdigit(), "fields": 2 if (short and e.count(",") < 3) else 4} for nm, e in zip(imgs, entries)],
              result=result, vars=vars_, targetGiven=target is not None, targetAliased=aliased)
        ctx.count("evaluations")
        ctx.nontriv(json.dumps([imgs, short, target]))
    (d / "keys").mkdir()
    for kind, ctxarg in (("none", None), ("dir", str(d / "keys")), ("json", json.dumps({"keys_directory": str(d / "keys")})),
                         ("garbage", "not a path {"), ("garbage", json.dumps({"other": 1})), ("garbage", str(d / "missing-dir"))):
        k = kms.suit_kms_factory()
        try:
            k.init_kms(ctxarg)
            r = str(k.keys_directory)
            result = "scriptdir" if r == str(core.REPO / "ncs") else ("thatdir" if kind == "dir" and r == ctxarg else ("jsondir" if kind == "json" and r == str(d / "keys") else "other:" + r))
        except ValueError:
            result = "refused"
        tr.begin({"context": kind})
        tr.ev("Context", kind=kind, result=result)
        ctx.count("evaluations")
        ctx.nontriv(("ctx", kind, str(ctxarg)[:30]))
    ctx.sample({"event": tr.events[1]})
    toolrun.report(ctx, tr, module="BuildCfg_Trace", label="buildcfg", cap=5)
    ctx.cov["states"] = max(ctx.cov["states"], 1)
    ctx.cov["transitions"] = max(ctx.cov["transitions"], 1)


def replay(ctx, rec):
    run(ctx)
