"""C10 - DFU cache partitions are well-formed, aligned and content-preserving.

Use A  Cache_MC (byte-level implementation layer + refinement into the permissive judges), exhaustive.
Use B  scenarios emitted by TLC from Cache_MC (exhaustive small alphabet; -simulate for long sequences) are replayed
       into the real CachePartition object / CLI.
Use C  every execution of the real code is projected (own CBOR walker, interned keys/values) into events and judged
       by Cache_Trace (TLC evaluating the judges of Cache.tla).
"""
from __future__ import annotations

import json
import os
import subprocess

from . import cborx, core, tlc

MOD = "suit_generator.cmd_cache_create"


# ---------------------------------------------------------------------------------------------------------------
# projection


def walk(buf: bytes, pos: int, it: core.Interner, end: int | None = None):
    """Walk tstr => bstr entries of buf[pos:end]; returns (ok, entries)."""
    ents = []
    end = len(buf) if end is None else end
    while pos < end:
        try:
            k = cborx.read_item(buf, pos)
            if k.mt != 3 or k.indef or k.end > end:
                return False, ents
            v = cborx.read_item(buf, k.end)
            if v.mt != 2 or v.indef or v.end > end:
                return False, ents
        except cborx.CborError:
            return False, ents
        kl = len(k.val.encode("utf-8"))
        pad = kl == 0
        ents.append(
            {"s": pos, "e": v.end, "kl": kl, "u": -1 if pad else it.id(k.val), "vh": buf[v.start],
             "vl": len(v.val), "d": -1 if pad else it.id(v.val), "z": not any(v.val)}
        )
        pos = v.end
    return pos == end, ents


def walk_file(data: bytes, it: core.Interner):
    """(ok, flen, entries) of a complete cache file."""
    if len(data) < 2 or data[0] != 0xBF or data[-1] != 0xFF:
        return False, len(data), []
    ok, ents = walk(data, 1, it, len(data) - 1)
    return ok, len(data), ents


def file_pairs(data: bytes):
    """Non-padding (uri, value) pairs of a cache file, by the independent reader (input of a merge)."""
    it = cborx.loads(data)
    assert it.mt == 5
    assert all(k.mt == 3 and v.mt == 2 for k, v in it.val)   # a file written by a broken tool may decode to anything
    return [(k.val, v.val) for k, v in it.val if k.val != ""]


# ---------------------------------------------------------------------------------------------------------------
# execution of abstract scenarios against the real object


class Runner:
    def __init__(self, ctx: core.Check):
        core.setup_repo_path()
        import importlib

        self.m = importlib.import_module(MOD)
        self.ctx = ctx
        self.it = core.Interner()
        self.events = []
        self.tid = 0
        self.scn = {}
        self.dir = ctx.tmp("cache")

    def begin(self, eb, scenario):
        self.tid += 1
        self.i = 0
        self.scn[self.tid] = scenario
        self.cache = self.m.CachePartition(eb)
        self.eb = eb
        self.events.append({"tid": self.tid, "i": 0, "ev": "Begin", "eb": eb})

    def rebegin(self, eb):
        self.cache = self.m.CachePartition(eb)
        self.eb = eb
        self._ev({"ev": "Begin", "eb": eb})

    def _ev(self, e):
        self.i += 1
        e = {"tid": self.tid, "i": self.i, **e}
        self.events.append(e)
        return e

    def add(self, uri: str, data: bytes):
        c = self.cache
        before = len(c.cache_data)
        try:
            c.add_cache_slot(uri, data)
            res = "ok"
        except Exception:
            res = "rejected"
        new = c.cache_data[before:]
        opened = bool(new) and before == 0 and new[0] == 0xBF
        ok, ents = walk(c.cache_data, before + (1 if opened else 0), self.it) if res == "ok" else (True, [])
        if not ok:
            ents = ents + [{"s": -1, "e": -1, "kl": 0, "u": -1, "vh": 0, "vl": 0, "d": -1, "z": False}]
        self._ev({"ev": "Add", "u": self.it.id(uri), "ul": len(uri.encode()), "d": self.it.id(data), "dl": len(data),
                  "res": res, "opened": opened, "ents": ents, "end": len(c.cache_data)})
        return res

    def close(self):
        c = self.cache
        before = len(c.cache_data)
        path = self.dir / f"c{self.tid}_{self.i}.bin"
        c.close_and_save_cache(str(path))
        tail = list(c.cache_data[before:][:8])
        self._ev({"ev": "Close", "tail": tail})
        data = path.read_bytes()
        ok, flen, ents = walk_file(data, self.it)
        self._ev({"ev": "File", "ok": ok, "flen": flen, "ents": ents})
        return path

    def merge(self, path):
        c = self.cache
        before = len(c.cache_data)
        try:
            inp = file_pairs(path.read_bytes())
        except (cborx.CborError, AssertionError):
            return "unreadable"  # the input file itself is malformed: its File event has already been rejected
        try:
            c.merge_single_cache_file(str(path))
            res = "ok"
        except Exception:  # ValueError for a duplicate; anything else is a refusal too (the spec decides if it was due)
            res = "rejected"
        new = c.cache_data[before:]
        opened = bool(new) and before == 0 and new[0] == 0xBF
        ok, ents = walk(c.cache_data, before + (1 if opened else 0), self.it) if res == "ok" else (True, [])
        if not ok:
            ents = ents + [{"s": -1, "e": -1, "kl": 0, "u": -1, "vh": 0, "vl": 0, "d": -1, "z": False}]
        self._ev({"ev": "Merge", "inp": [[self.it.id(u), self.it.id(v)] for u, v in inp], "res": res,
                  "opened": opened, "ents": ents, "end": len(c.cache_data)})
        return res


def key_of(kl, kt):
    return chr(97 + kt) + "x" * (kl - 1)


def data_of(dl, dt):
    return bytes(((dt * 16 + i) % 256) for i in range(1, dl + 1))


def run_tlc_scenario(r: Runner, hist: list):
    """hist: operations emitted by Cache_MC (begin/add/close/merge)."""
    r.begin(hist[0]["eb"], {"kind": "tlc", "hist": hist})
    path = None
    for op in hist[1:]:
        if op["op"] == "add":
            r.add(key_of(op["kl"], op["kt"]), data_of(op["dl"], op["dt"]))
        elif op["op"] == "close":
            path = r.close()
        elif op["op"] == "merge":
            r.rebegin(op["eb"])
            r.merge(path)
    if hist[-1]["op"] != "close":
        r.close()


EDGE = (0x00, 0x09, 0x0A, 0x0D, 0x20, 0xFF)


def payload(dl: int, sd: int) -> bytes:
    """Payload bytes of a scenario.  Seeds >= 1000 give contents whose FIRST and LAST byte are NUL / whitespace / 0xFF (bytes
    that text handling treats specially): 'content-preserving' includes them."""
    b = bytearray(((sd * 7 + i * 13) % 251 + 1) & 0xFF for i in range(dl))
    if sd >= 1000 and dl:
        b[0] = EDGE[(sd - 1000) % 6]
        b[-1] = EDGE[((sd - 1000) // 6) % 6]
    return bytes(b)


def run_ops_scenario(r: Runner, scn: dict):
    """Harness-generated scenario: {'eb', 'ops': [['add', uri, datalen, seed] | ['close'] | ['merge', eb, [indices]]]}"""
    r.begin(scn["eb"], scn)
    files = []
    for op in scn["ops"]:
        if op[0] == "add":
            _, uri, dl, sd = op
            known = uri in r.cache.uris
            if r.add(uri, payload(dl, sd)) != "ok" and not known:
                break  # refused for another reason than a duplicate: the object is abandoned
        elif op[0] == "close":
            files.append(r.close())
        elif op[0] == "newcache":
            r.rebegin(op[1])
        elif op[0] == "merge":
            if r.merge(files[op[1]]) != "ok":
                break  # a rejected merge leaves a partially filled object behind; the CLI writes nothing
    return files


# ---------------------------------------------------------------------------------------------------------------
# CLI scenarios (no intermediate state observable): one Cli event per run


STALE = core.STALE


def inprocess_histories(r: Runner):
    import os
    ctx = r.ctx
    core.setup_repo_path()
    from suit_generator import cmd_cache_create
    it = r.it
    d = ctx.tmp("inproc")
    (d / "a").mkdir()
    (d / "b").mkdir()
    cwd = os.getcwd()
    try:
        for rnd in range(4 if ctx.quick else 40):
            steps = []
            f = d / "fw.bin"
            for ver in range(3):   # the file at one absolute path is rewritten between calls
                data = payload(20 + ver + rnd, 100 * rnd + ver)
                steps.append(("abs", [f"#fw,{f}"], [["#fw", data]], None, f))
            for sub_ in ("a", "b", "a"):   # the same RELATIVE name, resolved from two directories that hold different files
                data = payload(9 + rnd + (sub_ == "b"), 7 * rnd + ord(sub_))
                steps.append(("rel", ["#rel,rel.bin"], [["#rel", data]], d / sub_, d / sub_ / "rel.bin"))
            for n_, (kind, inputs, pairs, where, target) in enumerate(steps):
                target.write_bytes(pairs[0][1])   # the file gets its content right before THIS call
                out = d / f"cache_{rnd}_{n_}.bin"
                os.chdir(where or d)
                try:
                    cmd_cache_create.main(cache_create_subcommand="from_payloads", eb_size=[8, 16, 1][n_ % 3], output_file=str(out), input=inputs)
                except Exception:
                    pass
                os.chdir(cwd)
                ok, flen, ents = walk_file(out.read_bytes(), it) if out.exists() else (False, 0, [])
                r.tid += 1
                r.scn[r.tid] = {"kind": "inprocess", "round": rnd, "step": n_, "form": kind}
                r.events.append({"tid": r.tid, "i": 0, "ev": "Begin", "eb": [8, 16, 1][n_ % 3]})
                r.events.append({"tid": r.tid, "i": 1, "ev": "Cli", "eb": [8, 16, 1][n_ % 3], "want": [[it.id(u), it.id(b)] for u, b in pairs], "dup": False,
                                 "refusal": False, "written": out.exists(), "ok": ok, "flen": flen, "ents": ents, "rc": 0})
                ctx.count("evaluations")
                ctx.nontriv(("inprocess", rnd, n_))
    finally:
        os.chdir(cwd)


def run_cli(r: Runner, scn: dict):
    """scn: {'eb', 'sub': 'from_payloads'|'merge', 'inputs': [[uri, datalen, seed]...] or groups for merge}"""
    ctx = r.ctx
    d = ctx.tmp("cli")
    r.tid += 1
    r.scn[r.tid] = scn
    it = r.it
    out = d / ("out.cache.0.bin" if r.tid % 2 else "out.bin")
    want = []
    uris = []
    if scn["sub"] == "from_envelope":
        from . import c11_extract
        pays = []
        for n, (uri, dl, sd) in enumerate(scn["inputs"]):
            data = payload(dl, sd)
            pays.append((uri, data))
            want.append([it.id(uri), it.id(data)])
            uris.append(uri)
        deps = []
        for j, (dname, dinputs) in enumerate(scn.get("deps", [])):
            dp = []
            for uri, dl, sd in dinputs:
                data = bytes(((sd * 11 + i * 17) % 251 + 1) & 0xFF for i in range(dl))
                dp.append((uri, data))
                want.append([it.id(uri), it.id(data)])
                uris.append(uri)
            deps.append((dname, c11_extract.make_env(ctx, d, ctx.rng, 7100 + 10 * r.tid + j, dp, [])))
        envb = c11_extract.make_env(ctx, d, ctx.rng, 7000 + r.tid, pays, deps)
        (d / "in.suit").write_bytes(envb)
        args = ["cache_create", "from_envelope", "--output-file", out, "--eb-size", scn["eb"], "--input-envelope", d / "in.suit",
                "--output-envelope", d / "out.suit"]
        if deps:
            args += ["--dependency-regex", "dep_.*"]
    elif scn["sub"] == "from_payloads":
        args = ["cache_create", "from_payloads", "--output-file", out, "--eb-size", scn["eb"]]
        for n, (uri, dl, sd) in enumerate(scn["inputs"]):
            data = payload(dl, sd)
            f = d / f"in{n}.bin"
            f.write_bytes(data)
            core.through_link(f, (r.tid + n) % 3 == 0)
            args += ["--input", f"{uri},{f}"]
            want.append([it.id(uri), it.id(data)])
            uris.append(uri)
    else:
        args = ["cache_create", "merge", "--output-file", out, "--eb-size", scn["eb"]]
        for g, group in enumerate(scn["groups"]):
            # build each input cache with the verifier's own writer (valid by construction, arbitrary padding style)
            buf = bytearray([0xBF])
            for uri, dl, sd in group["pairs"]:
                data = payload(dl, sd)
                buf += cborx.dumps(uri) + b"\x5a" + len(data).to_bytes(4, "big") + data
                pad = group.get("pad", -1)
                if pad >= 0:
                    buf += b"\x60" + cborx.dumps(bytes(pad))
                want.append([it.id(uri), it.id(data)])
                uris.append(uri)
            buf += b"\xff"
            f = d / f"cache{g}.bin"
            f.write_bytes(bytes(buf))
            args += ["--input", f]
    if scn.get("stale"):
        out.write_bytes(STALE)   # history: the output file exists already, left by an earlier invocation
    p = subprocess.run(core.cli_cmd(*args), cwd=d, env=core.cli_env(guard=False), capture_output=True, text=True)
    written = out.exists() and out.read_bytes() != STALE
    ok, flen, ents = (False, 0, [])
    if written:
        ok, flen, ents = walk_file(out.read_bytes(), it)
    dup = len(set(uris)) != len(uris)
    r.events.append({"tid": r.tid, "i": 0, "ev": "Begin", "eb": scn["eb"]})
    r.events.append({"tid": r.tid, "i": 1, "ev": "Cli", "eb": scn["eb"], "want": want, "dup": dup, "refusal": False,
                     "written": written, "ok": ok, "flen": flen, "ents": ents, "rc": p.returncode})


# ---------------------------------------------------------------------------------------------------------------


def gen_sweeps(ctx: core.Check):
    """Harness-generated scenario families beyond what the TLC alphabet covers (sizes the model cannot afford)."""
    rng = ctx.rng
    scns = []
    quick = ctx.quick
    # (1) erase block sweep: every eb in range, every residue of the first slot, followed by a second and third slot
    ebs = list(range(1, 65 if quick else 513)) + [1 << k for k in range(7, 17)]
    for eb in ebs:
        residues = range(eb) if eb <= (64 if quick else 512) else sorted(
            {0, 1, 2, 3, 22, 23, 24, 25, 26, eb - 1, eb - 2, eb - 22, eb - 23, eb - 24, eb - 25, eb // 2} |
            {rng.randrange(eb) for _ in range(6)})
        for res in residues:
            # first slot: 0xBF + 0x61 'a' + 5 + dl  = dl + 8 ; choose dl so (dl + 8) % eb == res
            dl = (res - 8) % eb
            scns.append({"kind": "sweep", "eb": eb, "ops": [["add", "a", dl, 1], ["add", "b", (res * 3) % 41, 2],
                                                             ["add", "c", 1, 3], ["close"]]})
    # (2) URI lengths across text-head widths x data lengths
    for ul in (1, 22, 23, 24, 25, 255, 256, 257, 65535, 65536) if not quick else (1, 23, 24, 255, 256):
        for eb in (1, 8, 16, 64, 4096):
            scns.append({"kind": "uri", "eb": eb, "ops": [["add", "u" * ul, 3, 1], ["add", "v" * ul, 0, 2],
                                                           ["add", "w", 70, 3], ["close"]]})
    # (2b) URIs are TEXT: characters that take 2, 3 and 4 bytes in UTF-8, with byte lengths on both sides of the head widths while
    # the character counts are not (12 x 'e-acute' = 24 bytes, 128 x = 256 bytes)
    for u in ("file://caf\u00e9.bin", "file://\u56fa\u4ef6.bin", "\U0001f680fw", "\u00e9" * 11, "\u00e9" * 12, "\u00fc" * 11 + "a",
              "\u00e9" * 128, "\u56fa" * 8, "a\u0301"):
        for eb in ((1, 16) if quick else (1, 8, 16, 64, 4096)):
            scns.append({"kind": "uri-utf8", "eb": eb, "ops": [["add", u, 3, 1], ["add", "w" + u, 0, 2], ["add", "w", 9, 3], ["close"],
                                                                ["newcache", 8], ["merge", 0], ["close"]]})
    # (3) random sequences of up to 6 slots incl. duplicates, then merge into another block size (with dup)
    n = 150 if quick else 3000
    for _ in range(n):
        eb = rng.choice([1, 2, 3, 4, 7, 8, 16, 32, 64, 100, 256, 1024, 4096])
        ops = []
        names = [rng.choice("abcdef") * rng.choice([1, 1, 2, 23, 24]) for _ in range(rng.randint(1, 6))]
        for nm in names:
            ops.append(["add", nm, rng.choice([0, 1, 2, 15, 16, 17, 100, 255, 256, 1000]), rng.randrange(100)])
        ops.append(["close"])
        ops.append(["newcache", rng.choice([1, 8, 16, 128])])
        if rng.random() < 0.4:
            ops.append(["add", rng.choice(names), 5, 7])  # makes the merge hit a duplicate
        ops.append(["merge", 0])
        if rng.random() < 0.5:
            ops.append(["add", "zz", 9, 9])
        ops.append(["close"])
        scns.append({"kind": "rand", "eb": eb, "ops": ops})
    # (5) payloads whose first / last byte is NUL, whitespace or 0xFF
    for e in range(36):
        scns.append({"kind": "edge", "eb": (8, 16, 1)[e % 3], "ops": [["add", "a", 5, 1000 + e], ["add", "b", 1, 1000 + e], ["close"],
                                                                    ["newcache", 4], ["merge", 0], ["close"]]})
    # (4) padding header switches: raw lengths that need 22..26 and 0xFFFF-ish padding bytes
    for eb in (4096, 65536):
        for p in (2, 3, 22, 23, 24, 25, 26, 255, 256, 257, 258, 259, 260, eb - 1, eb - 2, eb - 3):
            dl = (eb - p - 8) % eb
            scns.append({"kind": "padhdr", "eb": eb, "ops": [["add", "a", dl, 1], ["add", "b", 1, 1], ["close"]]})
    return scns


def gen_cli(ctx: core.Check):
    rng = ctx.rng
    scns = []
    n = 12 if ctx.quick else 120
    for k in range(n):
        eb = rng.choice([1, 4, 8, 16, 64, 256])
        names = [rng.choice(["#app", "#rad", "file://x", "a", "b" * 24, "file://caf\u00e9.bin", "\u56fa\u4ef6"]) for _ in range(rng.randint(1, 4))]
        if k % 3 == 0:
            names = list(dict.fromkeys(names))
        scns.append({"kind": "cli", "sub": "from_payloads", "eb": eb,
                     "inputs": [[nm, rng.choice([0, 1, 7, 16, 300]), rng.randrange(50) + (1000 if k % 2 else 0)] for nm in names]})
    for k in range(n):
        eb = rng.choice([1, 4, 8, 16, 64, 100])
        names = list(dict.fromkeys(rng.choice(["#app", "#rad", "cache://x", "a", "b" * 24, "#sys"]) for _ in range(rng.randint(1, 4))))
        # 0..3 ADJACENT dependency envelopes selected by --dependency-regex, each with its own payloads (distinct URIs)
        deps = [[f"dep_{j}.suit", [[f"#d{j}_{i}", rng.choice([0, 1, 7, 16, 300]), rng.randrange(50)] for i in range(rng.randint(1, 2))]]
                for j in range(k % 4)]
        scns.append({"kind": "cli", "sub": "from_envelope", "eb": eb, "deps": deps,
                     "inputs": [[nm, rng.choice([0, 1, 7, 16, 300]), rng.randrange(50)] for nm in names]})
    for k in range(n):
        eb = rng.choice([1, 4, 8, 16, 64])
        groups = []
        pool = ["#a", "#b", "#c", "d" * 30, "e"] if k % 3 else ["#a", "\u00e9" * 12, "#c", "\U0001f680fw", "e"]
        for g in range(rng.randint(1, 4)):
            ks = rng.sample(pool, rng.randint(0, 2)) if k % 2 else [pool[(g * 2) % 5], pool[(g * 2 + 1) % 5]][: rng.randint(1, 2)]
            groups.append({"pad": rng.choice([-1, 0, 5, 30, 300]),
                           "pairs": [[nm, rng.choice([0, 3, 16, 100]), rng.randrange(50)] for nm in ks]})
        if sum(len(g["pairs"]) for g in groups) == 0:
            groups[0]["pairs"] = [["#a", 3, 1]]
        scns.append({"kind": "cli", "sub": "merge", "eb": eb, "groups": groups})
    return scns


def judge_and_report(ctx, r: Runner, label):
    bad = ctx.validate("Cache_Trace", "Cache_Trace.cfg", r.events, label=label)
    per_clause = {}
    for b in sorted(bad, key=lambda x: (x["tid"], x["i"])):
        per_clause[b["clause"]] = per_clause.get(b["clause"], 0) + 1
        if per_clause[b["clause"]] > 3:
            ctx.count("further_rejections_not_listed")
            continue
        scn = r.scn.get(b["tid"])
        evs = [e for e in r.events if e["tid"] == b["tid"]]
        ctx.violation(
            key=f"{label}:{b['clause']}:{json.dumps(scn, sort_keys=True)[:200]}",
            what=f"cache scenario rejected by Cache.tla clause {b['clause']} at event {b['i']}: {json.dumps(scn)[:300]}",
            replay={"scenario": scn, "clause": b["clause"], "event_index": b["i"], "events": evs},
        )
    return bad


def run(ctx: core.Check):
    quick = ctx.quick
    ctx.cov["rule"] = (
        "scenario = erase-block size + sequence of add/close/merge operations; generated exhaustively by TLC from "
        "Cache_MC (small alphabet), by TLC -simulate (long sequences), and by parameter sweeps (eb 1..512 & 2^k x every "
        "residue, URI head widths, padding-header switches, random <=6-slot sequences with duplicate URIs and merges, "
        "CLI runs). Non-trivial & distinct = distinct (eb, residue of slot end mod eb, padding bytes chosen, number of "
        "slots, operation kinds) tuples in which at least one slot after the first exists or a duplicate/merge occurs."
    )
    # ---- Use A
    ctx.note("Use A: TLC exhaustive on Cache_MC")
    ctx.mc("Cache_MC", "Cache_MC.cfg" if quick else "Cache_MC_thorough.cfg",
           required_actions=("AddOp", "CloseOp", "MergeOp"), timeout=1800)
    # ---- Apalache: padding arithmetic for unbounded naturals
    apalache(ctx)
    # ---- Use B: TLC-generated scenarios
    ctx.note("Use B: scenarios from TLC")
    g = tlc.run_tlc("Cache_MC", "Cache_Gen.cfg", workers=1, timeout=1800)
    tlc.require_ok(g, "Cache_Gen")
    hists = g.tagged("SCN")
    ctx.cov["tlc_runs"].append({"module": "Cache_MC", "cfg": "Cache_Gen.cfg", "use": "B:scenario-generation",
                                "scenarios": len(hists), "distinct": g.distinct, "generated": g.generated})
    if not quick:
        sim = tlc.run_tlc("Cache_MC", "Cache_Gen_sim.cfg", workers=1, simulate="num=3000", depth=10,
                          seed=ctx.seed, timeout=1800)
        tlc.require_ok(sim, "Cache_Gen_sim")
        sh = sim.tagged("SCN")
        ctx.cov["tlc_runs"].append({"module": "Cache_MC", "cfg": "Cache_Gen_sim.cfg", "use": "B:simulation",
                                    "scenarios": len(sh)})
        hists += sh
    r = Runner(ctx)
    for h in hists:
        run_tlc_scenario(r, h)
        ctx.count("evaluations")
    account(ctx, r)
    ctx.sample({"tlc_scenario": hists[0], "events": [e for e in r.events if e["tid"] == 1]})
    judge_and_report(ctx, r, "tlc")
    # ---- sweeps
    ctx.note("Use C: parameter sweeps on the real object")
    scns = gen_sweeps(ctx)
    chunk = 6000
    for off in range(0, len(scns), chunk):
        r = Runner(ctx)
        for s in scns[off:off + chunk]:
            run_ops_scenario(r, s)
            ctx.count("evaluations")
        account(ctx, r)
        if off == 0:
            ctx.sample({"sweep_scenario": scns[0], "events": [e for e in r.events if e["tid"] == 1]})
        judge_and_report(ctx, r, "sweep")
    # ---- CLI
    ctx.note("Use C: CLI runs")
    r = Runner(ctx)
    cl = gen_cli(ctx)
    for k_, s in enumerate(cl):
        s["stale"] = k_ % 3 == 1
        run_cli(r, s)
        ctx.count("evaluations")
    ctx.sample({"cli_scenario": cl[0], "events": [e for e in r.events if e["tid"] == 1]})
    judge_and_report(ctx, r, "cli")
    # ---- the library entry point called repeatedly in ONE process: the same path string names other bytes the second time
    ctx.note("Use C: from_payloads histories in one process (file rewritten; same relative name in another directory)")
    r = Runner(ctx)
    inprocess_histories(r)
    judge_and_report(ctx, r, "inprocess")
    ctx.assumptions += [
        "interning of keys/values is injective (sha256)",
        "the verifier's CBOR walker (harness/cborx.py) gives cache files their meaning",
        "a padding request above 0xFFFF bytes is refused by the tool (ValueError) and that refusal is accepted",
    ]


def account(ctx, r: Runner):
    """Count distinct non-trivial cases from the recorded events."""
    by = {}
    for e in r.events:
        by.setdefault(e["tid"], []).append(e)
    for tid, evs in by.items():
        eb = evs[0]["eb"]
        sig = []
        for e in evs:
            if e["ev"] in ("Add", "Merge"):
                pads = sum(x["e"] - x["s"] for x in e["ents"] if x["kl"] == 0)
                sig.append((e["ev"], e["res"], e["end"] % eb, pads, len(e["ents"])))
        if len(sig) >= 2:
            ctx.nontriv(("scn", eb, tuple(sig)))


APA = """---- MODULE Cache_Apa ----
EXTENDS Integers
VARIABLES
  \\* @type: Int;
  eb,
  \\* @type: Int;
  n
ImplPad(e, m) == LET r == (e - (m % e)) % e IN IF r = 1 THEN e + 1 ELSE r
Init == eb \\in Nat /\\ eb >= 1 /\\ n \\in Nat
Next == UNCHANGED <<eb, n>>
PadOk == LET p == ImplPad(eb, n) IN (n + p) % eb = 0 /\\ p # 1 /\\ p >= 0 /\\ p <= eb + 1
====
"""


def apalache(ctx):
    """Padding arithmetic for ALL naturals eb >= 1, n (not only the TLC bounds)."""
    f = tlc.SPEC_DIR / "Cache_Apa.tla"
    if not f.exists():
        f.write_text(APA)
    ok, out, wall = tlc.run_apalache("Cache_Apa.tla", init="Init", inv="PadOk", length=0, timeout=180)
    ctx.cov["apalache"] = {"obligation": "forall eb>=1, n in Nat: (n+ImplPad) % eb = 0 /\\ ImplPad # 1 /\\ 0 <= ImplPad <= eb+1",
                           "result": "proved" if ok else ("timeout" if ok is None else "FAILED"), "wall_s": round(wall, 1)}
    if ok is False:
        raise core.MachineryError("Apalache refuted the padding arithmetic obligation:\n" + out[-1500:])


def replay(ctx: core.Check, rec: dict):
    scn = rec["replay"]["scenario"]
    r = Runner(ctx)
    if scn.get("kind") == "tlc":
        run_tlc_scenario(r, scn["hist"])
    elif scn.get("kind") == "cli":
        run_cli(r, scn)
    else:
        run_ops_scenario(r, scn)
    ctx.count("evaluations")
    account(ctx, r)
    ctx.sample({"replayed": scn})
    ctx.nontriv("replay")
    ctx.nontriv("replay2")
    judge_and_report(ctx, r, "replay")
