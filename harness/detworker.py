"""Worker for C18: executes schedules of operations in ONE interpreter and prints every output (base64).

usage: python detworker.py <repo> <workdir> <jobfile>      (PYTHONHASHSEED is set by the parent)
The job file is JSON: {"schedules": [[op, ...], ...]}.  Files of the scenario live in <workdir> (prepared by the parent);
every path given to the tool is absolute.  Between schedules the files are reset to version 1 and the directory restored.
"""
import base64
import copy
import json
import os
import shutil
import sys

repo, work, jobfile = sys.argv[1:4]
sys.path.insert(0, repo)
os.environ.pop("SUIT_GENERATOR_VERIF", None)

import yaml  # noqa: E402

from suit_generator import cmd_cache_create, cmd_create, cmd_image, cmd_mpi, cmd_parse  # noqa: E402
from suit_generator.input_output import InputOutputMixin  # noqa: E402

W = work
job = json.load(open(jobfile))
REUSED = {}


def b64(path):
    with open(path, "rb") as fh:
        return base64.b64encode(fh.read()).decode()


def reset():
    shutil.copyfile(os.path.join(W, "fw_v1.bin"), os.path.join(W, "fw.bin"))
    os.chdir(os.path.join(W, "cwd1"))
    REUSED.clear()


def run(op, n):
    out = os.path.join(W, f"out_{n}")
    if op == "create1":
        cmd_create.main(os.path.join(W, "d1.yaml"), "AUTO", out + ".suit")
        return [b64(out + ".suit")]
    if op == "create1json":
        cmd_create.main(os.path.join(W, "d1.json"), "AUTO", out + ".suit")
        return [b64(out + ".suit")]
    if op == "reuse1":
        # the same description (a fresh load of the same file) handed to the library entry point
        d = yaml.safe_load(open(os.path.join(W, "d1.yaml")))
        return [base64.b64encode(InputOutputMixin.prepare_suit_data(d)).decode()]
    if op == "failretry":
        # a description object that survives a FAILED create (a referenced file was missing), then is created from again when the
        # file is there: the result is the one of a fresh create of the same input
        d = yaml.safe_load(open(os.path.join(W, "d1.yaml")))
        fw_, hid = os.path.join(W, "fw.bin"), os.path.join(W, "fw.bin.hidden")
        os.rename(fw_, hid)
        try:
            InputOutputMixin.prepare_suit_data(d)
            failed = False
        except BaseException:
            failed = True
        finally:
            os.rename(hid, fw_)
        if not failed:
            raise RuntimeError("create did not fail although the referenced file was missing")
        return [base64.b64encode(InputOutputMixin.prepare_suit_data(d)).decode()]
    if op == "create2":
        cmd_create.main(os.path.join(W, "d2.yaml"), "AUTO", out + ".suit")
        return [b64(out + ".suit")]
    if op in ("create3", "create3perm", "create3rel"):
        cmd_create.main(os.path.join(W, {"create3": "d3.json", "create3perm": "d3p.json", "create3rel": "d3rel.json"}[op]), "AUTO", out + ".suit")
        return [b64(out + ".suit")]
    if op == "parse":
        cmd_parse.main(os.path.join(W, "env.suit"), out + ".json", "json", False)
        return [b64(out + ".json")]
    if op in ("parsehA", "parsehB"):
        # hierarchical parse into YAML of two different hierarchies (other dependency names, other depth)
        cmd_parse.main(os.path.join(W, "multi.suit" if op == "parsehA" else "multi2.suit"), out + ".yaml", "yaml", True)
        return [b64(out + ".yaml")]
    if op == "boot":
        d = out + "_boot"
        os.makedirs(d, exist_ok=True)
        cmd_image.ImageCreator.create_files_for_boot([os.path.join(W, "env.suit")], d, 0x0E1ED000, None)
        return [b64(os.path.join(d, f)) for f in sorted(os.listdir(d))]
    if op == "update":
        cmd_image.ImageCreator.create_files_for_update(os.path.join(W, "env.suit"), out + "_s.hex", out + "_p.hex", 0x0E1EF340, 0x0E100000, 6)
        return [b64(out + "_s.hex"), b64(out + "_p.hex")]
    if op == "mpi":
        cmd_mpi.MpiGenerator.generate(out + ".hex", "nordicsemi.com", "nRF54H20_sample_app", 0x0E1FF000, 48, True, False, "update")
        return [b64(out + ".hex")]
    if op == "cache":
        cmd_cache_create.main(cache_create_subcommand="from_payloads", eb_size=16, output_file=out + ".bin",
                              input=["#fw," + os.path.join(W, "fw.bin"), "#second," + os.path.join(W, "fw_v1.bin")])
        return [b64(out + ".bin")]
    if op == "cachenv":
        cmd_cache_create.main(cache_create_subcommand="from_envelope", eb_size=8, input_envelope=os.path.join(W, "multi.suit"),
                              output_envelope=out + "_e.suit", omit_payload_regex=None, dependency_regex="#dep.*", output_file=out + "_c.bin")
        return [b64(out + "_c.bin"), b64(out + "_e.suit")]
    if op == "cachenv2":
        cmd_cache_create.main(cache_create_subcommand="from_envelope", eb_size=16, input_envelope=os.path.join(W, "multi.suit"),
                              output_envelope=out + "_e.suit", omit_payload_regex="#p[01]", dependency_regex=None, output_file=out + "_c.bin")
        return [b64(out + "_c.bin"), b64(out + "_e.suit")]
    if op == "sign":
        from pathlib import Path
        from suit_generator import cmd_sign
        from suit_generator.suit_sign_script_base import SignatureAlreadyPresentActions, SuitSignAlgorithms
        cmd_sign.main(sign_subcommand="single-level", input_envelope=Path(W) / "env.suit", output_envelope=Path(out + "_s.suit"),
                      key_name="ked", key_id=0x4000AA00, alg=SuitSignAlgorithms("eddsa"), context=os.path.join(W, "keys"),
                      sign_script=os.path.join(repo, "ncs", "sign_script.py"), kms_script=os.path.join(repo, "ncs", "basic_kms.py"),
                      already_signed_action=SignatureAlreadyPresentActions("error"))
        return [b64(out + "_s.suit")]
    if op in ("objskip", "objsign", "objsignB"):
        # ONE signer object kept by the caller across operations (what sign recursive's per-node objects and any library user
        # do): a 'skip' decision for an already signed envelope is a decision about THAT envelope
        from pathlib import Path
        from suit_generator import cmd_sign
        from suit_generator.suit_sign_script_base import SignatureAlreadyPresentActions, SuitSignAlgorithms
        if "signer" not in REUSED:
            REUSED["signer"] = cmd_sign._import_signer(os.path.join(repo, "ncs", "sign_script.py"))
        src = {"objskip": "env_signed.suit", "objsign": "env.suit", "objsignB": "env2.suit"}[op]
        e = cmd_sign.load_envelope(Path(W) / src)
        e = REUSED["signer"].sign_envelope(e, "ked", 0x4000AA00 if op != "objsignB" else 0x4000AA01, SuitSignAlgorithms("eddsa"),
                                            os.path.join(W, "keys"), os.path.join(repo, "ncs", "basic_kms.py"),
                                            SignatureAlreadyPresentActions("skip" if op == "objskip" else "error"))
        cmd_sign.save_envelope(Path(out + "_o.suit"), e)
        return [b64(out + "_o.suit")]
    if op == "encrypt":
        from pathlib import Path
        from suit_generator import cmd_encrypt
        d = out + "_enc"
        os.makedirs(d, exist_ok=True)
        cmd_encrypt.main(encrypt_subcommand="encrypt-and-generate", firmware=Path(W) / "fw.bin", key_name="fwenc", key_id=7,
                         context=os.path.join(W, "keys"), hash_alg="sha-256", kw_alg="direct",
                         kms_script=os.path.join(repo, "ncs", "basic_kms.py"), encrypt_script=os.path.join(repo, "ncs", "encrypt_script.py"),
                         output_dir=Path(d))
        return [b64(os.path.join(d, f)) for f in ("plain_text_digest.bin", "plain_text_size.txt", "suit_encryption_info.bin", "encrypted_content.bin")]
    if op in ("extractA", "extractB"):
        from suit_generator import cmd_payload_extract
        if op == "extractA":
            cmd_payload_extract.main(os.path.join(W, "multi.suit"), out + "_e.suit", "#p1", out + "_p.bin", None)
        else:
            cmd_payload_extract.main(os.path.join(W, "multi2.suit"), out + "_e.suit", "#x0", out + "_p.bin", os.path.join(W, "fw_v1.bin"))
        return [b64(out + "_e.suit"), b64(out + "_p.bin")]
    if op in ("signrecA", "signrecB"):
        # Ed25519 at every level: the signatures themselves are deterministic, the whole output is compared
        from pathlib import Path
        from suit_generator import cmd_sign
        cmd_sign.main(sign_subcommand="recursive", input_envelope=Path(W) / ("multi.suit" if op == "signrecA" else "multi2.suit"),
                      output_envelope=Path(out + "_r.suit"), configuration=os.path.join(W, "recA.json" if op == "signrecA" else "recB.json"))
        return [b64(out + "_r.suit")]
    if op in ("bootB", "bootcfg"):
        d = out + "_boot"
        os.makedirs(d, exist_ok=True)
        if op == "bootB":
            cmd_image.ImageCreator.create_files_for_boot([os.path.join(W, "env2.suit"), os.path.join(W, "env.suit")], d, 0x0E1E0000, None, "nrf54h20")
        else:
            cmd_image.ImageCreator.create_files_for_boot([os.path.join(W, "env2.suit")], d, 0x0E1ED000, os.path.join(W, "boot.config"))
        return [b64(os.path.join(d, f)) for f in sorted(os.listdir(d))]
    if op == "updateB":
        cmd_image.ImageCreator.create_files_for_update(os.path.join(W, "env2.suit"), out + "_s.hex", out + "_p.hex", 0x0001FFF0, 0x00FFFFF0, 0)
        return [b64(out + "_s.hex"), b64(out + "_p.hex")]
    if op == "signB":
        from pathlib import Path
        from suit_generator import cmd_sign
        from suit_generator.suit_sign_script_base import SignatureAlreadyPresentActions, SuitSignAlgorithms
        cmd_sign.main(sign_subcommand="single-level", input_envelope=Path(W) / "env2.suit", output_envelope=Path(out + "_s.suit"),
                      key_name="ked", key_id=0x11, alg=SuitSignAlgorithms("eddsa"), context=os.path.join(W, "keys"),
                      sign_script=os.path.join(repo, "ncs", "sign_script.py"), kms_script=os.path.join(repo, "ncs", "basic_kms.py"),
                      already_signed_action=SignatureAlreadyPresentActions("error"))
        return [b64(out + "_s.suit")]
    if op in ("parseyamlA", "parseyamlB"):
        cmd_parse.main(os.path.join(W, "multi.suit" if op == "parseyamlA" else "multi2.suit"), out + ".yaml", "yaml", False)
        return [b64(out + ".yaml")]
    if op in ("convertA", "convertB"):
        from suit_generator import cmd_convert
        cmd_convert.main(input_file=os.path.join(W, "keyA.pem" if op == "convertA" else "keyB.pem"), output_file=out + ".c", array_type="uint8_t",
                         array_name="key_buf", length_type="size_t", length_name="key_len", columns_count=8 if op == "convertA" else 5,
                         header_file="", footer_file="", indentation_count=4, indentation_tab=False, no_length=False, no_const=False)
        return [b64(out + ".c")]
    if op == "mpimerge":
        cmd_mpi.MpiGenerator.generate(out + "_1.hex", "nordicsemi.com", "nRF54H20_sample_app", 0x0E1FF000, 48, True, False, "update")
        cmd_mpi.MpiGenerator.generate(out + "_2.hex", "ACME Corp", "acme rad", 0x0E1FF030, 48, False, True, None)
        cmd_mpi.MpiGenerator.merge(out + "_m.hex", 0x0E1FF000, 144, [out + "_2.hex", out + "_1.hex"])
        return [b64(out + "_m.hex")]
    if op == "cachemerge":
        cmd_cache_create.main(cache_create_subcommand="from_payloads", eb_size=8, output_file=out + "_a.bin",
                              input=["#a," + os.path.join(W, "fw_v1.bin"), "#b," + os.path.join(W, "fw_v2.bin")])
        cmd_cache_create.main(cache_create_subcommand="from_payloads", eb_size=64, output_file=out + "_b.bin",
                              input=["#c," + os.path.join(W, "fw_v2.bin")])
        cmd_cache_create.main(cache_create_subcommand="merge", eb_size=16, output_file=out + "_m.bin", input=[out + "_a.bin", out + "_b.bin"])
        return [b64(out + "_m.bin")]
    if op == "geninfo":
        from pathlib import Path
        from suit_generator import cmd_encrypt
        d = out + "_gi"
        os.makedirs(d, exist_ok=True)
        cmd_encrypt.main(encrypt_subcommand="generate-info", encrypted_firmware=Path(W) / "fw_v2.bin", encrypted_key=Path(W) / "empty.bin",
                         key_id=0x4000AA00, kw_alg="direct", encrypt_script=os.path.join(repo, "ncs", "encrypt_script.py"), output_dir=Path(d))
        return [b64(os.path.join(d, f)) for f in ("suit_encryption_info.bin", "encrypted_content.bin")]
    if op == "touch_fw":
        shutil.copyfile(os.path.join(W, "fw_v2.bin"), os.path.join(W, "fw.bin"))
        return []
    if op == "chdir":
        os.chdir(os.path.join(W, "cwd2"))
        return []
    raise SystemExit(f"unknown op {op}")


n = 0
for si, sched in enumerate(job["schedules"]):
    reset()
    ver = 1
    cwd = 1
    for i, op in enumerate(sched):
        n += 1
        try:
            outs = run(op, n)
            err = ""
        except Exception as e:  # noqa
            outs, err = [], repr(e)[:200]
        if op == "touch_fw":
            ver = 2
        if op == "chdir":
            cwd = 2
        print(json.dumps({"s": si, "i": i, "op": op, "fwver": ver, "cwd": cwd, "outs": outs, "err": err}), flush=True)
        for f in os.listdir(W):
            if f.startswith("out_"):
                p = os.path.join(W, f)
                shutil.rmtree(p) if os.path.isdir(p) else os.remove(p)
