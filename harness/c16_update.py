"""C16 - update-candidate info and DFU partition images describe the envelope file.

Use A  Hex_MC: writer model composed with the reader machine of Hex.tla (boundary crossings, faulty writers rejected).
Use C  real `image update` (library and CLI) over sizes x addresses x cache counts; every record of both hex files is an
       event judged by Update_Trace: the expected image is built by Update.tla from the scenario parameters.
"""
from __future__ import annotations

import json
import subprocess

from . import core, ihex


def word(n: int):
    return [(n >> 16) & 0xFFFF, n & 0xFFFF]


def hex_events(path, tid, start_i=1):
    """Rec events for every record of a hex file + End (or Missing / Unreadable)."""
    evs = []
    if not path.exists():
        return [{"tid": tid, "i": start_i, "ev": "Missing"}]
    try:
        recs = ihex.records(path.read_text())
    except ihex.HexError as e:
        return [{"tid": tid, "i": start_i, "ev": "Missing", "why": str(e)}]
    i = start_i
    for t, off, data in recs:
        evs.append({"tid": tid, "i": i, "ev": "Rec", "t": t, "off": off, "data": list(data)})
        i += 1
    evs.append({"tid": tid, "i": i, "ev": "End"})
    return evs


def content(size: int, seed: int) -> bytes:
    """File content per (size, seed).  Some seeds carry long runs of the erased-flash value 0xFF (or of 0x00) - a slot padded by an
    earlier tool, an all-0xFF file: data like any other, every byte of it belongs into the partition image."""
    b = bytearray(((i * 31 + seed * 17 + (i >> 8)) & 0xFF) for i in range(size))
    if seed % 7 == 2 and size >= 16:
        a = size // 4
        b[a:a + max(16, size // 2)] = b"\xff" * len(b[a:a + max(16, size // 2)])
    elif seed % 7 == 4:
        b = bytearray(b"\xff" * size)
    elif seed % 7 == 6 and size >= 16:
        b[size // 3:size // 3 + 40] = b"\x00" * len(b[size // 3:size // 3 + 40])
    return bytes(b)


def scenarios(ctx):
    quick = ctx.quick
    rng = ctx.rng
    sizes_small = [0, 1, 15, 16, 17, 255, 256]
    sizes_big = [65535, 65536, 65537] + ([] if quick else [70000, 131072])
    parts = [0, 0x0E100000, 0x0E10FFF0, 0x00FFFFF0, 0x7FFFFFF8, 0x80000000, 0xFFFF0000, 0xFFFFFFF0]
    ucis = [0x0E1EF340, 0, 0xFFF8, 0x0001FFFC, 0x7FFFFFFC, 0xFFFFFF00, 0xFFFFFFF0 - 8 * 16]
    scn = []
    for size in sizes_small:
        for part in parts:
            if part + size > 1 << 32:
                continue
            for caches in ([0, 1, 6, 16] if quick else range(17)):
                uci = rng.choice(ucis)
                scn.append({"size": size, "part": part, "uci": uci, "caches": caches})
    for uci in ucis:
        for caches in range(17):
            if uci + 16 + 8 * caches > 1 << 32:
                continue
            scn.append({"size": rng.choice(sizes_small), "part": rng.choice(parts[:6]), "uci": uci, "caches": caches})
    for size in sizes_big:
        for part in (parts[:4] if quick else parts):
            if part + size > 1 << 32:
                continue
            scn.append({"size": size, "part": part, "uci": rng.choice(ucis), "caches": rng.choice([0, 6, 16])})
    for _ in range(10 if quick else 200):
        size = rng.choice([rng.randrange(0, 600), rng.randrange(0, 70000)]) if not quick else rng.randrange(0, 3000)
        part = rng.randrange(0, (1 << 32) - size)
        caches = rng.randrange(0, 17)
        uci = rng.randrange(0, (1 << 32) - 16 - 8 * caches)
        scn.append({"size": size, "part": part, "uci": uci, "caches": caches})
    rng.shuffle(scn)   # the loops above are periodic: the modulo selectors below must not alias with them
    for k, s in enumerate(scn):
        s["via"] = "cli" if k % (9 if quick else 15) == 0 else "lib"
        s["seed"] = k
        s["stale"] = k % 4 == 2   # the output files already exist, written by an earlier invocation with other parameters
    return scn


def execute(ctx, scn, events, tids, next_tid, data=None):
    core.setup_repo_path()
    from suit_generator.cmd_image import ImageCreator

    d = ctx.tmp("upd")
    inp = d / "env.suit"
    data = content(scn["size"], scn["seed"]) if data is None else data   # (the pipeline check G05 supplies real envelopes)
    inp.write_bytes(data)
    core.through_link(inp, scn.get("seed", 0) % 5 == 3)
    inp = core.through_dotdot(inp, scn.get("seed", 0) % 7 == 5)
    dotted = scn.get("seed", 0) % 3 == 1   # output names with more than one dot
    od = d / core.odd_name(scn.get("seed", 0) // 3)   # the directory of the output files is the caller's choice as well
    od.mkdir(exist_ok=True)
    st, pf = od / ("storage.v2.hex" if dotted else "storage.hex"), od / ("part.rel.1.hex" if dotted else "part.hex")
    err = None
    if scn.get("stale"):
        # history: an earlier invocation (other content, other addresses) wrote the same two output files
        prev = d / "prev.suit"
        # (every second time the SAME envelope: only the addresses moved)
        prev.write_bytes(data if scn["seed"] % 2 else content(scn["size"] + 37, scn["seed"] + 5))
        try:
            ImageCreator.create_files_for_update(str(prev), str(st), str(pf), 0x2000, 0x100000, (scn["caches"] + 3) % 17)
        except Exception:
            pass
    if scn["via"] == "lib":
        try:
            ImageCreator.create_files_for_update(str(inp), str(st), str(pf), scn["uci"], scn["part"], scn["caches"])
        except Exception as e:  # any refusal: the files decide
            err = repr(e)
    else:
        p = subprocess.run(
            core.cli_cmd("image", "update", "--input-file", inp, "--storage-output-file", core.spell(st, d, scn.get("seed", 0)),
                         "--dfu-partition-output-file", core.spell(pf, d, scn.get("seed", 0) // 4), "--update-candidate-info-address", core.num(scn["uci"]),
                         "--dfu-partition-address", core.num(scn["part"]), "--dfu-max-caches", scn["caches"]),
            cwd=d, env=core.cli_env(), capture_output=True, text=True)
        if p.returncode:
            err = p.stderr[-300:]
    for kind, path in (("uci", st), ("part", pf)):
        tid = next_tid()
        tids[tid] = (scn, kind, err)
        b = {"tid": tid, "i": 0, "ev": "Begin", "kind": kind, "addr": word(scn["uci"]), "part": word(scn["part"]),
             "size": word(scn["size"]), "caches": scn["caches"], "bytes": list(data) if kind == "part" else []}
        events.append(b)
        events.extend(hex_events(path, tid))


def judge(ctx, events, tids, label):
    # Begin events carry their own line number so that the spec can read big constants from the log
    for n, e in enumerate(events):
        if e["ev"] == "Begin":
            e["b"] = n + 1
    bad = ctx.validate("Update_Trace", "Update_Trace.cfg", events, label=label)
    seen = {}
    for b in sorted(bad, key=lambda x: x["tid"]):
        scn, kind, err = tids[b["tid"]]
        seen[b["clause"]] = seen.get(b["clause"], 0) + 1
        if seen[b["clause"]] > 3:
            continue
        ctx.violation(key=f"{kind}:{b['clause']}:{json.dumps(scn, sort_keys=True)}",
                      what=f"image update {kind} file rejected by clause {b['clause']} (record {b['i']}) for {scn}"
                           + (f" [tool error: {err}]" if err else ""),
                      replay={"scenario": scn, "file": kind, "clause": b["clause"], "record": b["i"]})


# (scenario field "stale": the two output files already exist when the judged invocation starts)
def run(ctx: core.Check):
    ctx.cov["rule"] = ("scenario = (envelope size, partition address, candidate-info address, cache count, library|CLI); "
                       "sizes at 0/1/16-byte record and 64 KiB boundaries, addresses crossing 64 KiB and 16 MiB extended-address "
                       "boundaries and the top of the 32-bit space, caches 0..16, plus seeded random ones. Distinct & "
                       "non-trivial = distinct (size, part, uci, caches) with at least one data record judged.")
    ctx.note("Use A: Hex_MC (writer model x reader machine)")
    ctx.mc("Hex_MC", "Hex_MC.cfg", required_actions=("Read", "Finish"))
    scns = scenarios(ctx)
    ctx.note(f"Use C: {len(scns)} real image update runs")
    counter = [0]

    def next_tid():
        counter[0] += 1
        return counter[0]

    events, tids = [], {}
    nrec = 0
    for k, s in enumerate(scns):
        execute(ctx, s, events, tids, next_tid)
        ctx.count("evaluations")
        ctx.nontriv((s["size"], s["part"], s["uci"], s["caches"]))
        if k == 1:
            ctx.sample({"scenario": s, "events": [dict(e, bytes="...") if e["ev"] == "Begin" else e for e in events[:8]]})
        if len(events) > 60000:
            nrec += len(events)
            judge(ctx, events, tids, "update")
            events = []
    nrec += len(events)
    judge(ctx, events, tids, "update")
    ctx.cov["hex_records_judged"] = nrec
    ctx.assumptions += ["the verifier's Intel-HEX tokenizer (checksums verified) and Hex.tla give hex files their meaning",
                        "address + size <= 2^32 (as the property states)"]


def replay(ctx, rec):
    scn = rec["replay"]["scenario"]
    events, tids = [], {}
    c = [0]

    def next_tid():
        c[0] += 1
        return c[0]

    execute(ctx, scn, events, tids, next_tid)
    ctx.count("evaluations")
    ctx.nontriv("replay")
    ctx.nontriv("replay2")
    ctx.sample({"replayed": scn})
    judge(ctx, events, tids, "replay")
