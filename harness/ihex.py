"""Independent Intel-HEX tokenizer (no intelhex package): records with verified checksums."""
from __future__ import annotations


class HexError(ValueError):
    pass


def records(text: str):
    """Yield (rectype, offset16, data_bytes) for every record line; verifies syntax and checksum."""
    out = []
    for n, line in enumerate(text.splitlines(), 1):
        line = line.strip()
        if not line:
            continue
        if not line.startswith(":"):
            raise HexError(f"line {n}: no start code")
        try:
            raw = bytes.fromhex(line[1:])
        except ValueError:
            raise HexError(f"line {n}: not hex")
        if len(raw) < 5:
            raise HexError(f"line {n}: short record")
        ln, off, typ = raw[0], (raw[1] << 8) | raw[2], raw[3]
        if len(raw) != ln + 5:
            raise HexError(f"line {n}: length mismatch")
        if sum(raw) & 0xFF:
            raise HexError(f"line {n}: bad checksum")
        out.append((typ, off, raw[4:-1]))
    return out


def memory(text: str) -> dict:
    """Python-side reference reader: {absolute address: byte}; raises on overlap (used for cross-checks only)."""
    mem = {}
    ula = 0
    seg = 0
    eof = False
    for typ, off, data in records(text):
        if eof:
            raise HexError("record after EOF")
        if typ == 0:
            for i, b in enumerate(data):
                a = ((ula << 16) + ((off + i) & 0xFFFF) + 0) if seg == 0 else ((seg << 4) + ((off + i) & 0xFFFF))
                a &= 0xFFFFFFFF
                if a in mem:
                    raise HexError(f"address {a:#x} written twice")
                mem[a] = b
        elif typ == 1:
            eof = True
        elif typ == 2:
            seg = (data[0] << 8) | data[1]
            ula = 0
        elif typ == 4:
            ula = (data[0] << 8) | data[1]
            seg = 0
        elif typ in (3, 5):
            pass
        else:
            raise HexError(f"unknown record type {typ}")
    if not eof:
        raise HexError("no EOF record")
    return mem


def extents(mem: dict):
    """Sorted list of (start, bytes) maximal runs."""
    out = []
    cur = None
    for a in sorted(mem):
        if cur is not None and a == cur[0] + len(cur[1]):
            cur[1].append(mem[a])
        else:
            cur = [a, bytearray([mem[a]])]
            out.append(cur)
    return [(s, bytes(b)) for s, b in out]
