"""C18 - output depends only on the inputs.

Use A  Determinism_MC: the interpreter with versioned files, a working directory and environment steps; ALL schedules up to
       length 4 over the operation alphabet are enumerated and every operation is annotated with the key of its inputs.
Use B  schedules emitted by TLC are executed back to back in ONE real interpreter per string-hash seed (harness/detworker.py).
Use C  Ref events (every distinct key executed in a FRESH interpreter, for several PYTHONHASHSEED values) and Exec events
       (each step of each schedule) judged by Determinism_Trace: out = ref[key]; signing/encryption compared after
       erasing the signature value and IV/ciphertext.
"""
from __future__ import annotations

import base64
import json
import os
import subprocess
import sys
from concurrent.futures import ThreadPoolExecutor
from pathlib import Path

import yaml

from . import cborx, core, envgen, project, signrun, toolrun
from .c06_encrypt import project_info

WORKER = str(Path(__file__).resolve().parent / "detworker.py")
FW_OPS = {"create1": "create1", "create1json": "create1", "reuse1": "create1", "failretry": "create1", "create2": "create2", "cache": "cache", "encrypt": "encrypt",
          "create3": "create3", "create3perm": "create3perm"}
CWD_OPS = {"create3rel"}
EXT_OPS = ("extractA", "extractB", "signrecA", "signrecB", "bootB", "bootcfg", "updateB", "signB", "parseyamlA", "parseyamlB", "convertA",
           "convertB", "mpimerge", "cachemerge", "geninfo", "objskip", "objsign", "objsignB")


def prepare(ctx, d: Path):
    (d / "cwd1").mkdir(parents=True)
    (d / "cwd2").mkdir()
    (d / "fw_v1.bin").write_bytes(envgen.blob(300, 1))
    (d / "fw_v2.bin").write_bytes(envgen.blob(301, 2))
    (d / "fw.bin").write_bytes(envgen.blob(300, 1))
    fw = str(d / "fw.bin")
    sh = envgen.random_shape(ctx.rng, maxdepth=0, small=True)
    sh.update({"pad": None, "deps": [], "cid": ["mid", "nordicsemi.com", "nRF54H20_sample_app"], "pay": [["#p", 33, "hex", 5]]})
    b = envgen.Builder(d / "b")
    env = toolrun.create_lib(b.desc(sh, toolrun.create_lib))
    (d / "env.suit").write_bytes(env)
    child_sh = envgen.random_shape(ctx.rng, maxdepth=0, small=True)
    child_sh.update({"pad": None, "deps": []})
    child_desc = b.desc(child_sh, toolrun.create_lib)
    (d / "child.suit").write_bytes(toolrun.create_lib(child_desc))
    d1 = {"SUIT_Envelope_Tagged": {
        "suit-authentication-wrapper": {"SuitDigest": {"suit-digest-algorithm-id": "cose-alg-sha-256"}},
        "suit-manifest": {"suit-manifest-version": 1, "suit-manifest-sequence-number": 7,
                          "suit-common": {"suit-components": [["M", 2, 235577344, 352256]],
                                          "suit-shared-sequence": [{"suit-directive-override-parameters": {
                                              "suit-parameter-vendor-identifier": {"RFC4122_UUID": "nordicsemi.com"},
                                              "suit-parameter-class-identifier": {"RFC4122_UUID": {"namespace": "nordicsemi.com", "name": "x"}},
                                              "suit-parameter-image-digest": {"suit-digest-algorithm-id": "cose-alg-sha-512",
                                                                              "suit-digest-bytes": {"file": fw}},
                                              "suit-parameter-image-size": {"file": fw}}},
                                              {"suit-condition-vendor-identifier": envgen.ALLPOL}]},
                          "suit-validate": [{"suit-condition-image-match": envgen.ALLPOL}],
                          "suit-install": {"suit-digest-algorithm-id": "cose-alg-shake128"},
                          "suit-text": {"suit-digest-algorithm-id": "cose-alg-sha-384"}},
        "suit-install": [{"suit-directive-override-parameters": {"suit-parameter-uri": "#fw"}}, {"suit-directive-fetch": []}],
        "suit-text": {"en": {'["M", 2, 235577344, 352256]': {"suit-text-vendor-name": "V", "suit-text-model-name": "M"}}},
        # "#hexy" is an in-place hex payload; the second working directory holds an unrelated FILE of that very name
        "suit-integrated-payloads": {"#fw": fw, "#hexy": "cafe"}}}
    (d / "cwd2" / "cafe").write_bytes(b"an unrelated file whose name happens to be hex")
    (d / "d1.yaml").write_text(yaml.dump(d1, sort_keys=False))
    (d / "d1.json").write_text(json.dumps(d1))
    d2 = json.loads(json.dumps(d1))
    e2 = d2["SUIT_Envelope_Tagged"]
    e2["suit-manifest"]["suit-manifest-sequence-number"] = 8
    e2["suit-manifest"]["suit-common"]["suit-components"].append(["D", "#dep"])
    e2["suit-manifest"]["suit-common"]["suit-dependencies"] = {"1": {}}
    e2["suit-manifest"]["suit-validate"] += [{"suit-directive-set-component-index": 1}, {"suit-directive-override-parameters": {
        "suit-parameter-image-digest": {"suit-digest-algorithm-id": "cose-alg-sha-256", "suit-digest-bytes": {"envelope": str(d / "child.suit")}}}}]
    e2["suit-integrated-dependencies"] = {"#dep": str(d / "child.suit"), "#inline": child_desc}
    (d / "d2.yaml").write_text(yaml.dump(d2, sort_keys=False))
    # a parent whose dependency is an INLINE description that itself reads fw (digest, size and integrated payload from the file);
    # the same with the dependency's manifest entries in another order; the same with RELATIVE file names (each directory holds
    # its own fw_rel.bin)
    def dep3(path):
        m = json.loads(json.dumps(d1))
        m["SUIT_Envelope_Tagged"]["suit-manifest"]["suit-manifest-sequence-number"] = 3
        s_ = json.dumps(m).replace(json.dumps(fw), json.dumps(path))
        return json.loads(s_)

    def parent3(dep, own=fw):
        p3 = json.loads(json.dumps(d1).replace(json.dumps(fw), json.dumps(own)))
        e3 = p3["SUIT_Envelope_Tagged"]
        e3["suit-manifest"]["suit-manifest-sequence-number"] = 9
        e3["suit-manifest"]["suit-common"]["suit-components"].append(["D", "#dep3"])
        e3["suit-manifest"]["suit-common"]["suit-dependencies"] = {"1": {}}
        e3["suit-manifest"]["suit-validate"] += [{"suit-directive-set-component-index": 1}, {"suit-directive-override-parameters": {
            "suit-parameter-image-digest": {"suit-digest-algorithm-id": "cose-alg-sha-256", "suit-digest-bytes": {"envelope": dep}},
            "suit-parameter-image-size": {"envelope": dep}}}]
        e3["suit-integrated-dependencies"] = {"#dep3": dep}
        return p3

    (d / "d3.json").write_text(json.dumps(parent3(dep3(fw))))
    perm = dep3(fw)
    mf = perm["SUIT_Envelope_Tagged"]["suit-manifest"]
    perm["SUIT_Envelope_Tagged"]["suit-manifest"] = {k: mf[k] for k in reversed(list(mf))}
    (d / "d3p.json").write_text(json.dumps(parent3(perm)))
    (d / "d3rel.json").write_text(json.dumps(parent3(dep3("fw_rel.bin"), str(d / "fw_v1.bin"))))   # the parent itself reads a file that never changes
    (d / "cwd1" / "fw_rel.bin").write_bytes(envgen.blob(280, 11))
    (d / "cwd2" / "fw_rel.bin").write_bytes(envgen.blob(281, 12))
    # an envelope with several integrated payloads at two levels (cache generation from an envelope)
    from .c11_extract import make_env
    inner = make_env(ctx, d, ctx.rng, 901, [(f"#q{i}", envgen.blob(10 + i, 70 + i)) for i in range(4)], [])
    multi = make_env(ctx, d, ctx.rng, 902, [(f"#p{i}", envgen.blob(20 + i, 80 + i)) for i in range(6)], [("#dep_a", inner)])
    (d / "multi.suit").write_bytes(multi)
    inner2 = make_env(ctx, d, ctx.rng, 903, [("#z0", envgen.blob(9, 90))], [])
    mid2 = make_env(ctx, d, ctx.rng, 904, [("#y0", envgen.blob(12, 91))], [("#gamma.suit", inner2)])
    (d / "multi2.suit").write_bytes(make_env(ctx, d, ctx.rng, 905, [("#x0", envgen.blob(15, 92))], [("#beta.suit", mid2)]))
    keys = signrun.Keys(d / "keys")
    (d / "keys" / "fwenc.bin").write_bytes(os.urandom(32))
    # inputs of the extended alphabet (Determinism_MC2)
    sh2 = envgen.random_shape(ctx.rng, maxdepth=0, small=True)
    sh2.update({"pad": None, "deps": [], "cid": ["last", "nordicsemi.com", "nRF54H20_sample_rad"], "pay": [["#q", 21, "hex", 6]]})
    (d / "env2.suit").write_bytes(toolrun.create_lib(envgen.Builder(d / "b2").desc(sh2, toolrun.create_lib)))
    # the build configuration of `bootcfg` EXCHANGES the roles of two built-in default classes (application <-> radio): a later
    # boot without configuration, in the same interpreter, must still see the defaults
    (d / "boot.config").write_text('SB_CONFIG_SUIT_MPI_APP_LOCAL_3=y\nSB_CONFIG_SUIT_MPI_APP_LOCAL_3_VENDOR_NAME="ACME Corp"\n'
                                   'SB_CONFIG_SUIT_MPI_APP_LOCAL_3_CLASS_NAME="acme app"\n'
                                   'SB_CONFIG_SUIT_MPI_APP_LOCAL_1_VENDOR_NAME="nordicsemi.com"\n'
                                   'SB_CONFIG_SUIT_MPI_APP_LOCAL_1_CLASS_NAME="nRF54H20_sample_rad"\n'
                                   'SB_CONFIG_SUIT_MPI_RAD_LOCAL_1_VENDOR_NAME="nordicsemi.com"\n'
                                   'SB_CONFIG_SUIT_MPI_RAD_LOCAL_1_CLASS_NAME="nRF54H20_sample_app"\n')
    (d / "empty.bin").write_bytes(b"")
    # an already signed envelope (input of `objskip`)
    if signrun.sign_single(d / "env.suit", d / "env_signed.suit", keys, "ked", 0x55, "eddsa", "error") is not None:
        raise core.MachineryError("could not prepare the signed input of objskip")
    from . import sigverify as sv
    (d / "keyA.pem").write_bytes(sv.pem(sv.gen_private("p256")))
    (d / "keyB.pem").write_bytes(sv.pem(sv.gen_private("ed25519")))
    ss, kms = signrun.sign_scripts()
    common = {"sign-script": ss, "kms-script": kms, "context": str(d / "keys"), "alg": "eddsa"}
    (d / "recA.json").write_text(json.dumps(dict(common, **{"key-name": "ked", "key-id": "0x21", "dependencies": {
        "#dep_a": {"key-name": "ked", "key-id": "0x22"}}})))
    (d / "recB.json").write_text(json.dumps(dict(common, **{"key-name": "ked", "key-id": "0x31", "dependencies": {
        "#beta.suit": {"key-name": "ked", "key-id": "0x32", "dependencies": {"#gamma.suit": {"key-name": "ked", "key-id": "0x33"}}}}})))
    return keys


def work(d: Path, schedules, seed: str, tag: str):
    job = d / f"job_{tag}.json"
    job.write_text(json.dumps({"schedules": schedules}))
    env = core.cli_env()
    env["PYTHONHASHSEED"] = seed
    p = subprocess.run([core.PY, WORKER, str(core.REPO), str(d), str(job)], capture_output=True, text=True, env=env, cwd=str(d))
    rows = [json.loads(line) for line in p.stdout.splitlines() if line.startswith("{")]
    if p.returncode != 0:
        raise core.MachineryError(f"determinism worker failed: {p.stderr[-600:]}")
    return rows


def normalise(op, outs, keys, terms):
    """bytes whose identity is the output of the operation (signature value / IV / ciphertext erased)."""
    raw = [base64.b64decode(o) for o in outs]
    if op in ("sign", "signB") and raw:
        try:
            e = project.project_env(raw[0], terms, keys.pub)
            blocks = [[b["signer"], b["alg"], b["kid"], b["over"], b["shape"], b["width"]] for b in e["blocks"]]
            return json.dumps([e["others"], e["mfw"], e["dgraw"], blocks]).encode()
        except Exception:
            return b"unparseable:" + raw[0]
    if op == "encrypt" and len(raw) == 4:
        info = project_info(raw[2], terms)
        pub = {k: v for k, v in info.items() if k not in ("ivb", "prot", "iv", "id")}
        return json.dumps([raw[0].hex(), raw[1].decode(errors="replace"), pub, len(raw[3])], sort_keys=True).encode()
    return b"\x00|".join(raw)


def key_of(op, fwver, cwd=1):
    """Determinism!Key rendered as text: canonical operation, versions of the files it reads, directory where it matters."""
    if op in CWD_OPS:
        return f"{op}@cwd{cwd}"
    return f"{FW_OPS[op]}@fw{fwver}" if op in FW_OPS else op


def run(ctx: core.Check):
    ctx.cov["rule"] = ("schedule = sequence of operations {create (YAML), create (JSON), create via the library on a re-loaded "
                       "description, hierarchical create (dependency from a file / inline / inline reading a file that changes / inline with its "
                       "entries permuted / inline with relative file names), parse (flat JSON; two different hierarchies into YAML with hierarchy "
                       "expansion), storage, update, MPI, cache, sign, encrypt} and environment steps "
                       "{new file content at the same path, chdir}; all schedules of length 4 enumerated by TLC, executed back to "
                       "back in one interpreter per PYTHONHASHSEED in {0, 1, 12345, random}; references from fresh interpreters. "
                       "Distinct & non-trivial = distinct (schedule, position) pairs executed after at least one other operation.")
    g = ctx.mc("Determinism_MC", "Determinism_MC.cfg", workers=1, coverage=False, label="A:model-check + B:schedule enumeration")
    scheds = g.tagged("SCN")
    g2 = ctx.mc("Determinism_MC", "Determinism_MC2.cfg", workers=1, coverage=False, label="A:model-check + B:schedules over the extended alphabet")
    s2 = g2.tagged("SCN")
    ctx.rng.shuffle(scheds)
    ctx.rng.shuffle(s2)
    # interleave: every second schedule comes from the extended alphabet
    scheds = [x for pair in zip(scheds, s2 + s2[: max(0, len(scheds) - len(s2))]) for x in pair]
    extra = [["sign", "create1", "sign", "encrypt"], ["encrypt", "touch_fw", "encrypt", "sign"], ["mpi", "update", "mpi", "boot"],
             ["update", "chdir", "update", "mpi"], ["create1", "touch_fw", "create1json", "reuse1"], ["cache", "touch_fw", "cache", "create2"],
             ["cachenv", "create1", "cachenv2", "cachenv"], ["parse", "cachenv2", "chdir", "cachenv"], ["create3", "touch_fw", "create3", "create3perm"],
             ["create3perm", "create3", "touch_fw", "create3perm"], ["create3rel", "chdir", "create3rel", "create3"],
             ["create3", "create3rel", "chdir", "create3rel"], ["parsehA", "parsehB", "parsehA", "parse"],
             ["parsehB", "parsehA", "parsehB", "parsehB"], ["objskip", "objsign", "objsignB", "objskip"], ["objsign", "objskip", "objsignB", "objsign"], ["failretry", "create1", "touch_fw", "failretry"], ["create1json", "failretry", "reuse1", "create1"], ["bootcfg", "bootB", "boot", "bootcfg"], ["boot", "bootcfg", "boot", "bootB"]]
    per_seed = 40 if ctx.quick else 700
    d = ctx.tmp("c18")
    keys = prepare(ctx, d)
    seeds = ["0", "1", "12345", str(ctx.rng.randrange(1, 4000000000))]
    tr = toolrun.Trace()
    tr.begin({"kind": "determinism"})
    # ---- references: each key in a fresh interpreter, per seed
    ref_jobs = []
    for op in ("create1", "create1json", "reuse1", "create2", "cache", "encrypt", "create3", "create3perm"):
        ref_jobs += [(op, 1, [[op]]), (op, 2, [["touch_fw", op]])]
    ref_jobs += [("create3rel", 1, [["create3rel"]]), ("create3rel", 1, [["chdir", "create3rel"]])]
    for op in ("parse", "boot", "update", "mpi", "sign", "cachenv", "cachenv2", "parsehA", "parsehB") + EXT_OPS:
        ref_jobs.append((op, 1, [[op]]))
    ctx.note(f"Use C: {len(ref_jobs) * len(seeds)} fresh-interpreter references")

    def ref(job):
        (op, fwver, sched), seed, n = job
        wd = d / f"ref{n}"
        import shutil
        shutil.copytree(d, wd, ignore=shutil.ignore_patterns("ref*", "run*"))
        return op, fwver, seed, work_in_copy(wd, sched, seed)

    def work_in_copy(wd, sched, seed):
        # the descriptions name absolute paths under d: run in d-relative layout by rewriting the copies
        for f in ("d1.yaml", "d1.json", "d2.yaml", "d3.json", "d3p.json", "d3rel.json", "recA.json", "recB.json"):
            (wd / f).write_text((wd / f).read_text().replace(str(d) + "/", str(wd) + "/"))
        return work(wd, sched, seed, "ref")

    jobs = [((op, v, s), seed, i * 10 + k) for i, (op, v, s) in enumerate(ref_jobs) for k, seed in enumerate(seeds)]
    with ThreadPoolExecutor(max_workers=12) as ex:
        results = list(ex.map(ref, jobs))
    for op, fwver, seed, rows in results:
        last = rows[-1]
        if last["err"]:
            raise core.MachineryError(f"reference run of {op} failed: {last['err']}")
        tr.ev("Ref", key=tr.terms.it.id(key_of(op, fwver, last.get("cwd", 1))), out=tr.terms.it.id(normalise(op, last["outs"], keys, tr.terms)),
              op=op, seed=seed)
    ctx.sample({"reference": {"op": results[0][0], "seed": results[0][2]}, "event": tr.events[1]})
    # ---- schedules in long-running interpreters, one per seed (each in its own copy of the work directory)
    ctx.note(f"Use B/C: {per_seed + len(extra)} schedules back to back in one interpreter, for each of {len(seeds)} hash seeds")

    def long_run(args):
        k, seed = args
        wd = d / f"run{k}"
        import shutil
        shutil.copytree(d, wd, ignore=shutil.ignore_patterns("ref*", "run*"))
        mine = extra + scheds[k * per_seed:(k + 1) * per_seed]
        return seed, mine, work_in_copy(wd, mine, seed)

    with ThreadPoolExecutor(max_workers=4) as ex:
        runs = list(ex.map(long_run, list(enumerate(seeds))))
    for seed, mine, rows in runs:
        for r in rows:
            if r["op"] in ("touch_fw", "chdir"):
                continue
            if r["err"]:
                tr.ev("Exec", key=tr.terms.it.id(key_of(r["op"], r["fwver"], r.get("cwd", 1))), out=-1, op=r["op"], seed=seed, sched=mine[r["s"]], pos=r["i"], err=r["err"])
            else:
                tr.ev("Exec", key=tr.terms.it.id(key_of(r["op"], r["fwver"], r.get("cwd", 1))), out=tr.terms.it.id(normalise(r["op"], r["outs"], keys, tr.terms)),
                      op=r["op"], seed=seed, sched=mine[r["s"]], pos=r["i"])
            ctx.count("evaluations")
            if r["i"] > 0:
                ctx.nontriv((seed, json.dumps(mine[r["s"]]), r["i"]))
    ctx.sample({"schedule": runs[0][1][7], "events": [e for e in tr.events if e.get("sched") == runs[0][1][7]][:4]})
    toolrun.report(ctx, tr, module="Determinism_Trace", label="determinism",
                   keyfn=lambda b, s: f"{b['clause']}:{b['i']}")
    # one trace file, but every fresh-interpreter run and every schedule is a recorded execution of its own
    ctx.cov["traces_validated_against_impl"] += len(results) + sum(len(m) for _, m, _ in runs) - 1
    ctx.cov["schedules_executed"] = sum(len(m) for _, m, _ in runs)
    ctx.cov["fresh_interpreter_references"] = len(results)
    ctx.assumptions += ["'same inputs' = Determinism!Key (operation + versions of the files it reads, absolute paths)",
                        "signature value and IV/ciphertext are erased by projection before comparison"]


def replay(ctx, rec):
    run(ctx)
