"""Concretisation of abstract envelope shapes into descriptions of the tool's YAML/JSON language (+ the files they name).

A *shape* is the abstract scenario (from TLC or from the seeded generators):
  walg, wsup           wrapper digest algorithm; supplied digest: none | wrong | right
  seq                  manifest sequence number
  pad                  None or the exact length the bstr-wrapped manifest must have (23/24/255/256/65535/65536 ...)
  mem                  {member: [mode, alg, sup]}  mode: absent | emb | sev | sevmiss ; sup: none | wrong | right
  cid                  None or [position first|mid|last, vendor, class]
  version              None, list of ints or version string
  pay                  [[name, size, form hex|file, seed]]
  deps                 [[name, child shape, form inline|path, alg the parent names]]
  imgs                 [[form file|file_direct|raw|envelope, alg, size, seed]]   (C05 reference forms)
"""
from __future__ import annotations

import copy
import hashlib
from pathlib import Path

from . import cborx
from .project import HASH_IDS, H, Env

ALGS = ["cose-alg-sha-256", "cose-alg-shake128", "cose-alg-sha-384", "cose-alg-sha-512", "cose-alg-shake256"]
SEV_SEQ = ["suit-payload-fetch", "suit-install", "suit-dependency-resolution", "suit-candidate-verification"]
SEV_ALL = SEV_SEQ + ["suit-text"]
ALLPOL = ["suit-send-record-success", "suit-send-record-failure", "suit-send-sysinfo-success",
          "suit-send-sysinfo-failure"]
WRONG = "0badc0de"


def widen(env: bytes) -> bytes:
    """The same envelope in a form the tool would not write itself: the head of the top-level map in the non-preferred two-byte
    form (a5 -> b8 05).  Every member keeps its bytes; a file is what it is, whatever a re-serialisation of it would look like."""
    if len(env) > 3 and env[:2] == b"\xd8\x6b" and 0xA0 <= env[2] <= 0xB7:
        return env[:2] + bytes([0xB8, env[2] - 0xA0]) + env[3:]
    return env


def widen_block_tags(env: bytes) -> bytes:
    """The same signed envelope as another encoder may write it: tag 18 of every COSE_Sign1 authentication block in the two-byte
    form d8 12 instead of d2 (well-formed CBOR, same data model); all other bytes keep their place, the enclosing byte-string
    heads are re-computed."""
    from . import cborx
    top = cborx.loads(env)
    if top.mt != 6 or top.tag != 107 or top.val.mt != 5:
        return env
    out = b"\xd8\x6b" + cborx.head(5, len(top.val.val))
    for k, v in top.val.val:
        if k.mt == 0 and k.val == 2 and v.mt == 2:
            a = cborx.loads(v.val)
            if a.mt == 4:
                items = []
                for j, it in enumerate(a.val):
                    if j and it.mt == 2 and it.val[:1] == b"\xd2":
                        items.append(cborx.dumps(b"\xd8\x12" + it.val[1:]))
                    else:
                        items.append(it.raw)
                out += k.raw + cborx.dumps(cborx.head(4, len(items)) + b"".join(items))
                continue
        out += k.raw + v.raw
    return out


def blob(size: int, seed: int) -> bytes:
    """Deterministic content per (size, seed).  One seed in eleven yields content made of characters only (see textlike): files
    and payloads are binary whatever they look like, in every check that draws its contents here."""
    if seed % 11 == 5 and size:
        return textlike(size, seed)
    if seed % 13 == 7 and size:   # a long run of the erased-flash value (all of it when short): data like any other
        r = bytearray(_raw(size, seed))
        a = size // 5
        r[a:a + max(48, size // 2)] = b"\xff" * len(r[a:a + max(48, size // 2)])
        return bytes(r)
    return _raw(size, seed)


def _raw(size: int, seed: int) -> bytes:
    out = bytearray()
    k = 0
    while len(out) < size:
        out += hashlib.sha256(f"{seed}:{k}".encode()).digest()
        k += 1
    return bytes(out[:size])


def textlike(size: int, seed: int) -> bytes:
    """Binary content that LOOKS like text to a reader that sniffs: only hex digits (even count when size is even), only decimal
    digits, base64 alphabet with a final newline, or hex digits with white space.  Bytes are bytes: whatever reads a binary file
    must deliver exactly these."""
    kind = (seed // 4) % 4
    raw = _raw(size, seed)
    if kind == 0:
        return bytes(b"0123456789abcdefABCDEF"[x % 22] for x in raw)
    if kind == 1:
        return bytes(b"0123456789"[x % 10] for x in raw)
    if kind == 2:
        body = bytes(b"ABCDEFGHIJKLMNOPQRSTUVWXYZabcdefghijklmnopqrstuvwxyz0123456789+/"[x % 64] for x in raw)
        return body[:-1] + b"\n" if body else body
    return bytes(b"0123456789abcdef \n"[x % 18] if i % 9 == 8 else b"0123456789abcdef"[x % 16] for i, x in enumerate(raw))


def seq_for(member: str, k: int):
    """A small command sequence, different per member."""
    base = {
        "suit-payload-fetch": [{"suit-directive-set-component-index": 0},
                               {"suit-directive-override-parameters": {"suit-parameter-uri": f"http://x/{k}"}},
                               {"suit-directive-fetch": ["suit-send-record-failure"]}],
        "suit-install": [{"suit-directive-set-component-index": 0},
                         {"suit-directive-override-parameters": {"suit-parameter-uri": f"#p{k}"}},
                         {"suit-directive-fetch": ["suit-send-record-failure"]},
                         {"suit-condition-image-match": ALLPOL}],
        "suit-dependency-resolution": [{"suit-directive-set-component-index": 0},
                                       {"suit-condition-abort": []}] if k % 2 else
                                      [{"suit-directive-set-component-index": True},
                                       {"suit-condition-component-slot": ["suit-send-sysinfo-failure"]}],
        "suit-candidate-verification": [{"suit-directive-set-component-index": 0},
                                        {"suit-condition-image-match": ["suit-send-record-success"]}],
    }
    return copy.deepcopy(base[member])


def text_for(k: int):
    return {"en": {'["M", 2, 235577344, 352256]': {"suit-text-vendor-name": "Nordic Semiconductor ASA",
                                                    # (every fifth text carries characters that text tools treat as line breaks)
                                                    "suit-text-model-name": f"model-{k}" + ("\u0085next\u2028line\x0cpage" if k % 5 == 3 else "")},
                   "suit-text-manifest-description": "d" * (k % 40)}}


class Builder:
    def __init__(self, workdir: Path):
        self.dir = Path(workdir)
        self.n = 0
        self.files = {}  # path -> bytes written (inputs the description names)

    noncanon = False  # True: a dependency given by PATH is a valid envelope that is not what the tool itself would write (widen())
    symlink = False   # True: every file the description names is a SYMBOLIC LINK to the file that holds the bytes

    def _file(self, data: bytes, name: str | None = None) -> str:
        self.n += 1
        p = self.dir / (name or f"f{self.n}.bin")
        p.parent.mkdir(parents=True, exist_ok=True)
        if self.symlink:
            target = p.with_name("t_" + p.name)   # link text ("t_<name>") has another length than the file
            target.write_bytes(data)
            if p.is_symlink() or p.exists():
                p.unlink()
            p.symlink_to(target.name)
        else:
            if p.is_symlink():
                p.unlink()
            p.write_bytes(data)
        self.files[str(p)] = data
        return str(p)

    def _wrong(self, sh, k):
        """A supplied digest that is wrong, in one of the NOTATIONS the language has for literal digest bytes: a hex string,
        {raw: hex}, {file_direct: path of a file holding the bytes}."""
        form = (sh.get("supform", 0) + k) % 3
        if form == 1:
            return {"raw": WRONG}
        if form == 2:
            return {"file_direct": self._file(bytes.fromhex(WRONG), f"wrong_digest_{self.n}.bin")}
        return WRONG

    def desc(self, shape: dict, creator=None, level=0) -> dict:
        """Description for `shape`.  creator(desc) -> bytes is needed for 'right' supplied digests, exact padding and
        dependencies given by path (it is the real tool; its output is only used to *measure*)."""
        sh = shape
        mf = {"suit-manifest-version": 1, "suit-manifest-sequence-number": sh.get("seq", 1)}
        comps = [["M", 2, 235577344 + level, 352256]]
        shared = []
        validate = [{"suit-directive-set-component-index": 0}, {"suit-condition-image-match": ALLPOL}]
        envmembers = {}
        payloads = {}
        integrated_deps = {}
        dependencies = {}
        # component id / class
        cid = sh.get("cid")
        if cid:
            shared += [{"suit-directive-override-parameters": {
                "suit-parameter-vendor-identifier": {"RFC4122_UUID": cid[1]},
                "suit-parameter-class-identifier": {"RFC4122_UUID": {"namespace": cid[1], "name": cid[2]}}}},
                {"suit-condition-vendor-identifier": ALLPOL}, {"suit-condition-class-identifier": ALLPOL}]
        # images (C05 reference forms)
        for k, (form, alg, size, seed, *decl) in enumerate(sh.get("imgs", [])):
            data = blob(size, seed)
            declared = decl[0] if decl else size   # file_direct / raw: the number is what the description (or the text file) says
            if form == "file":
                f = self._file(data, sh.get("imgnames", {}).get(str(k)))
                dg, sz = {"file": f}, {"file": f}
            elif form == "file_direct":
                fd = self._file(H(HASH_IDS[alg], data))
                fs = self._file(str(declared).encode())
                dg, sz = {"file_direct": fd}, {"file_direct": fs}
            elif form == "raw":
                dg, sz = {"raw": H(HASH_IDS[alg], data).hex()}, {"raw": declared}
            else:
                raise ValueError(form)
            comps.append(["M", 3 + k, 1000 * k, size])
            validate += [{"suit-directive-set-component-index": len(comps) - 1},
                         {"suit-directive-override-parameters": {
                             "suit-parameter-image-digest": {"suit-digest-algorithm-id": alg, "suit-digest-bytes": dg},
                             "suit-parameter-image-size": sz}},
                         {"suit-condition-image-match": ALLPOL}]
        # dependencies
        for k, (name, child, form, alg) in enumerate(sh.get("deps", [])):
            cdesc = self.desc(child, creator, level + 1) if form != "extpath" else None
            comps.append(["D", name])
            idx = len(comps) - 1
            dependencies[str(idx)] = {}
            if form == "extpath":  # an existing file (possibly signed / not an envelope at all)
                ref = child
                integrated_deps[name] = child
                if alg is None:
                    continue
            elif form == "inline":
                ref = copy.deepcopy(cdesc)
                integrated_deps[name] = copy.deepcopy(cdesc)
            elif form == "alias":
                # ONE object named twice (digest reference and integrated member): what a YAML description with an anchor and
                # an alias loads as; written to a file it is dumped with &id / *id
                ref = cdesc
                integrated_deps[name] = cdesc
            else:
                cbytes = creator(copy.deepcopy(cdesc))
                if self.noncanon:
                    cbytes = widen(cbytes)
                path = self._file(cbytes, f"dep_{self.n}_{level}_{k}_{name.strip('#')}.suit")
                ref = path
                integrated_deps[name] = path
            validate += [{"suit-directive-set-component-index": idx},
                         {"suit-directive-override-parameters": {
                             "suit-parameter-uri": name,
                             "suit-parameter-image-digest": {"suit-digest-algorithm-id": alg,
                                                             "suit-digest-bytes": {"envelope": ref}},
                             "suit-parameter-image-size": {"envelope": copy.deepcopy(ref)}}},
                         {"suit-condition-dependency-integrity": ALLPOL}]
        common = {"suit-components": comps}
        if dependencies:
            common["suit-dependencies"] = dependencies
        if shared:
            common["suit-shared-sequence"] = shared
        mf["suit-common"] = common
        if cid and cid[0] == "first":
            mf["suit-manifest-component-id"] = ["INSTLD_MFST", {"RFC4122_UUID": {"namespace": cid[1], "name": cid[2]}}]
        if sh.get("pad") is not None:
            mf["suit-reference-uri"] = "u"
        mf["suit-validate"] = validate
        if cid and cid[0] == "mid":
            mf["suit-manifest-component-id"] = ["INSTLD_MFST", {"RFC4122_UUID": {"namespace": cid[1], "name": cid[2]}}]
        if sh.get("version") is not None:
            mf["suit-current-version"] = sh["version"]
        mf["suit-invoke"] = [{"suit-directive-set-component-index": 0}, {"suit-directive-invoke": ["suit-send-record-failure"]}]
        for k, m in enumerate(SEV_ALL):
            mode, alg, sup = sh.get("mem", {}).get(m, ["absent", None, None])
            if mode == "absent":
                continue
            content = text_for(k + level) if m == "suit-text" else seq_for(m, k + level)
            if mode == "emb":
                if m == "suit-text":
                    continue  # unsevered text map inside the manifest is outside the properties (F7a)
                mf[m] = content
                continue
            d = {"suit-digest-algorithm-id": alg}
            if sup == "wrong":
                d["suit-digest-bytes"] = self._wrong(sh, k)
            elif sup == "right":
                d["suit-digest-bytes"] = "@right"
            elif sup == "empty":
                d["suit-digest-bytes"] = ""
            mf[m] = d
            if mode == "sev":
                envmembers[m] = content
        if cid and cid[0] == "last":
            mf["suit-manifest-component-id"] = ["INSTLD_MFST", {"RFC4122_UUID": {"namespace": cid[1], "name": cid[2]}}]
        for name, size, form, seed in sh.get("pay", []):
            data = blob(size, seed)
            if form == "hex":
                payloads[name] = data.hex()
            else:
                payloads[name] = self._file(data, sh.get("paynames", {}).get(name))
        dig = {"suit-digest-algorithm-id": sh.get("walg", ALGS[0])}
        if sh.get("wsup") == "wrong":
            dig["suit-digest-bytes"] = self._wrong(sh, 1)
        elif sh.get("wsup") == "right":
            dig["suit-digest-bytes"] = "@right"
        env = {"suit-authentication-wrapper": {"SuitDigest": dig}, "suit-manifest": mf}
        env.update(envmembers)
        if payloads:
            env["suit-integrated-payloads"] = payloads
        if integrated_deps:
            env["suit-integrated-dependencies"] = integrated_deps
        # the order of envelope members in the description is free (and is the order on the wire): 0 as built, 1 dependencies
        # before payloads, 2 integrated members before severed ones, 3 everything after the manifest reversed
        eo = sh.get("eorder", 0)
        if eo:
            head = {k_: env[k_] for k_ in ("suit-authentication-wrapper", "suit-manifest")}
            rest = [k_ for k_ in env if k_ not in head]
            integ = [k_ for k_ in ("suit-integrated-dependencies", "suit-integrated-payloads") if k_ in env]
            if eo == 1:
                rest = [k_ for k_ in rest if k_ not in integ] + integ
            elif eo == 2:
                rest = list(reversed(integ)) + [k_ for k_ in rest if k_ not in integ]
            else:
                rest = list(reversed(rest))
            env = dict(head, **{k_: env[k_] for k_ in rest})
        desc = {"SUIT_Envelope_Tagged": env}
        needs_right = sh.get("wsup") == "right" or any(v[2] == "right" for v in sh.get("mem", {}).values())
        if (sh.get("pad") is not None or sh.get("sevpad") is not None or needs_right) and creator is not None:
            desc = self._fixup(desc, sh, creator)
        return desc

    # ------------------------------------------------------------------------------------------------------------
    def _fixup(self, desc, sh, creator):
        env = desc["SUIT_Envelope_Tagged"]
        mf = env["suit-manifest"]

        def strip_right(d):
            d = copy.deepcopy(d)
            e = d["SUIT_Envelope_Tagged"]
            if e["suit-authentication-wrapper"]["SuitDigest"].get("suit-digest-bytes") == "@right":
                del e["suit-authentication-wrapper"]["SuitDigest"]["suit-digest-bytes"]
            for m in SEV_ALL:
                v = e["suit-manifest"].get(m)
                if isinstance(v, dict) and v.get("suit-digest-bytes") == "@right":
                    del v["suit-digest-bytes"]
            return d

        if sh.get("pad") is not None:
            target = sh["pad"]
            ulen = 1
            for _ in range(8):
                mf["suit-reference-uri"] = "u" * ulen
                out = Env(creator(strip_right(desc)))
                diff = target - len(out.mf_wrapped)
                if diff == 0:
                    break
                ulen = max(0, ulen + diff)
            else:
                # a target can be unreachable (head-width jump); keep the closest
                pass
        if sh.get("sevpad") is not None and isinstance(env.get("suit-text"), dict):
            # the severed text member padded so that its WRAPPED form (the bytes that are hashed) has exactly the target length
            lang = next(iter(env["suit-text"]))
            dlen = 1
            for _ in range(8):
                env["suit-text"][lang]["suit-text-manifest-description"] = "d" * dlen
                o2 = Env(creator(strip_right(desc)))
                got = [len(v.raw) for k_, v in o2.members if k_.mt == 0 and k_.val == 23]
                if not got:
                    break
                diff = sh["sevpad"] - got[0]
                if diff == 0:
                    break
                dlen = max(0, dlen + diff)
        out = Env(creator(strip_right(desc)))
        if env["suit-authentication-wrapper"]["SuitDigest"].get("suit-digest-bytes") == "@right":
            env["suit-authentication-wrapper"]["SuitDigest"]["suit-digest-bytes"] = out.digest.hex()
        keyof = {"suit-dependency-resolution": 15, "suit-payload-fetch": 16, "suit-candidate-verification": 18,
                 "suit-install": 20, "suit-text": 23}
        for m in SEV_ALL:
            v = mf.get(m)
            if isinstance(v, dict) and v.get("suit-digest-bytes") == "@right":
                it = out.manifest_get(keyof[m])
                v["suit-digest-bytes"] = it.val[1].val.hex() if it is not None and it.mt == 4 else ""
        return desc


# ---------------------------------------------------------------------------------------------------------------
# seeded shape generator


def random_shape(rng, depth=0, maxdepth=2, with_cid=False, small=False):
    mem = {}
    for m in SEV_ALL:
        mode = rng.choice(["absent", "absent", "emb", "sev", "sev", "sevmiss"])
        if m == "suit-text" and mode == "emb":
            mode = "sev"
        if mode == "absent":
            continue
        mem[m] = [mode, rng.choice(ALGS), rng.choice(["none", "none", "wrong", "right", "empty"])]
    sh = {"walg": rng.choice(ALGS), "wsup": rng.choice(["none", "wrong", "right"]), "seq": rng.choice([0, 1, 23, 24, 255, 256, 65535, 65536, 2**32 - 1, 2**32]),
          "pad": None if rng.random() < 0.7 or small else rng.choice([23, 24, 255, 256, 300]),
          "mem": mem, "cid": None, "version": rng.choice([None, [1, 2, 3], "1.0.0-rc.2"]),
          "pay": [[f"#p{i}", rng.choice([0, 1, 23, 24, 255, 256, 1000]), rng.choice(["hex", "file"]), rng.randrange(1000)]
                  for i in range(rng.choice([0, 0, 1, 2]))],
          "deps": [], "imgs": []}
    sh["eorder"] = (sh["seq"] % 7 + len(sh["pay"]) + len(mem)) % 4   # derived, so that the random stream is not shifted
    sh["supform"] = (sh["seq"] % 5 + len(mem)) % 3
    if with_cid or rng.random() < 0.5:
        sh["cid"] = [rng.choice(["first", "mid", "last"]), "nordicsemi.com", "nRF54H20_sample_app"]
    if depth < maxdepth and rng.random() < (0.6 if depth == 0 else 0.4):
        for i in range(rng.choice([1, 1, 2])):
            sh["deps"].append([f"#dep{depth}{i}", random_shape(rng, depth + 1, maxdepth, small=True),
                               rng.choice(["inline", "path", "alias"]), rng.choice(ALGS)])
    return sh
