"""C09 - signing policy: already-signed action, key match, recursive configuration.

Use A  Sign_MC (policy table over operation sequences) and Sign_RecMC (RecursiveSigner over a 3-level hierarchy,
       every assignment from the reduced per-node alphabet) against the judges applied to traces.
Use B  the configuration triples enumerated by TLC are concretised: real nested envelopes, real per-node keys and
       ids, real JSON configuration, real `sign recursive`; beyond the alphabet, seeded trees of depth <= 3 with
       two dependencies per node, inherited algorithms, absent / non-envelope dependencies, missing keys.
Use C  Recursive events (input and output hierarchy projected per configured node) judged by RecursiveJudge.
"""
from __future__ import annotations

import json
import os
import subprocess

from . import cborx, core, envgen, project, signrun, tlc, toolrun
from .c04_sign import sign_chain, make_input

PRE = ("kp521", "es-521", 9)  # key used to pre-sign inputs


def leaf_shape(rng, k):
    sh = envgen.random_shape(rng, maxdepth=0, small=True)
    sh["pad"] = None
    sh["deps"] = []
    sh["pay"] = []
    sh["seq"] = k
    return sh


def build(ctx, node, d, keys, rng, counter):
    """Create the hierarchy bottom-up; returns path of the node's file or None (missing)."""
    if node["kind"] == "missing":
        return None
    counter[0] += 1
    n = counter[0]
    if node["kind"] == "raw":
        p = d / f"raw{n}.bin"
        p.write_bytes(bytes([0x83, 1, 2, 3]) + envgen.blob(20, n))  # valid CBOR, not an envelope
        return p
    sh = leaf_shape(rng, n)
    for ch in node.get("children", []):
        cp = build(ctx, ch, d, keys, rng, counter)
        if cp is not None:
            sh["deps"].append([ch["name"], str(cp), "extpath", None if ch["kind"] == "raw" else envgen.ALGS[n % 5]])
    b = envgen.Builder(d / f"n{n}")
    data = toolrun.create_lib(b.desc(sh, toolrun.create_lib))
    p = d / f"node{n}.suit"
    p.write_bytes(data)
    if node.get("pre"):
        q = d / f"node{n}_pre.suit"
        err = signrun.sign_single(p, q, keys, PRE[0], PRE[2], PRE[1], "error")
        if err or not q.exists():
            raise core.MachineryError(f"pre-signing failed: {err}")
        if n % 2:   # signed by ANOTHER encoder: the block's tag in its two-byte form - an already signed envelope all the same
            q.write_bytes(envgen.widen_block_tags(q.read_bytes()))
        p = q
    return p


def cfg_json(node, keys, root=False):
    c = node["cfg"]
    j = {}
    if root:
        ss, kms = signrun.sign_scripts()
        j.update({"sign-script": ss, "kms-script": kms, "context": str(keys.dir)})
    if c.get("omit"):
        j["omit-signing"] = True
    if c.get("haskey", True):
        j["key-name"] = c["key"]
        j["key-id"] = core.num(c["kid"])   # the configuration reads key ids with base 0: hex, decimal, octal and binary are legal
    if c.get("alg"):
        j["alg"] = c["alg"]
    if c.get("action"):
        j["already-signed-action"] = c["action"]
    deps = {ch["name"]: cfg_json(ch, keys) for ch in node.get("children", []) if ch.get("incfg", True)}
    if deps:
        j["dependencies"] = deps
    return j


def member(data: bytes, name: str):
    try:
        e = project.Env(data)
    except Exception:
        return None
    for n, v in e.payloads:
        if n == name and v.mt == 2:
            return v.val
    return None


def is_env(b):
    try:
        project.Env(b)
        return True
    except Exception:
        return False


def nodes_for(tr, keys, node, inp, out, parent_idx, inherited_alg, acc, dummy):
    """Pre-order node records of the configured tree."""
    c = node["cfg"]
    alg = c.get("alg") or inherited_alg
    exists = inp is not None
    isenv = exists and is_env(inp)
    pin = project.project_env(inp, tr.terms, keys.pub) if isenv else dummy
    pout = project.project_env(out, tr.terms, keys.pub) if (out is not None and is_env(out)) else pin
    named = [ch["name"] for ch in node.get("children", []) if ch.get("incfg", True)]
    rec = {"parent": parent_idx, "name": tr.terms.id(node["name"]), "exists": exists, "isenv": isenv,
           "omit": bool(c.get("omit")), "haskey": bool(c.get("haskey", True)), "key": c.get("key", "none"),
           "ktype": keys.kind(c["key"]) if c.get("key") in keys.pub else "none", "alg": alg,
           "kid": hex(c.get("kid", 0)), "action": c.get("action") or "error", "inp": pin, "out": pout,
           "namedk": [tr.terms.id(cborx.dumps(n)) for n in named]}
    acc.append(rec)
    me = len(acc)
    if isenv:
        for ch in node.get("children", []):
            if ch.get("incfg", True):
                ci = member(inp, ch["name"])
                co = member(out, ch["name"]) if out is not None else None
                nodes_for(tr, keys, ch, ci, co, me, alg, acc, dummy)
    return acc


def run_tree(ctx, tr, keys, tree, rng, via="lib", origin=""):
    d = ctx.tmp("c09")
    counter = [0]
    root = build(ctx, tree, d, keys, rng, counter)
    out = d / "signed.suit"
    cfg = cfg_json(tree, keys, root=True)
    err = signrun.sign_recursive(root, out, cfg, via=via)
    written = out.exists()
    inp_b = root.read_bytes()
    out_b = out.read_bytes() if written else None
    scn = {"origin": origin, "via": via, "tree": tree}
    tr.begin(scn)
    dummy = project.project_env(inp_b, tr.terms, keys.pub)
    nodes = nodes_for(tr, keys, tree, inp_b, out_b, 0, "eddsa", [], dummy)
    tr.ev("Recursive", written=written, nodes=nodes, err=(err or "")[:160])
    ctx.count("evaluations")
    ctx.nontriv(json.dumps([[n["exists"], n["isenv"], n["omit"], n["haskey"], n["ktype"], n["alg"], n["action"],
                             len(n["inp"]["blocks"]), n["parent"]] for n in nodes]))
    return written


def tree_from_tlc(scn):
    def cfg(c):
        return {"omit": c["omit"], "haskey": c["haskey"], "key": c["key"], "alg": c["alg"], "action": c["action"],
                "kid": 1}

    def kind(c):
        return "missing" if not c["exists"] else ("env" if c["isenv"] else "raw")

    cr, cc, cg = scn["cfg"]
    g = {"name": "#g", "kind": kind(cg), "pre": cg["pre"], "cfg": cfg(cg), "children": []}
    c = {"name": "#c", "kind": kind(cc), "pre": cc["pre"], "cfg": cfg(cc),
         "children": [g, {"name": "#x", "kind": "raw", "incfg": False, "cfg": {}}]}
    r = {"name": "root", "kind": "env", "pre": cr["pre"], "cfg": cfg(cr),
         "children": [c, {"name": "#y", "kind": "raw", "incfg": False, "cfg": {}}]}
    return r


def random_tree(rng, depth=0, name="root"):
    keyalg = rng.choice([("kp256", "es-256"), ("kp384", "es-384"), ("kp521", "es-521"), ("ked", "eddsa"),
                         ("ked", "hash-eddsa"), ("kedb", None), ("ked448", "eddsa"), ("kp256b", "es-256"),
                         ("kp256", "eddsa"), ("ked", "es-256")])
    cfg = {"omit": rng.random() < 0.25, "haskey": rng.random() < 0.9, "key": keyalg[0], "alg": keyalg[1],
           "action": rng.choice([None, "error", "skip", "remove-old"]),
           "kid": rng.choice([0, 23, 24, 255, 256, 65535, 65536, 0x4000AA00, 2**32 - 1])}
    if cfg["omit"] and rng.random() < 0.5:
        cfg["haskey"] = False
    node = {"name": name, "kind": "env", "pre": rng.random() < 0.3, "cfg": cfg, "children": []}
    if depth < 3:
        for i in range(rng.choice([0, 1, 1, 2]) if depth else rng.choice([1, 2])):
            ch = random_tree(rng, depth + 1, f"#d{depth}{i}")
            r = rng.random()
            if r < 0.06:
                ch["kind"] = "missing"
            elif r < 0.12:
                ch["kind"] = "raw"
            elif r < 0.3:
                ch["incfg"] = False
            node["children"].append(ch)
    return node


WRAPPER = """import importlib.util, json
REAL = {real!r}
LOG = {log!r}
ID = {id!r}
_spec = importlib.util.spec_from_file_location("verif_real_sign_script_" + ID, REAL)
_m = importlib.util.module_from_spec(_spec)
_spec.loader.exec_module(_m)


class Signer(_m.Signer):
    def sign_envelope(self, input_envelope, key_name, key_id, algorithm, context, kms_script, already_signed_action):
        with open(LOG, "a") as f:
            f.write(json.dumps({{"sign": ID, "key": key_name, "kid": key_id, "alg": algorithm.value, "ctx": context,
                                 "kms": str(kms_script), "action": already_signed_action.value}}) + "\\n")
        return super().sign_envelope(input_envelope, key_name, key_id, algorithm, context, kms_script, already_signed_action)


def suit_signer_factory():
    return Signer()
"""


class ResolveWorld:
    """Plug-in scripts that make the resolution observable: sign scripts A, B (configuration), E (NCS_SUIT_SIGN_SCRIPT), Z
    (under ZEPHYR_BASE) are thin wrappers around the repository's sign script that log the call RecursiveSigner makes for a
    node (every resolved setting is an argument of that call); KMS scripts A, B, E, Z are copies of the repository's
    basic_kms.py, told apart by their path; contexts C1, C2 and every script directory hold a key 'ked'."""

    def __init__(self, d, keys):
        import shutil
        self.d = d
        self.log = d / "calls.ndjson"
        real_sign, real_kms = signrun.sign_scripts()
        ked = (keys.dir / "ked.pem").read_bytes()
        self.sign, self.kms, self.ctx = {}, {}, {}
        zdir = d / "zb" / "modules" / "lib" / "suit-generator" / "ncs"
        (d / "zb" / "zephyr").mkdir(parents=True)
        self.zephyr_base = str(d / "zb" / "zephyr")
        for ident in ("A", "B", "E", "Z"):
            sd = zdir if ident == "Z" else d / ident
            sd.mkdir(parents=True, exist_ok=True)
            sp = sd / ("sign_script.py" if ident == "Z" else f"sign_{ident}.py")
            kp = sd / ("basic_kms.py" if ident == "Z" else f"kms_{ident}.py")
            sp.write_text(WRAPPER.format(real=real_sign, log=str(self.log), id=ident))
            shutil.copyfile(real_kms, kp)
            (sd / "ked.pem").write_bytes(ked)
            self.sign[ident], self.kms[ident] = str(sp), str(kp)
        for c in ("C1", "C2"):
            (d / c).mkdir()
            (d / c / "ked.pem").write_bytes(ked)
            self.ctx[c] = str(d / c)
        self.kms_id = {os.path.realpath(v): k for k, v in self.kms.items()}
        self.ctx_id = {os.path.realpath(v): k for k, v in self.ctx.items()}

    def environment(self, env):
        e = {}
        if env["ncsSign"]:
            e["NCS_SUIT_SIGN_SCRIPT"] = self.sign["E"]
        if env["ncsKms"]:
            e["NCS_SUIT_KMS_SCRIPT"] = self.kms["E"]
        if env["zephyr"]:
            e["ZEPHYR_BASE"] = self.zephyr_base
        return e

    def node_json(self, own, kid):
        j = {"key-name": "ked", "key-id": hex(kid)}
        if own["sign"] != "none":
            j["sign-script"] = self.sign[own["sign"]]
        if own["kms"] != "none":
            j["kms-script"] = self.kms[own["kms"]]
        if own["ctx"] != "none":
            j["context"] = self.ctx[own["ctx"]]
        if own["alg"] != "none":
            j["alg"] = own["alg"]
        if own["action"] != "none":
            j["already-signed-action"] = own["action"]
        return j


ENVVARS = ("NCS_SUIT_SIGN_SCRIPT", "NCS_SUIT_KMS_SCRIPT", "ZEPHYR_BASE")


def run_resolve(ctx, tr, world: ResolveWorld, root_file, s, via="lib"):
    """One Resolve_MC scenario: chain of own settings (root, child, grandchild) x environment -> real `sign recursive`."""
    chain, env = s["chain"], s["env"]
    kids = [0x101, 0x102, 0x103]
    cfg = world.node_json(chain[0], kids[0])
    cfg["dependencies"] = {"#c": world.node_json(chain[1], kids[1])}
    cfg["dependencies"]["#c"]["dependencies"] = {"#g": world.node_json(chain[2], kids[2])}
    out = world.d / "resolved.suit"
    cfile = world.d / "resolve_cfg.json"
    cfile.write_text(json.dumps(cfg))
    for f in (out, world.log):
        if f.exists():
            f.unlink()
    extra = world.environment(env)
    if via == "cli":
        e = core.cli_env()
        for v in ENVVARS:
            e.pop(v, None)
        e.update(extra)
        subprocess.run(core.cli_cmd("sign", "recursive", "--input-envelope", root_file, "--output-envelope", out, "--configuration", cfile),
                       cwd=world.d, env=e, capture_output=True, text=True)
    else:
        core.setup_repo_path()
        from suit_generator import cmd_sign
        saved = {v: os.environ.pop(v, None) for v in ENVVARS}
        os.environ.update(extra)
        try:
            cmd_sign.main(sign_subcommand="recursive", input_envelope=root_file, output_envelope=out, configuration=cfile)
        except BaseException as ex:
            if isinstance(ex, (KeyboardInterrupt, SystemExit, MemoryError)):
                raise
        finally:
            for v in ENVVARS:
                os.environ.pop(v, None)
                if saved[v] is not None:
                    os.environ[v] = saved[v]
    calls = [json.loads(x) for x in world.log.read_text().splitlines()] if world.log.exists() else []
    used = []
    for kid in kids:
        for c in calls:
            if c["kid"] == kid:
                used.append({"sign": c["sign"], "kms": world.kms_id.get(os.path.realpath(c["kms"]), "?"),
                             "ctx": "none" if c["ctx"] is None else world.ctx_id.get(os.path.realpath(c["ctx"]), "?"),
                             "alg": c["alg"], "action": c["action"]})
    tr.begin({"origin": "resolve", "via": via, "resolve": s})
    tr.ev("Resolve", env=env, chain=chain, written=out.exists(), used=used)
    ctx.count("evaluations")
    ctx.nontriv(("resolve", json.dumps(s, sort_keys=True)))


def resolve_root(ctx, d, keys):
    """root -> #c -> #g, unsigned."""
    def node(name, children):
        return {"name": name, "kind": "env", "pre": False, "cfg": {"omit": False, "haskey": True, "key": "ked", "alg": None, "action": None, "kid": 1},
                "children": children}
    d.mkdir(parents=True, exist_ok=True)
    return build(ctx, node("root", [node("#c", [node("#g", [])])]), d, keys, ctx.rng, [0])


def run(ctx: core.Check):
    ctx.cov["rule"] = ("single-level: operation sequences (3 actions x keys x algorithms x ids) from TLC; recursive: every "
                       "configuration triple of the reduced per-node alphabet over a 3-level hierarchy (TLC, Sign_RecMC) + "
                       "seeded trees of depth <= 3 (two dependencies per node, inherited algorithm, absent/non-envelope "
                       "dependencies, missing keys, pre-signed nodes); resolution of sign-script / kms-script / context / algorithm / action per node "
                       "over own settings x {NCS_SUIT_SIGN_SCRIPT, NCS_SUIT_KMS_SCRIPT, ZEPHYR_BASE} (TLC, Resolve_MC). Distinct & non-trivial = distinct per-node "
                       "(exists, envelope, omit, key, type, algorithm, action, pre-signed) assignment.")
    ctx.note("Use A: Sign_MC + Sign_RecMC")
    ctx.mc("Sign_MC", "Sign_MC.cfg", required_actions=("SignOp",))
    # one run serves Use A (invariants RecursiveAccepted, WrittenIffNoNodeFails) and Use B (Emit)
    g = ctx.mc("Sign_RecMC", "Sign_RecGen.cfg", workers=1, coverage=False, timeout=1800,
               label="A:model-check + B:scenario-generation")
    scns = g.tagged("SCN")
    if len(scns) != g.distinct:
        raise core.MachineryError(f"Sign_RecGen printed {len(scns)} scenarios for {g.distinct} states")
    ctx.rng.shuffle(scns)
    ok = [s for s in scns if s["written"]]
    ko = [s for s in scns if not s["written"]]
    nq = 150 if ctx.quick else 3000
    scns = ok[:nq] + ko[:nq]
    d = ctx.tmp("c09k")
    keys = signrun.Keys(d / "keys")
    tr = toolrun.Trace()
    ctx.note(f"Use B/C: {len(scns)} TLC configurations -> real sign recursive")
    drift = 0
    for k, s in enumerate(scns):
        w = run_tree(ctx, tr, keys, tree_from_tlc(s), ctx.rng, via="cli" if k % 50 == 0 else "lib", origin="tlc")
        drift += (w != s["written"])
        if k == 0:
            ctx.sample({"tlc_configuration": s, "event": tr.events[-1]})
    ctx.cov["drift_model_vs_code"] = drift
    toolrun.report(ctx, tr, label="recursive-tlc")
    ctx.note("Use C: seeded configuration trees")
    tr = toolrun.Trace()
    for k in range(120 if ctx.quick else 3000):
        run_tree(ctx, tr, keys, random_tree(ctx.rng), ctx.rng, via="cli" if k % 60 == 0 else "lib", origin="random")
        if len(tr.events) > 3000:
            toolrun.report(ctx, tr, label="recursive-random")
            tr = toolrun.Trace()
    toolrun.report(ctx, tr, label="recursive-random")
    # resolution of the settings a node is signed with ("with inherited defaults"): own > inherited > environment > ZEPHYR_BASE
    ctx.note("Use A/B/C: Resolve_MC scenarios (own settings x environment) -> real sign recursive with logging plug-in scripts")
    g = ctx.mc("Resolve_MC", "Resolve_MC.cfg", workers=1, coverage=False, label="A:precedence invariants + B:scenario enumeration")
    rs = g.tagged("SCN")
    ctx.rng.shuffle(rs)
    refused = [x for x in rs if x["refused"]]
    rs = [x for x in rs if not x["refused"]][: (160 if ctx.quick else 4000)] + refused[: (12 if ctx.quick else 300)]
    wd = ctx.tmp("c09res")
    world = ResolveWorld(wd, keys)
    root_file = resolve_root(ctx, wd / "tree", keys)
    tr = toolrun.Trace()
    for k, s_ in enumerate(rs):
        run_resolve(ctx, tr, world, root_file, s_, via="cli" if k % 40 == 0 else "lib")
    ctx.sample({"resolve_scenario": rs[0], "event": tr.events[1]})
    toolrun.report(ctx, tr, label="resolve")
    # single-level policy table on singly signed / unsigned inputs, all algorithms and key types
    ctx.note("Use C: single-level policy table")
    tr = toolrun.Trace()
    inputs = [make_input(ctx, ctx.rng, d, k) for k in range(6)]
    k = 0
    for first in (None, ("error", "kp384", "es-384", 7)):
        for action in ("error", "skip", "remove-old"):
            for alg in ("es-256", "es-384", "es-521", "eddsa", "hash-eddsa"):
                for key in ("kp256", "kp384", "kp521", "ked", "ked448"):
                    if key == "ked448" and alg == "hash-eddsa":
                        continue  # Ed448ph is outside the five supported algorithms
                    sh, p = inputs[k % len(inputs)]
                    k += 1
                    ops = ([first] if first else []) + [(action, key, alg, 0x10 + k)]
                    sign_chain(ctx, tr, keys, sh, p, ops, origin="policy")
    toolrun.report(ctx, tr, label="policy-table")
    ctx.assumptions += ["as C04; exception class and message of a refusal are not judged, only 'no output file'"]


def replay(ctx, rec):
    scn = rec["replay"]["scenario"]
    d = ctx.tmp("c09r")
    keys = signrun.Keys(d / "keys")
    tr = toolrun.Trace()
    if "resolve" in scn:
        world = ResolveWorld(d / "res", keys)
        run_resolve(ctx, tr, world, resolve_root(ctx, d / "tree", keys), scn["resolve"], via=scn.get("via", "lib"))
    elif "tree" in scn:
        run_tree(ctx, tr, keys, scn["tree"], ctx.rng, via=scn.get("via", "lib"), origin="replay")
    else:
        b = envgen.Builder(d)
        data = toolrun.create_lib(b.desc(scn["shape"], toolrun.create_lib))
        p = d / "in.suit"
        p.write_bytes(data)
        sign_chain(ctx, tr, keys, scn["shape"], p, [tuple(o) for o in scn["ops"]], via=scn.get("via", "lib"))
    ctx.nontriv("replay")
    ctx.nontriv("replay2")
    ctx.sample({"replayed": scn})
    toolrun.report(ctx, tr, label="replay")
