"""Independent walker over SUIT manifests: flattens command sequences into (sequence, code, argument item) steps."""
from __future__ import annotations

from . import cborx

SEQ_KEYS = {7: "validate", 8: "load", 9: "invoke", 16: "payload-fetch", 20: "install", 15: "dependency-resolution",
            18: "candidate-verification", 24: "uninstall", 17: "install-legacy"}
TRY_EACH, RUN_SEQUENCE = 15, 32


def unwrap(it: cborx.Item):
    """bstr .cbor X -> X item (or None)."""
    if it.mt != 2:
        return None
    try:
        return cborx.loads(it.val)
    except cborx.CborError:
        return None


def flatten(seq_item: cborx.Item, name: str, out: list, depth=0):
    """seq_item: array [code, arg, code, arg ...]"""
    if seq_item is None or seq_item.mt != 4 or len(seq_item.val) % 2:
        out.append((name, -1, None, depth))
        return
    v = seq_item.val
    for i in range(0, len(v), 2):
        code, arg = v[i], v[i + 1]
        c = code.val if code.mt in (0, 1) else -1
        out.append((name, c, arg, depth))
        if c == TRY_EACH and arg.mt == 4:
            for alt in arg.val:
                flatten(unwrap(alt), name, out, depth + 1)
        elif c == RUN_SEQUENCE:
            flatten(unwrap(arg), name, out, depth + 1)


def manifest_steps(env, severed: dict | None = None):
    """All steps of a manifest (cborx map item): shared sequence first, then each command sequence in key order.
    severed: envelope-level severed members {key: bstr item} used when the manifest holds only a digest."""
    m = env.manifest
    steps = []
    common = m.get(3)
    comps, deps = [], {}
    if common is not None:
        c = unwrap(common)
        if c is not None and c.mt == 5:
            cc = c.get(2)
            if cc is not None and cc.mt == 4:
                comps = cc.val
            dd = c.get(1)
            if dd is not None and dd.mt == 5:
                deps = {k.val: v for k, v in dd.val}
            sh = c.get(4)
            if sh is not None:
                flatten(unwrap(sh), "shared", steps)
    for key, name in SEQ_KEYS.items():
        it = m.get(key)
        if it is None:
            continue
        if it.mt == 2:
            flatten(unwrap(it), name, steps)
        elif it.mt == 4 and severed and key in severed:  # digest in the manifest, member in the envelope
            flatten(unwrap(severed[key]), name, steps)
    return comps, deps, steps
