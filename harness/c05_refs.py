"""C05 - digests, sizes and payloads taken from files describe those exact files.

Use A  Envelope_MC: ParentBindsChild (the parent records the hash of the dependency's manifest as created on its own;
       referencing a stale child is a counterexample) together with I1-I3.
Use B  TLC-enumerated parent/child member combinations (children with stale supplied digests) are concretised.
Use C  created envelopes are walked with the verifier's manifest walker: every image-digest / image-size parameter, every
       text-keyed member and every dependency becomes a Ref / Embed / ChildBind event (term lookup with hashlib; the
       dependency created on its own by the real tool is the reference for 'embedded identically'); Tool_Trace judges.
"""
from __future__ import annotations

import copy
import json

from . import core, envgen, project, seqwalk, tlc, toolrun
from .c01_create import shape_from_tlc
from .project import HASH_IDS

SIZES = [0, 1, 23, 24, 255, 256, 65535, 65536, 64, 128, 136, 168, 4095, 4096, 4097, 8192]   # CBOR widths; hash / buffer block sizes
HEXY = ["cafe.bin", "deadbeef/fw", "0x1234", "abcdefg", "00ff.img", "Fw.BIN", "a b/c d.bin", "fw[1].bin", "fw*?.bin", "~fw$HOME.bin", "ab cd", "12 34 56", "ca fe.bin"]


def collect_params(env):
    """[(digest alg, digest bytes, size)] of every override/set-parameters step carrying an image digest, in order."""
    out = []
    _, _, steps = seqwalk.manifest_steps(env, {k.val: v for k, v in env.members if k.mt == 0})
    for name, code, arg, depth in steps:
        if code in (19, 20) and arg is not None and arg.mt == 5:
            d = arg.get(3)
            s = arg.get(14)
            if d is not None:
                alg, dg = None, b""
                inner = seqwalk.unwrap(d)
                if inner is not None and inner.mt == 4 and len(inner.val) == 2 and inner.val[1].mt == 2:
                    alg, dg = inner.val[0].val, inner.val[1].val
                out.append((alg, dg, s.val if s is not None and s.mt == 0 else -1))
    return out


def standalone(b: envgen.Builder, child_shape, level):
    """The dependency created on its own by the real tool (same files: the builder is deterministic per shape)."""
    desc = b.desc(child_shape, toolrun.create_lib, level)
    return toolrun.create_lib(desc)


def reversion(shape):
    """The same description text over NEW file contents: every file-backed image / payload gets other bytes (and another size)
    at the SAME path - version 2 of the files of a history in one process."""
    sh = json.loads(json.dumps(shape))
    sh["symlink"] = shape.get("symlink", False)
    sh["imgs"] = [[f, a, size + (1 if size not in (0, 65535) else 0), seed + 7919, *rest] for f, a, size, seed, *rest in sh.get("imgs", [])]
    sh["pay"] = [[n, size + 1, form, seed + 7919] for n, size, form, seed in sh.get("pay", [])]
    sh["deps"] = [[n, reversion(c), form, a] for n, c, form, a in sh.get("deps", [])]
    return sh


def run_shape(ctx, tr, shape, via, origin, d=None, prev=None):
    d = d or ctx.tmp("c05")
    b = envgen.Builder(d)
    b.symlink = bool(shape.get("symlink"))
    b.noncanon = bool(shape.get("noncanon"))   # "those exact files": a path that is a symbolic link names the file it points to
    scn = {"origin": origin, "via": via, "shape": shape}
    if prev is not None:
        scn["prev"] = prev   # the description created just before, in the same process, over the same paths
    tr.begin(scn)
    try:
        desc = b.desc(shape, toolrun.create_lib)
        out = toolrun.create_lib(desc) if via == "lib" else toolrun.create_cli(desc, d, fmt=via)
    except Exception as e:
        out = None
        ctx.observe(f"create refused a generated description: {type(e).__name__}: {str(e)[:100]}")
    if out is None:
        # not a verdict of C05 (nothing was created); skipped and counted, systemic refusals fail the run as machinery
        ctx.count("refused_by_create")
        tr.events.pop()
        tr.tid -= 1
        return
    t = tr.terms
    env = project.Env(out)
    for path, data in toolrun.levels(out):
        tr.ev("Created", name=path, e=project.project_env(data, t))
    params = collect_params(env)
    k = 0
    # images
    for i, (form, alg, size, seed, *decl) in enumerate(shape.get("imgs", [])):
        data = envgen.blob(size, seed)
        found = params[k] if k < len(params) else (None, b"", -1)
        if decl:   # a declared number beyond TLC's integers: both sides are renamed injectively (the judge only compares them)
            big = lambda v: v if v < 2 ** 30 else 2 ** 30 + t.it.id(str(v))   # noqa: E731
            found = (found[0], found[1], big(found[2]) if found[2] >= 0 else found[2])
            size = big(decl[0])
        k += 1
        want_alg = HASH_IDS[alg]
        dgb = project.H(want_alg, data)
        t.id(data)
        tr.ev("Ref", form=form, alg=found[0] if found[0] is not None else 0, wantalg=want_alg,
              pre=t.pre(want_alg, found[1]), want=t.id(data), got=t.id(found[1]), size=found[2], wantsize=size)
        if form in ("file_direct", "raw"):
            tr.events[-1]["want"] = t.id(dgb)
        ctx.nontriv(("img", form, alg, size))
    # dependencies
    for j, (name, child, form, alg) in enumerate(shape.get("deps", [])):
        b2 = envgen.Builder(d / f"alone{j}")
        b2.noncanon = b.noncanon   # (dependencies of the dependency are files of the same kind)
        alone = standalone(b2, child, 1)
        if shape.get("noncanon") and form == "path":
            alone = envgen.widen(alone)   # the file holds the envelope in a non-preferred encoding: THOSE bytes are the dependency
        tr.ev("Created", name=f"alone{j}", e=project.project_env(alone, t))
        found = params[k] if k < len(params) else (None, b"", -1)
        k += 1
        want_alg = HASH_IDS[alg]
        tr.ev("ChildBind", pre=t.pre(want_alg, found[1]), child=f"alone{j}")
        tr.ev("Ref", form="envelope", alg=found[0] if found[0] is not None else 0, wantalg=want_alg,
              pre=t.pre(want_alg, found[1]), want=tr.events[-2]["e"]["mfw"], got=-1, size=found[2], wantsize=len(alone))
        emb = [v for n, v in env.payloads if n == name]
        tr.ev("Embed", kind="dep", got=t.id(emb[0].val) if emb and emb[0].mt == 2 else -1, want=t.id(alone))
        ctx.nontriv(("dep", form, alg, json.dumps(child["mem"], sort_keys=True), bool(child.get("deps"))))
    # payloads
    for name, size, form, seed in shape.get("pay", []):
        data = envgen.blob(size, seed)
        emb = [v for n, v in env.payloads if n == name]
        tr.ev("Embed", kind="pay", got=t.id(emb[0].val) if emb and emb[0].mt == 2 else -1, want=t.id(data))
        ctx.nontriv(("pay", form, size, shape.get("paynames", {}).get(name, "")))
    ctx.count("evaluations")
    return d


EDGE_BYTES = (0x09, 0x0A, 0x0D, 0x20, 0x00, 0xFF)


def edge_seed(size, pred, start):
    """A blob seed whose content / digest satisfies pred (bytes that text handling treats specially at either end)."""
    for seed in range(start, start + 200000):
        if pred(envgen.blob(size, seed)):
            return seed
    raise core.MachineryError("no edge seed found")


def edge_shapes(ctx):
    """Files and digests whose FIRST or LAST byte is whitespace / NUL / 0xFF: 'those exact files' includes these bytes."""
    out = []
    k = 0
    for alg in envgen.ALGS:
        for pos in (0, -1):
            for b in EDGE_BYTES if not ctx.quick else EDGE_BYTES[(len(out) // 3) % 2::2]:
                k += 1
                size = 33 + k
                # (1) the DIGEST has the edge byte (matters for file_direct / raw forms), (2) the FILE CONTENT has it (file form,
                # payload by path)
                s1 = edge_seed(size, lambda d_: project.H(HASH_IDS[alg], d_)[pos] == b, 1000 * k)
                s2 = edge_seed(size, lambda d_: d_[pos] == b, 1000 * k)
                for form, seed in (("file_direct", s1), ("raw", s1), ("file", s2)):
                    out.append({"walg": envgen.ALGS[k % 5], "wsup": "none", "seq": k, "pad": None, "mem": {}, "cid": None, "version": None,
                                "pay": [[f"#e{k}", size, "file", s2]], "deps": [], "imgs": [[form, alg, size, seed]]})
    return out


def ref_shapes(ctx):
    rng = ctx.rng
    out = edge_shapes(ctx)
    k = 0
    for form in ("file", "file_direct", "raw"):
        for alg in envgen.ALGS:
            for size in (SIZES if not ctx.quick else [SIZES[(k + i) % len(SIZES)] for i in range(3)]):
                k += 1
                out.append({"walg": envgen.ALGS[k % 5], "wsup": "none", "seq": k, "pad": None, "mem": {}, "cid": None, "version": None,
                            "pay": [[f"#p{k}", SIZES[k % len(SIZES)] if k % 3 else 70000, "file" if k % 2 else "hex", k]],
                            "paynames": {f"#p{k}": HEXY[k % len(HEXY)]}, "imgnames": {"0": HEXY[(k + 3) % len(HEXY)]},
                            "deps": [], "imgs": [[form, alg, size, 1000 + k]]})
    # declared sizes (file_direct: the number in the text file; raw) beyond 2^32: 2^53 and its neighbours (where a detour through
    # floating point starts to round), 10^16 + 1, 2^63 - 1, 2^64 - 1 (the last unsigned head)
    for j, decl in enumerate([2 ** 32, 2 ** 53 - 1, 2 ** 53, 2 ** 53 + 1, 10 ** 16 + 1, 2 ** 63 - 1, 2 ** 63, 2 ** 64 - 1, 2 ** 40 + 7]):
        for form in ("file_direct", "raw"):
            k += 1
            out.append({"walg": envgen.ALGS[k % 5], "wsup": "none", "seq": k, "pad": None, "mem": {}, "cid": None, "version": None, "pay": [],
                        "deps": [], "imgs": [[form, envgen.ALGS[(k + j) % 5], 24, 2000 + k, decl]]})
    # nesting depth >= 2 with stale supplied digests in the children
    for n in range(25 if ctx.quick else 600):
        sh = envgen.random_shape(rng, maxdepth=3)
        if not sh["deps"]:
            sh["deps"] = [["#dep", envgen.random_shape(rng, depth=1, maxdepth=3, small=True), rng.choice(["inline", "path", "alias"]), rng.choice(envgen.ALGS)]]
        sh["imgs"] = [[rng.choice(["file", "file_direct", "raw"]), rng.choice(envgen.ALGS), rng.choice(SIZES[:6]), rng.randrange(9999)]]
        out.append(sh)
    return out


def run(ctx: core.Check):
    ctx.cov["rule"] = ("reference forms {file, file_direct, raw, envelope(inline|path)} x five algorithms x file sizes {0, 1, 23, 24, "
                       "255, 256, 65535, 65536} x digests and file contents whose first / last byte is whitespace, NUL or 0xFF (found by search) x payloads by path with hex-looking names x dependency nesting to depth 3 with "
                       "stale supplied digests in children (TLC-enumerated parent/child combinations + seeded); every third description is "
                       "created again in the same process after all its files got other contents at the same paths. Distinct & "
                       "non-trivial = distinct (kind, form, algorithm, size | child member modes).")
    ctx.note("Use A: Envelope_MC (ParentBindsChild)")
    ctx.mc("Envelope_MC", "Envelope_MC.cfg", required_actions=("FromObj", "Update", "Write"))
    g = tlc.run_tlc("Envelope_MC", "Envelope_Gen2.cfg", workers=1)
    tlc.require_ok(g, "Envelope_Gen2")
    hists = g.tagged("SCN")
    ctx.cov["tlc_runs"].append({"module": "Envelope_MC", "cfg": "Envelope_Gen2.cfg", "use": "B:scenario-generation", "scenarios": len(hists)})
    ctx.rng.shuffle(hists)
    if ctx.quick:
        hists = hists[:150]
    tr = toolrun.Trace()
    ctx.note(f"Use B/C: {len(hists)} TLC parent/child combinations; reference-form product")
    for k, h in enumerate(hists):
        run_shape(ctx, tr, shape_from_tlc(h, k), "lib" if k % 15 else "yaml", "tlc")
        if k == 1:
            ctx.sample({"tlc_scenario": h, "events": [e for e in tr.of(tr.tid) if e["ev"] != "Created"]})
    toolrun.report(ctx, tr, label="refs-tlc")
    tr = toolrun.Trace()
    for k, sh in enumerate(ref_shapes(ctx)):
        sh["symlink"] = k % 4 == 2
        sh["noncanon"] = k % 3 == 1
        via = "lib" if k % 12 else ("json" if k % 24 else "yaml")
        d = run_shape(ctx, tr, sh, via, "forms")
        if d is not None and k % 3 == 1:
            # history: the same paths now hold other bytes; the same process creates again ("those exact files" = the files as
            # they are at the time of THIS create)
            run_shape(ctx, tr, reversion(sh), "lib", "forms/rewrite", d=d, prev=sh)
            ctx.count("recreated_after_files_changed")
        if k == 0:
            ctx.sample({"shape": sh, "events": [e for e in tr.of(tr.tid) if e["ev"] != "Created"]})
        if len(tr.events) > 6000:
            toolrun.report(ctx, tr, label="refs-forms")
            tr = toolrun.Trace()
    toolrun.report(ctx, tr, label="refs-forms")
    if ctx.cov.get("refused_by_create", 0) > 0.2 * max(1, ctx.cov["evaluations"]):
        raise core.MachineryError(f"create refused {ctx.cov['refused_by_create']} generated descriptions")
    ctx.observe("O2: a payload value consisting only of hex digits is a hex literal even if a file of that name exists; names that "
                "are entirely hex digits are therefore not generated")
    ctx.assumptions += ["hashlib; own CBOR reader and manifest walker", "the dependency created on its own by the real tool is the "
                        "reference for 'embedded byte-identically' (its own digests are judged by C01's clauses in the same trace)"]


def replay(ctx, rec):
    scn = rec["replay"]["scenario"]
    tr = toolrun.Trace()
    d = None
    if scn.get("prev"):
        d = run_shape(ctx, toolrun.Trace(), scn["prev"], "lib", "replay-prev")
    run_shape(ctx, tr, scn["shape"], scn.get("via", "lib"), "replay", d=d)
    ctx.nontriv("replay")
    ctx.nontriv("replay2")
    ctx.sample({"replayed": scn})
    toolrun.report(ctx, tr, label="replay")
