"""G04 (growth, DESIGN.md 4.16) - the file-based KMS back end (ncs/basic_kms.py): which key signs, what is refused, how the
context is read.  Use A/B: Kms_MC enumerates every store over three file names x request names x algorithms together with the
outcome of the implementation-shaped model; Use C: each scenario is built as a real directory, the real SuitKMS.sign is called
and the signature is attributed to a key file by verification with the PUBLIC halves; Kms_Trace judges the contract
(SignatureIsMadeWithTheNamedKey, KeyTypeFitsTheAlgorithm, UnknownKeyIsRefused) and the agreement with the model
(ModelDescribesTheCode).  Not a listed property: evidence goes to evidence/growth/."""
from __future__ import annotations

import importlib.util
import json
import os
import shutil

from cryptography.exceptions import InvalidTag
from cryptography.hazmat.primitives.ciphers.aead import AESGCM

from . import core, sigverify as sv, toolrun

LEVEL = "model_checking"
FILES = ("k.pem", "k.der", "k.x.pem")
TYPES = ("p256", "p384", "p521", "ed25519", "ed448")


def load_kms():
    core.setup_repo_path()
    spec = importlib.util.spec_from_file_location("verif_basic_kms_g04", str(core.REPO / "ncs" / "basic_kms.py"))
    mod = importlib.util.module_from_spec(spec)
    spec.loader.exec_module(mod)
    return mod


def run(ctx: core.Check):
    ctx.cov["rule"] = ("store = every assignment of {absent, p256, p384, p521, ed25519, ed448} to the files k.pem, k.der, k.x.pem; "
                       "request = name in {k, k.x, absent} x five algorithms (3240 scenarios, all enumerated by TLC with the modelled "
                       "outcome); context forms {directory, JSON, JSON without the key, not JSON, None}; AES key file lengths.")
    g = ctx.mc("Kms_MC", "Kms_MC.cfg", workers=1, coverage=False, label="A:model-check + B:scenario enumeration")
    scns = g.tagged("SCN")
    if ctx.quick:
        ctx.rng.shuffle(scns)
        scns = scns[:700]
    d = ctx.tmp("g04")
    mod = load_kms()
    # one distinct key per (file, type): the signer of a signature is then identified by its public half alone
    pool, pubs = {}, {}
    for f in FILES:
        for t in TYPES:
            k = sv.gen_private(t)
            pool[(f, t)] = sv.der(k) if f.endswith(".der") else sv.pem(k)
            pubs[(f, t)] = k.public_key()
    tr = toolrun.Trace()
    msg = b"to be signed"
    dev = {}
    for n, s in enumerate(scns):
        types = s["types"] if isinstance(s["types"], dict) else {}
        sd = d / f"s{n}"
        sd.mkdir()
        for f, t in types.items():
            (sd / f).write_bytes(pool[(f, t)])
        kms = mod.suit_kms_factory()
        kms.init_kms(str(sd))
        cls, signer, exc = "error", "none", ""
        try:
            sig = kms.sign(msg, s["name"], s["alg"], str(sd))
            cls = "signed"
            for f, t in types.items():
                if sv.verify(pubs[(f, t)], t, sv.ALG_IDS[s["alg"]], msg, sig):
                    signer = f
        except ValueError as e:
            cls, exc = ("refused", "ValueError") if type(e) is ValueError else ("error", type(e).__name__)
        except Exception as e:
            exc = type(e).__name__
        shutil.rmtree(sd, ignore_errors=True)
        store = {f: {"enc": "der" if f.endswith(".der") else "pem", "type": t} for f, t in types.items()}
        tr.begin({"scenario": s})
        tr.ev("Sign", store=store, name=s["name"], alg=s["alg"], **{"class": cls}, signer=signer, exc=exc)
        ctx.count("evaluations")
        ctx.nontriv(json.dumps(s, sort_keys=True))
        if s["want"]["class"].startswith("Dev"):
            dev.setdefault(s["want"]["class"], set()).add(exc)
        if n == 0:
            ctx.sample({"tlc_scenario": s, "event": tr.events[-1]})
    for k, v in sorted(dev.items()):
        ctx.observe(f"O12/O13 deviation {k} taken; exception types seen: {sorted(v)}")
    # ---- context forms
    kd = d / "keysdir"
    kd.mkdir()
    here = str(core.REPO / "ncs")
    for form, ctxarg, want in (("dir", str(kd), str(kd)), ("json", json.dumps({"keys_directory": str(kd)}), str(kd)),
                               ("json-without-key", json.dumps({"dir": str(kd)}), None), ("not-json", "no such directory {", None),
                               ("none", None, here)):
        kms = mod.suit_kms_factory()
        cls, same = "error", False
        try:
            kms.init_kms(ctxarg)
            cls = "dir"
            same = os.path.realpath(str(kms.keys_directory)) == os.path.realpath(want) if want else False
        except ValueError:
            cls = "refused"
        except Exception as e:
            ctx.observe(f"context form {form}: {type(e).__name__}")
        tr.begin({"context": form})
        tr.ev("Context", form=form, **{"class": cls}, same=same)
        ctx.count("evaluations")
        ctx.nontriv(("context", form))
    # ---- AES key files
    for ln in (0, 1, 15, 16, 17, 24, 31, 32, 33, 64):
        key = os.urandom(ln)
        (kd / "aes.bin").write_bytes(key)
        kms = mod.suit_kms_factory()
        kms.init_kms(str(kd))
        cls, dec = "error", False
        try:
            nonce, tag, ct = kms.encrypt(b"firmware", "aes", str(kd), b"aad")
            cls = "encrypted"
            try:
                dec = AESGCM(key).decrypt(nonce, ct + tag, b"aad") == b"firmware"
            except (InvalidTag, ValueError):
                dec = False
        except ValueError:
            cls = "refused"
        except Exception as e:
            ctx.observe(f"AES key of {ln} bytes: {type(e).__name__}")
        tr.begin({"aeskeylen": ln})
        tr.ev("EncKey", len=ln, **{"class": cls}, dec=dec)
        ctx.count("evaluations")
        ctx.nontriv(("aes", ln))
    ctx.observe("O14: a 16- or 24-byte key file is accepted and used as AES-128/192-GCM while the encryption info always names "
                "AES-GCM-256 (the KMS does not check the key length); C06 quantifies over 32-byte keys only")
    toolrun.report(ctx, tr, module="Kms_Trace", label="kms", cap=6, keyfn=lambda b, s: f"{b['clause']}:{json.dumps(s, sort_keys=True)[:200]}")
