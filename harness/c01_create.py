"""C01 - created envelopes carry correct manifest and severed-member digests.

Use A  Envelope_MC: the four-step create pipeline (with a dependency that must be refreshed first), exhaustive over the
       member/mode/supplied-digest product; I1-I3 and ParentBindsChild.
Use B  the combinations enumerated by TLC are concretised as descriptions (all five algorithms cycled over every
       field) and created by the real tool (library; sampled through the CLI as YAML and JSON, guard off).
Use C  every level of every created envelope is projected (own CBOR reader, hashlib reverse lookup) and judged by
       Tool_Trace (CreatedJudge of Envelope.tla: DigestBindsManifest, SeveredMemberDigestBindsWrappedMember).
"""
from __future__ import annotations

import json

from . import core, envgen, project, tlc, toolrun

KEYNAME = {15: "suit-dependency-resolution", 16: "suit-payload-fetch", 18: "suit-candidate-verification",
           20: "suit-install", 23: "suit-text"}


def shape_from_tlc(scn: dict, k: int) -> dict:
    """Abstract TLC scenario (per level: wrapper supplied digest + member modes) -> shape; algorithms cycle with k."""
    def one(lv, kk, child=None):
        mem = {}
        for j, (key, mode, sup) in enumerate(lv["mem"].values() if isinstance(lv["mem"], dict) else lv["mem"]):
            if mode == "absent":
                continue
            if key == 23 and mode == "emb":
                mode = "sev"  # unsevered text inside the manifest is outside the properties
            mem[KEYNAME[key]] = [mode, envgen.ALGS[(kk + j + 1) % 5], sup]
        sh = {"walg": envgen.ALGS[kk % 5], "wsup": lv["w"], "seq": [1, 24, 256, 65536][kk % 4], "pad": None, "supform": kk % 3,
              "mem": mem, "cid": None, "version": None, "pay": [["#p0", 20 + kk % 7, "hex", kk]] if kk % 2 else [],
              "deps": [], "imgs": []}
        if child is not None:
            sh["deps"] = [["#dep", child, ("inline", "path", "alias")[kk % 3], envgen.ALGS[(kk + 3) % 5]]]
        return sh

    lv = scn if isinstance(scn, list) else [scn[x] for x in sorted(scn)]
    if len(lv) == 2:
        return one(lv[0], k, one(lv[1], k + 2))
    return one(lv[0], k)


def run_shape(ctx, tr: toolrun.Trace, shape: dict, via: str, origin: str):
    d = ctx.tmp("c01")
    b = envgen.Builder(d)
    scn = {"origin": origin, "via": via, "shape": shape}
    tr.begin(scn)
    try:
        desc = b.desc(shape, toolrun.create_lib)
        if via == "lib":
            out = toolrun.create_lib(desc)
        else:
            out = toolrun.create_cli(desc, d, fmt=via)
            ref = toolrun.create_lib(desc)
            if out is None or out != ref:
                tr.ev("Created", name="L", e=dict(project.project_env(ref, tr.terms), dg=-3))  # CLI differs from library
                return
    except Exception as e:
        # The tool refused a description of the accepted language.  C01 speaks of envelopes that ARE written, so this is not
        # a verdict; the scenario is skipped and counted, and the run fails as machinery only if refusals are systemic.
        ctx.count("refused_by_create")
        ctx.observe(f"create refused a generated description: {type(e).__name__}: {str(e)[:100]}")
        tr.events.pop()
        tr.tid -= 1
        return None
    for path, data in toolrun.levels(out):
        tr.ev("Created", name=path, e=project.project_env(data, tr.terms))
    # count what was exercised
    e0 = tr.events[-1]["e"] if tr.events[-1]["ev"] == "Created" else None
    sevs = sum(1 for m in shape["mem"].values() if m[0] == "sev")
    ctx.count("evaluations")
    if sevs or shape["deps"]:
        ctx.nontriv(json.dumps([shape["walg"], shape["wsup"], sorted((k, *v) for k, v in shape["mem"].items()),
                                bool(shape["deps"]), shape["pad"]]))
    return e0


def pad_shapes(ctx):
    """Manifests whose bstr-wrapped length sits exactly at the CBOR head-width boundaries."""
    out = []
    targets = [255, 256, 257, 258, 259] + ([] if ctx.quick else [65535, 65536, 65537, 65538, 65539, 65540])
    # ... and at the block sizes of hash functions and I/O buffers (64, 128, 136 = SHAKE256 / SHA3 rate, 168 = SHAKE128 rate, 512,
    # 4096, 8192 and their multiples): the hashed object is the wrapped manifest / the wrapped severed member
    blocks = [128, 136, 168, 512, 4095, 4096, 4097, 8192] + ([] if ctx.quick else [192, 272, 336, 1024, 2048, 12288, 16384, 16385, 65536 - 4096])
    k = 0
    for t in targets + blocks:
        for m in (["suit-install"], ["suit-text", "suit-payload-fetch"]):
            k += 1
            sh = {"walg": envgen.ALGS[k % 5], "wsup": "wrong", "seq": 1, "pad": t,
                  "mem": {x: ["sev", envgen.ALGS[(k + 2) % 5], "wrong"] for x in m}, "cid": None, "version": None,
                  "pay": [], "deps": [], "imgs": []}
            out.append(sh)
    for t in blocks:   # the severed text member at the same sizes
        k += 1
        out.append({"walg": envgen.ALGS[k % 5], "wsup": "none", "seq": 2, "pad": None, "sevpad": t,
                    "mem": {"suit-text": ["sev", envgen.ALGS[(k + 1) % 5], "wrong"], "suit-install": ["sev", envgen.ALGS[(k + 3) % 5], "none"]},
                    "cid": None, "version": None, "pay": [], "deps": [], "imgs": []})
    return out


def run(ctx: core.Check):
    ctx.cov["rule"] = ("shape = wrapper algorithm/supplied digest x per severable member (mode absent|embedded|severed+present|"
                       "severed+missing, algorithm, supplied none|wrong|right|empty) x sequence-number width x manifest length "
                       "at bstr head boundaries x payloads x dependency nesting (inline|path, depth <= 3). Enumerated by TLC "
                       "(Envelope_MC) for the member/mode/supplied product, seeded-random beyond. Distinct & non-trivial = "
                       "distinct shape with >= 1 severed member present or >= 1 dependency.")
    ctx.note("Use A: Envelope_MC (pipeline with dependency; 3 members)")
    ctx.mc("Envelope_MC", "Envelope_MC.cfg", required_actions=("FromObj", "Update", "Write"))
    ctx.mc("Envelope_MC", "Envelope_MC3.cfg", required_actions=("FromObj", "Update", "Write"))
    hists = []
    for cfg in ("Envelope_Gen.cfg", "Envelope_Gen2.cfg"):
        g = tlc.run_tlc("Envelope_MC", cfg, workers=1)
        tlc.require_ok(g, cfg)
        h = g.tagged("SCN")
        ctx.cov["tlc_runs"].append({"module": "Envelope_MC", "cfg": cfg, "use": "B:scenario-generation",
                                    "scenarios": len(h)})
        hists += h
    if ctx.quick:
        ctx.rng.shuffle(hists)
        hists = hists[:700]
    ctx.note(f"Use B/C: {len(hists)} TLC combinations -> real create")
    tr = toolrun.Trace()
    for k, h in enumerate(hists):
        via = "lib" if k % 12 else ("yaml" if k % 24 else "json")
        run_shape(ctx, tr, shape_from_tlc(h, k), via, "tlc")
        if k == 3:
            ctx.sample({"tlc_scenario": h, "shape": tr.scn[tr.tid]["shape"], "events": tr.of(tr.tid)})
    toolrun.report(ctx, tr, label="create-tlc")
    ctx.note("Use C: padded manifests and seeded random hierarchies")
    tr = toolrun.Trace()
    for sh in pad_shapes(ctx):
        run_shape(ctx, tr, sh, "lib", "pad")
    n = 150 if ctx.quick else 4000
    for k in range(n):
        sh = envgen.random_shape(ctx.rng, maxdepth=2)
        run_shape(ctx, tr, sh, "lib" if k % 15 else "yaml", "random")
        if len(tr.events) > 20000:
            toolrun.report(ctx, tr, label="create-random")
            tr = toolrun.Trace()
    toolrun.report(ctx, tr, label="create-random")
    if ctx.cov.get("refused_by_create", 0) > 0.2 * max(1, ctx.cov["evaluations"]):
        raise core.MachineryError(f"create refused {ctx.cov['refused_by_create']} generated descriptions - the generator or the tree under test is broken")
    ctx.observe("suit-install-legacy (17) is refreshed by the tool but not named by C01: observed, not judged")
    ctx.assumptions += ["hashlib digests (SHAKE128 -> 16 bytes, SHAKE256 -> 32 bytes as the property's anchor fixes)",
                        "interning by sha256 is injective", "the verifier's CBOR reader locates keys 2, 3 and 15/16/18/20/23"]


def replay(ctx, rec):
    scn = rec["replay"]["scenario"]
    tr = toolrun.Trace()
    run_shape(ctx, tr, scn["shape"], scn.get("via", "lib"), "replay")
    ctx.nontriv("replay")
    ctx.nontriv("replay2")
    ctx.sample({"replayed": scn})
    toolrun.report(ctx, tr, label="replay")
