"""C03 - parse then create reproduces the envelope.

Use A  Tool_MC: the artifact store under all command sequences (sign, sign remove-old, extract, cache, sever, round trip) up
       to length 3; RoundTripIsIdentity, DigestBindsManifest, BlocksOverDigest, ManifestProvenance in every reachable store.
Use B  the sequences emitted by TLC are replayed on real envelopes (real sign / payload_extract / cache_create / sever) and at
       EVERY intermediate artifact the real parse -> {yaml, json} x {+-hierarchy} -> create round trip is run through files.
Use C  both envelopes are projected and stored (Created), then Same {a, b}: manifest, wrapper (digest item and every block),
       severed members byte-identical and the same SET of integrated payloads/dependencies (SameJudge, Tool_Trace).
       Second conjunct (the description names exactly the content): Wire_Trace re-encodes the PARSED description with the
       reference encoder Wire.tla and compares it with the envelope bytes (see C02) for the flat single-level envelopes.
Known finding F4 (lossy union decoding) is pinned by one representative per site.
"""
from __future__ import annotations

import copy
import json
import subprocess

from . import cborx, core, envgen, project, signrun, tlc, toolrun

F4_PINS = {
    "component-id": lambda d: d["SUIT_Envelope_Tagged"]["suit-manifest"]["suit-common"]["suit-components"].append(["M", {"raw": "1801"}]),
    "parameter-content": lambda d: d["SUIT_Envelope_Tagged"]["suit-manifest"]["suit-validate"].append(
        {"suit-directive-override-parameters": {"suit-parameter-content": "1801"}}),
    "cose-key-id": lambda d: d["SUIT_Envelope_Tagged"]["suit-authentication-wrapper"].update({"SuitAuthentication0": {"CoseSign1Tagged": {
        "protected": {"suit-cose-algorithm-id": "cose-alg-es-256", "suit-cose-key-id": "1801"}, "unprotected": {}, "payload": None,
        "signature": "00" * 64}}}),
}


def parse_create(ctx, d, data: bytes, fmt: str, hierarchy: bool, via: str, n: int):
    """real parse into a text file, real create from that file; returns bytes or None."""
    inp, mid, out = d / f"rt{n}.suit", d / f"rt{n}.{fmt}", d / f"rt{n}_out.suit"
    inp.write_bytes(data)
    if via == "cli":
        a = ["parse", "--input-file", inp, "--output-file", mid]
        if hierarchy:
            a.append("--parse-hierarchy")
        p = subprocess.run(core.cli_cmd(*a), cwd=d, env=core.cli_env(), capture_output=True, text=True)
        if p.returncode:
            return None, p.stderr[-200:]
        p = subprocess.run(core.cli_cmd("create", "--input-file", mid, "--output-file", out), cwd=d, env=core.cli_env(),
                           capture_output=True, text=True)
        if p.returncode:
            return None, p.stderr[-200:]
    else:
        core.setup_repo_path()
        from suit_generator import cmd_create, cmd_parse

        try:
            cmd_parse.main(str(inp), str(mid), fmt, hierarchy)
            cmd_create.main(str(mid), "AUTO", str(out))
        except BaseException as e:
            if isinstance(e, (KeyboardInterrupt, MemoryError)):
                raise
            return None, repr(e)[:200]
    return (out.read_bytes() if out.exists() else None), ""


WIRE = {"tr": None}


def names_content(ctx, data: bytes, scn):
    """Second conjunct: the description shown by parse, re-encoded by the REFERENCE encoder, must be the envelope."""
    from . import c02_wire
    if WIRE["tr"] is None:
        WIRE["tr"] = toolrun.Trace()
    try:
        desc = toolrun.parse_lib(data)
    except Exception:
        return
    desc, data = canonical_member_order(desc, data)
    if c02_wire.wire_event(ctx, WIRE["tr"], desc, data, scn):
        ctx.count("parsed_descriptions_reencoded_by_Wire")


def canonical_member_order(desc, data: bytes):
    """C03 compares the integrated payloads and dependencies as a SET, and parse shows them grouped (all payloads under one
    key, all dependencies under another) wherever they stood in the envelope.  Before the description is re-encoded by the
    reference encoder, both sides are therefore brought into one canonical order of ENVELOPE members: integer-keyed members in
    their own order, then the payloads by name, then the dependencies by name.  Every key and value keeps its exact bytes (the
    envelope side is re-concatenated from the original spans); nothing inside a member is touched."""
    groups = ("suit-integrated-payloads", "suit-integrated-dependencies")
    try:
        env = desc["SUIT_Envelope_Tagged"]
        names, shown = [], {k: v for k, v in env.items() if k not in groups}
        for g in groups:
            if g in env:
                shown[g] = dict(sorted(env[g].items()))
                names += sorted(env[g])
        top = cborx.loads(data)
        pairs = top.val.val
        text = {k.val: (k, v) for k, v in pairs if k.mt == 3}
        if top.mt != 6 or top.val.mt != 5 or sorted(text) != sorted(names) or len(text) != sum(1 for k, _ in pairs if k.mt == 3):
            return desc, data   # not the expected form: compared as it stands, the judge names the difference
        prefix = data[:pairs[0][0].start] if pairs else data
        body = b"".join(k.raw + v.raw for k, v in pairs if k.mt != 3) + b"".join(text[n][0].raw + text[n][1].raw for n in names)
        return {"SUIT_Envelope_Tagged": shown}, prefix + body
    except Exception:
        return desc, data


def flush_wire(ctx):
    from . import c02_wire
    if WIRE["tr"] is not None and WIRE["tr"].events:
        toolrun.report(ctx, WIRE["tr"], module="Wire_Trace", label="parse-names-content",
                       keyfn=lambda b, s: ("F4:" + s["pin"]) if s.get("origin") == "pin" else f"wire:{b['clause']}:{s.get('label')}:{s.get('n')}")
    WIRE["tr"] = None


def roundtrip_events(ctx, tr, keys, d, data: bytes, label: str, n: int, via="lib"):
    t = tr.terms
    names_content(ctx, data, {"label": label, "n": n, "env": data, "origin": tr.scn[tr.tid].get("origin"), "pin": tr.scn[tr.tid].get("pin")})
    if WIRE["tr"] is not None and len(WIRE["tr"].events) > 500:
        flush_wire(ctx)
    tr.ev("Created", name=f"a{n}", e=project.project_env(data, t, keys.pub))
    combos = [("yaml", False), ("json", False), ("yaml", True), ("json", True)]
    for k, (fmt, hier) in enumerate(combos if n % 3 == 0 else [combos[n % 4]]):
        out, err = parse_create(ctx, d, data, fmt, hier, via, 10 * n + k)
        if out is None:
            # stored so that Same fails by name: an empty stand-in with impossible ids
            e = dict(project.project_env(data, t, keys.pub), mfw=-7, err=err)
        else:
            try:
                e = project.project_env(out, t, keys.pub)
            except Exception as ex:
                e = dict(project.project_env(data, t, keys.pub), mfw=-8, err=repr(ex)[:100])
        # the re-created envelope is itself an output of create: its digests are judged as well (unless it does not exist)
        tr.ev("Created" if out is not None and e["mfw"] >= 0 else "Stored", name=f"b{n}_{k}", e=e)
        tr.ev("Same", a=f"a{n}", b=f"b{n}_{k}", what=f"{label}/{fmt}/{'hier' if hier else 'flat'}")
        ctx.count("evaluations")
        ctx.nontriv((label, fmt, hier, len(e.get("blocks", [])), len(e.get("pay", [])), len(e.get("sev", []))))


def sever_real(data: bytes) -> bytes:
    """What image boot stores: the tool's own sever() + re-encode (the public SuitEnvelope API)."""
    core.setup_repo_path()
    from suit_generator.envelope import SuitEnvelope
    from suit_generator.suit.envelope import SuitEnvelopeTagged

    env = SuitEnvelope()
    env._envelope = SuitEnvelopeTagged.from_cbor(data).to_obj()
    env.sever()
    return env.prepare_suit_data(env._envelope)


def apply_step(ctx, d, keys, data: bytes, step, n: int):
    """One command of a TLC sequence on real bytes; returns new bytes (or the same when the command does not apply)."""
    inp, out = d / f"s{n}.suit", d / f"s{n}_o.suit"
    inp.write_bytes(data)
    op = step[0]
    if op in ("sign", "sign-remove-old"):
        # the model's two keys stand for the two key families; every supported algorithm takes its turn (a block made by ANY of
        # them must be shown by parse and re-created)
        key, alg = ([("kp256", "es-256"), ("kp384", "es-384"), ("kp521", "es-521")][n % 3] if step[1] == "kp256"
                    else [("ked", "eddsa"), ("ked", "hash-eddsa")][n % 2])
        if op == "sign":
            err = signrun.sign_single(inp, out, keys, key, 0x4000AA00 + n, alg, "error")
        else:
            err = signrun.sign_single(inp, out, keys, key, 0x10 + n, alg, "remove-old")
    elif op == "extract":
        core.setup_repo_path()
        from suit_generator import cmd_payload_extract

        try:
            cmd_payload_extract.main(str(inp), str(out), step[1], str(d / f"s{n}.payload"), None)
        except Exception:
            pass
    elif op == "cache":
        core.setup_repo_path()
        from suit_generator import cmd_cache_create

        try:
            cmd_cache_create.main(cache_create_subcommand="from_envelope", eb_size=8, input_envelope=str(inp), output_envelope=str(out),
                                  omit_payload_regex=None, dependency_regex=None, output_file=str(d / f"s{n}.cache"))
        except Exception:
            pass
    elif op == "sever":
        return sever_real(data)
    elif op == "roundtrip":
        o, _ = parse_create(ctx, d, data, "yaml", False, "lib", 5000 + n)
        return o if o is not None else data
    return out.read_bytes() if out.exists() else data


def refusable(ctx, make):
    """C03 quantifies over the image of create: a generated description the tool refuses yields no envelope to round-trip; the
    scenario is skipped and counted (systemic refusals fail the run as machinery), it is never a crash of the check."""
    try:
        return make()
    except Exception as e:
        ctx.count("refused_by_create")
        ctx.observe(f"create refused a generated description: {type(e).__name__}: {str(e)[:100]}")
        return None


def base_envelope(ctx, d, k):
    """An envelope with severed install + text, a payload #p0 and a dependency #dep (as Tool_MC's E0)."""
    child = envgen.random_shape(ctx.rng, maxdepth=0, small=True)
    child.update({"pad": None, "deps": []})
    sh = envgen.random_shape(ctx.rng, maxdepth=0, small=True)
    sh.update({"pad": None, "cid": ["mid", "nordicsemi.com", "nRF54H20_sample_app"], "eorder": k % 4,
               "mem": {"suit-install": ["sev", envgen.ALGS[k % 5], "none"], "suit-text": ["sev", envgen.ALGS[(k + 1) % 5], "wrong"],
                       "suit-payload-fetch": ["emb", None, None]},
               "pay": [["#p0", 40 + k, "hex", k]], "deps": [["#dep", child, "inline" if k % 2 else "path", envgen.ALGS[(k + 2) % 5]]]})
    b = envgen.Builder(d / f"base{k}")
    return toolrun.create_lib(b.desc(sh, toolrun.create_lib))


def run(ctx: core.Check):
    ctx.cov["rule"] = ("envelope = image of create over generated shapes (flat, hierarchical to depth 3, every member mode, all "
                       "algorithms) and the envelopes obtained from them by every command sequence of length <= 3 over {sign, sign "
                       "remove-old, extract, cache, sever, round trip} (TLC, Tool_MC); round trip through YAML and JSON files, with "
                       "and without hierarchy expansion, library and CLI. Distinct & non-trivial = distinct (origin, format, "
                       "hierarchy, blocks, payloads, severed members) combinations.")
    g = ctx.mc("Tool_MC", "Tool_MC.cfg", workers=1, coverage=False, label="A:model-check + B:command sequences")
    seqs = g.tagged("SCN")
    d = ctx.tmp("c03")
    keys = signrun.Keys(d / "keys")
    ctx.rng.shuffle(seqs)
    if ctx.quick:
        seqs = seqs[:60]
    tr = toolrun.Trace()
    n = 0
    ctx.note(f"Use B/C: {len(seqs)} TLC command sequences on real envelopes, round trip at every artifact")
    for k, seq in enumerate(seqs):
        data = refusable(ctx, lambda: base_envelope(ctx, d, k))
        if data is None:
            continue
        tr.begin({"origin": "tlc", "seq": seq, "env": data})
        n += 1
        roundtrip_events(ctx, tr, keys, d, data, "created", n, "cli" if k % 20 == 0 else "lib")
        for step in seq:
            new = apply_step(ctx, d, keys, data, step, n)
            n += 1
            if new != data:
                data = new
                roundtrip_events(ctx, tr, keys, d, data, step[0], n)
        if k == 0:
            ctx.sample({"tlc_sequence": seq, "events": [e for e in tr.of(tr.tid) if e["ev"] == "Same"][:5]})
        if len(tr.events) > 3000:
            toolrun.report(ctx, tr, label="roundtrip-tlc", keyfn=keyfn)
            tr = toolrun.Trace()
    toolrun.report(ctx, tr, label="roundtrip-tlc", keyfn=keyfn)
    ctx.note("Use C: seeded shapes (hierarchies, all member modes, paddings); F4 pins")
    tr = toolrun.Trace()
    for k in range(100 if ctx.quick else 3000):
        sh = envgen.random_shape(ctx.rng, maxdepth=2)
        b = envgen.Builder(d / f"r{k}")
        data = refusable(ctx, lambda: toolrun.create_lib(b.desc(sh, toolrun.create_lib)))
        if data is None:
            continue
        tr.begin({"origin": "random", "shape": sh, "env": data})
        n += 1
        roundtrip_events(ctx, tr, keys, d, data, "random", n, "cli" if k % 25 == 0 else "lib")
        if len(tr.events) > 3000:
            toolrun.report(ctx, tr, label="roundtrip-random", keyfn=keyfn)
            tr = toolrun.Trace()
    # the SAME dependency name in sibling branches holding DIFFERENT envelopes (root -> #a -> #common, root -> #b -> #common), and
    # the same name again at another depth: a dependency is identified by where it sits, not by what it is called
    for k in range(6 if ctx.quick else 120):
        def leaf(j):
            x = envgen.random_shape(ctx.rng, maxdepth=0, small=True)
            x.update({"deps": [], "pad": None, "seq": 11 * (j + 1) + k})
            return x
        forms = ["path", "inline", "alias"]
        root, a_, b_ = leaf(0), leaf(1), leaf(2)
        a_["deps"] = [["#common", leaf(3), forms[k % 3], envgen.ALGS[k % 5]]]
        b_["deps"] = [["#common", leaf(4), forms[(k + 1) % 3], envgen.ALGS[(k + 1) % 5]]]
        root["deps"] = [["#a", a_, forms[(k + 2) % 3], envgen.ALGS[(k + 2) % 5]], ["#b", b_, forms[k % 3], envgen.ALGS[(k + 3) % 5]]]
        if k % 2:
            root["deps"].append(["#common", leaf(5), "path", envgen.ALGS[0]])
        b = envgen.Builder(d / f"sib{k}")
        data = refusable(ctx, lambda: toolrun.create_lib(b.desc(root, toolrun.create_lib)))
        if data is None:
            continue
        tr.begin({"origin": "siblings", "shape": root, "env": data})
        n += 3 - n % 3  # all four format/hierarchy combinations
        roundtrip_events(ctx, tr, keys, d, data, "siblings", n, "cli" if k % 3 == 0 else "lib")
    # descriptions over the whole grammar of the language (the C02 generator): every command, parameter, nesting, 0..4
    # authentication blocks, nested recipients - the round trip must hold for everything in the image of create
    from . import wiregen
    for k in range(120 if ctx.quick else 4000):
        desc = wiregen.rnd_desc(ctx.rng)
        data = refusable(ctx, lambda: toolrun.create_lib(desc))   # a refusal is counted (and fails the run when systemic)
        if data is None:
            continue
        tr.begin({"origin": "grammar", "desc": desc, "env": data})
        n += 1
        roundtrip_events(ctx, tr, keys, d, data, "grammar", n, "cli" if k % 40 == 0 else "lib")
        if len(tr.events) > 3000:
            toolrun.report(ctx, tr, label="roundtrip-grammar", keyfn=keyfn)
            tr = toolrun.Trace()
    # pinned representatives of the known lossy family F4
    for pin, edit in F4_PINS.items():
        sh = {"walg": envgen.ALGS[0], "wsup": "none", "seq": 1, "pad": None, "mem": {}, "cid": None, "version": None, "pay": [],
              "deps": [], "imgs": []}
        b = envgen.Builder(d / f"pin_{pin}")
        def pinned():
            desc = b.desc(sh, toolrun.create_lib)
            edit(desc)
            return toolrun.create_lib(desc)
        data = refusable(ctx, pinned)
        if data is None:
            continue
        tr.begin({"origin": "pin", "pin": pin, "env": data})
        n += 3 - n % 3  # all four format/hierarchy combinations
        roundtrip_events(ctx, tr, keys, d, data, "pin", n)
    toolrun.report(ctx, tr, label="roundtrip-random", keyfn=keyfn)
    if ctx.cov.get("refused_by_create", 0) > 0.2 * max(1, ctx.cov["evaluations"]):
        raise core.MachineryError(f"create refused {ctx.cov['refused_by_create']} generated descriptions")
    flush_wire(ctx)
    ctx.assumptions += ["own CBOR reader; interned ids; order of text-keyed members is not compared (the property says 'set')",
                        "F4: a raw byte string that happens to decode as a CBOR int/tstr is shown as that value and re-created as "
                        "different bytes - known finding, pinned per site, family excluded from the random stream"]


def keyfn(b, s):
    if s.get("origin") == "pin":
        return f"F4:{s['pin']}"
    return f"{b['clause']}:{json.dumps(core.jsonable({k: v for k, v in s.items() if k != 'env'}), sort_keys=True)[:300]}"


def replay(ctx, rec):
    import base64

    scn = rec["replay"]["scenario"]
    data = base64.b64decode(scn["env"]["b64"])
    d = ctx.tmp("c03r")
    keys = signrun.Keys(d / "keys")
    tr = toolrun.Trace()
    tr.begin(dict(scn, env=data))
    roundtrip_events(ctx, tr, keys, d, data, "replay", 3)
    ctx.nontriv("replay")
    ctx.nontriv("replay2")
    ctx.sample({"replayed": {k: v for k, v in scn.items() if k != "env"}})
    toolrun.report(ctx, tr, label="replay", keyfn=keyfn)
    flush_wire(ctx)
