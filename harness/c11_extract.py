"""C11 - payload extraction conserves payloads and leaves authenticated content intact.

Use A  Extract_MC: implementation-shaped from_envelope over every two-level hierarchy / pattern class (TLC),
       against CacheJudge and a directly stated Conservation invariant.
Use B  the hierarchies enumerated by TLC are concretised (real envelopes from create, names and regular expressions
       that realise the match classes) and run through the real cache_create from_envelope.
Use C  Extract events: per visited envelope the interned ids of every member before/after, the decoded cache, judged
       by TLC (CacheJudge / OneJudge); seeded hierarchies up to depth 3; payload_extract with/without replace/file.
"""
from __future__ import annotations

import json
import re
import subprocess

from . import core, envgen, project, tlc, toolrun
from .c10_cache import walk_file


def make_env(ctx, d, rng, k, payloads, deps, signed=False):
    """payloads: [(name, bytes)], deps: [(name, bytes of child envelope or raw)] -> created envelope bytes."""
    sh = envgen.random_shape(rng, maxdepth=0, small=True)
    sh.update({"pad": None, "deps": [], "pay": [], "seq": k, "paynames": {}})
    b = envgen.Builder(d / f"e{k}")
    for i, (name, data) in enumerate(payloads):
        f = b._file(data, f"p{i}.bin")
        sh["pay"].append([name, len(data), "prefile", f])
    for i, (name, data) in enumerate(deps):
        f = b._file(data, f"d{i}.suit")
        sh["deps"].append([name, f, "extpath", None if not is_env(data) else envgen.ALGS[k % 5]])
    desc = b.desc({**sh, "pay": []}, toolrun.create_lib)
    if sh["pay"]:
        desc["SUIT_Envelope_Tagged"].setdefault("suit-integrated-payloads", {})
        for name, _, _, f in sh["pay"]:
            desc["SUIT_Envelope_Tagged"]["suit-integrated-payloads"][name] = f
    return toolrun.create_lib(desc)


def is_env(b):
    try:
        project.Env(b)
        return True
    except Exception:
        return False


def fm(rx, name):
    return rx is not None and re.fullmatch(rx, name) is not None


def build_nodes(tr, inp: bytes, out: bytes | None, omit, dep, parent, name, acc):
    t = tr.terms
    ei = project.Env(inp)
    eo = project.Env(out) if out is not None and is_env(out) else ei
    mem = []
    for n, v in ei.payloads:
        content = v.val if v.mt == 2 else v.raw
        mem.append([t.id(n), t.id(content), fm(omit, n), fm(dep, n), v.mt == 2 and is_env(v.val)])

    def others(e):
        return [[t.id(k.raw), t.id(v.raw)] for k, v in e.members if k.mt != 3]

    node = {"parent": parent, "name": t.id(name), "inOthers": others(ei), "outOthers": others(eo),
            "outAll": t.id(eo.data), "mem": mem,
            "outPay": [[t.id(n), t.id(v.val if v.mt == 2 else v.raw)] for n, v in eo.payloads]}
    acc.append(node)
    me = len(acc)
    outmap = {n: v for n, v in eo.payloads}
    for n, v in ei.payloads:
        if fm(dep, n) and v.mt == 2 and is_env(v.val):
            co = outmap.get(n)
            build_nodes(tr, v.val, co.val if co is not None and co.mt == 2 else None, omit, dep, me, n, acc)
    return acc


STALE = core.STALE


def run_cache(ctx, tr, data: bytes, omit, dep, eb, via, scn):
    d = ctx.tmp("c11")
    dots = len(data) % 2 == 0   # output names with more than one dot
    inp, oute, outc = d / "in.suit", d / ("out.v2.suit" if dots else "out.suit"), d / ("cache.part.0.bin" if dots else "cache.bin")
    inp.write_bytes(data)
    core.through_link(inp, len(data) % 4 == 1)
    inp = core.through_dotdot(inp, len(data) % 7 == 2)
    err = None
    if scn.get("stale"):
        # history: both output files exist already, left by an earlier invocation; a file still holding the marker afterwards
        # was not written by THIS invocation
        oute.write_bytes(STALE)
        outc.write_bytes(STALE)
    if via == "cli":
        a = ["cache_create", "from_envelope", "--input-envelope", inp, "--output-envelope", oute, "--output-file", outc,
             "--eb-size", eb]
        if omit is not None:
            a += ["--omit-payload-regex", omit]
        if dep is not None:
            a += ["--dependency-regex", dep]
        p = subprocess.run(core.cli_cmd(*a), cwd=d, env=core.cli_env(), capture_output=True, text=True)
        err = p.stderr[-200:] if p.returncode else None
    else:
        core.setup_repo_path()
        from suit_generator import cmd_cache_create

        try:
            cmd_cache_create.main(cache_create_subcommand="from_envelope", eb_size=eb, input_envelope=str(inp),
                                  output_envelope=str(oute), omit_payload_regex=omit, dependency_regex=dep,
                                  output_file=str(outc))
        except Exception as e:
            err = repr(e)
    for f in (oute, outc):
        if f.exists() and f.read_bytes() == STALE:
            f.unlink()
    written = oute.exists() or outc.exists()
    out = oute.read_bytes() if oute.exists() else None
    cache = []
    cache_ok = True
    if outc.exists():
        raw = outc.read_bytes()
        if raw == b"\xff":
            # no slot was added: the tool writes the lone break byte (outside C10, which speaks of >= 1 slot)
            ctx.observe("a cache with no slot is written as the single byte 0xFF (not a CBOR map); nothing was extracted")
        else:
            cache_ok, _, ents = walk_file(raw, tr.terms)
            cache = [[e["u"], e["d"]] for e in ents if e["kl"] > 0]
    tr.begin(scn)
    nodes = build_nodes(tr, data, out, omit, dep, 0, "root", [])
    tr.ev("Extract", mode="cache", written=written, cache=cache if cache_ok else [[-5, -5]], nodes=nodes,
          err=(err or "")[:120])
    ctx.count("evaluations")
    ctx.nontriv(json.dumps([[n["parent"], [m[2:] for m in n["mem"]]] for n in nodes] + [omit is None, dep is None]))
    return written


def run_one(ctx, tr, data: bytes, name, replace: bytes | None, tofile: bool, via, scn):
    d = ctx.tmp("c11o")
    dots = len(data) % 2 == 0
    inp, oute, outp, rep = d / "in.suit", d / ("out.v2.suit" if dots else "out.suit"), d / ("payload.app.bin" if dots else "payload.bin"), d / "rep.bin"
    inp.write_bytes(data)
    if replace is not None:
        rep.write_bytes(replace)
    alias = scn.get("alias") if (replace is not None and tofile) else None
    if alias:
        # a SWAP through one file: the replacement is read from the very file the extracted payload is written to - named by the
        # same path, by another spelling of it, or through a link
        outp = {"same": rep, "spelling": d / "sub" / ".." / "rep.bin", "link": d / "rep_link.bin"}[alias]
        (d / "sub").mkdir(exist_ok=True)
        if alias == "link":
            (d / "rep_link.bin").symlink_to("rep.bin")
    if scn.get("stale") and not alias:
        oute.write_bytes(STALE)
        if tofile:
            outp.write_bytes(STALE)
    if via == "cli":
        a = ["payload_extract", "--input-envelope", inp, "--output-envelope", oute, "--payload-name", name]
        if tofile:
            a += ["--output-payload-file", outp]
        if replace is not None:
            a += ["--payload-replace-path", rep]
        subprocess.run(core.cli_cmd(*a), cwd=d, env=core.cli_env(), capture_output=True, text=True)
    else:
        core.setup_repo_path()
        from suit_generator import cmd_payload_extract

        try:
            cmd_payload_extract.main(str(inp), str(oute), name, str(outp) if tofile else None,
                                     str(rep) if replace is not None else None)
        except Exception:
            pass
    for f in (oute, outp):
        if f.exists() and f.read_bytes() == STALE:
            f.unlink()
    t = tr.terms
    ei = project.Env(data)
    eo = project.Env(oute.read_bytes()) if oute.exists() and is_env(oute.read_bytes()) else None
    tr.begin(scn)

    def pays(e):
        return [[t.id(n), t.id(v.val if v.mt == 2 else v.raw)] for n, v in e.payloads]

    def others(e):
        return [[t.id(k.raw), t.id(v.raw)] for k, v in e.members if k.mt != 3]

    tr.ev("Extract", mode="one", name=t.id(name), inPay=pays(ei), outPay=pays(eo) if eo else [[-5, -5]],
          inOthers=others(ei), outOthers=others(eo) if eo else [], fileGiven=tofile,
          file=t.id(outp.read_bytes()) if outp.exists() else -1, replaceGiven=replace is not None,
          replace=t.id(replace) if replace is not None else -1)
    ctx.count("evaluations")
    ctx.nontriv(("one", len(ei.payloads), replace is not None, tofile, name in [n for n, _ in ei.payloads]))


def from_tlc(ctx, rng, d, scn, k):
    """TLC scenario -> (envelope bytes, omit regex, dep regex)."""
    nm = {"a": "#a.bin", "b": "file://b"}
    omit_names, dep_names = set(), set()
    for lst in (scn["root"], scn["child"]):
        for n, o, dp in lst:
            if o:
                omit_names.add(nm[n])
            if dp:
                dep_names.add(nm[n])
    child = None
    if scn["hasChild"]:
        child = make_env(ctx, d, rng, 2 * k + 1, [(nm[n], envgen.blob(10 + i, 100 * k + i)) for i, (n, o, dp) in enumerate(scn["child"])], [])
        dep_names.add("#dep")
        if scn["childOmit"]:
            omit_names.add("#dep")
    root = make_env(ctx, d, rng, 2 * k, [(nm[n], envgen.blob(20 + i, 100 * k + 50 + i)) for i, (n, o, dp) in enumerate(scn["root"])],
                    [("#dep", child)] if child else [])
    rx = lambda s: "|".join(re.escape(x) for x in sorted(s)) if s else (None if k % 2 else "matches-nothing")  # noqa: E731
    return root, rx(omit_names), rx(dep_names)


EDGE = (0x00, 0x09, 0x0A, 0x0D, 0x20, 0xFF)


def edged(b: bytes, n: int) -> bytes:
    """Every third payload gets a first and last byte that text handling treats specially (NUL, whitespace, 0xFF)."""
    if n % 3 or not b:
        return b
    a = bytearray(b)
    a[0], a[-1] = EDGE[(n // 3) % 6], EDGE[(n // 18) % 6]
    return bytes(a)


def random_case(ctx, rng, d, k):
    cnt = [0]

    def mk(depth):
        cnt[0] += 1
        me = cnt[0]
        pays = [(rng.choice(["#app", "#rad", "cache://x", "p", "#app.bin", "długi", "2", "3", "20"]) + rng.choice(["", "", "1", "2", "", "3"]),
                 edged(envgen.blob(rng.choice([0, 1, 16, 300]), me * 10 + i), k + me + i)) for i in range(rng.choice([0, 1, 2, 2]))]
        if k % 7 == 3 and pays:
            pays.append((pays[0][0] + "\n", envgen.blob(5, me)))   # a legal name: the first one plus a trailing newline
        pays = list({n: (n, b) for n, b in pays}.values())
        deps = []
        if depth < 3:
            for i in range(rng.choice([0, 1, 1, 2]) if depth else rng.choice([1, 2])):
                deps.append((f"#dep{i}" if rng.random() < 0.8 else f"env{depth}{i}", mk(depth + 1)))
        return make_env(ctx, d, rng, 1000 * k + me, pays, deps)

    root = mk(0)
    # patterns select by FULL match: alternations whose branches are proper prefixes / suffixes of other names present, and a name
    # that differs from a matching one only by a trailing newline, tell a full match from an anchored search
    omit = rng.choice([None, "nothing-matches", ".*", "#app.*", r".*\d", "#dep0|p", "#app|#rad", "p|#app.bin", "#rad|cache://x"])
    dep = rng.choice([None, "nothing-matches", ".*", "#dep.*", "#dep0", "#dep.*|env.*", "#dep0|env", "#dep|#dep1"])
    return root, omit, dep


def run(ctx: core.Check):
    ctx.cov["rule"] = ("hierarchy = envelopes from real create with <= 2 payloads and <= 2 dependencies per level, depth <= 3; "
                       "names and regular expressions realise every (matches-omit, matches-dependency) class; both patterns in "
                       "{absent, matching nothing, everything, partial}. Two-level space enumerated by TLC (Extract_MC), deeper "
                       "ones seeded. payload_extract with/without replacement and output file. Distinct & non-trivial = "
                       "distinct per-node member class vectors.")
    ctx.note("Use A: Extract_MC")
    g = ctx.mc("Extract_MC", "Extract_MC.cfg", workers=1, coverage=False, label="A:model-check + B:scenario-generation")
    scns = g.tagged("SCN")
    if len(scns) != g.distinct:
        raise core.MachineryError("Extract_MC scenario count mismatch")
    ctx.rng.shuffle(scns)
    if ctx.quick:
        scns = scns[:320]
    d = ctx.tmp("c11w")
    tr = toolrun.Trace()
    ctx.note(f"Use B/C: {len(scns)} TLC hierarchies -> real cache_create from_envelope")
    drift = 0
    for k, s in enumerate(scns):
        root, omit, dep = from_tlc(ctx, ctx.rng, d, s, k)
        w = run_cache(ctx, tr, root, omit, dep, [1, 8, 16, 64][k % 4], "cli" if k % 40 == 0 else "lib",
                      {"origin": "tlc", "scn": s, "omit": omit, "dep": dep, "env": root, "stale": k % 4 == 2})
        drift += w != s["written"]
        if k == 1:
            ctx.sample({"tlc_scenario": s, "omit": omit, "dep": dep, "event": tr.events[-1]})
    ctx.cov["drift_model_vs_code"] = drift
    toolrun.report(ctx, tr, label="extract-tlc", keyfn=lambda b, s: f"{b['clause']}:{json.dumps(s.get('scn'))}:{s['omit']}:{s['dep']}")
    ctx.note("Use C: seeded hierarchies up to depth 3; payload_extract")
    tr = toolrun.Trace()
    for k in range(80 if ctx.quick else 2500):
        root, omit, dep = random_case(ctx, ctx.rng, d, k)
        run_cache(ctx, tr, root, omit, dep, ctx.rng.choice([1, 8, 16]), "cli" if k % 40 == 0 else "lib",
                  {"origin": "random", "omit": omit, "dep": dep, "env": root, "stale": k % 4 == 2})
        e = project.Env(root)
        names = [n for n, _ in e.payloads]
        if names:
            nm = ctx.rng.choice(names)
            digits = [n for n in names if n.isdecimal()]   # a text key that spells the integer label of another member is a name
            if digits and k % 2:
                nm = ctx.rng.choice(digits)
            rep = ctx.rng.choice([None, b"", envgen.blob(33, k)])
            tofile = ctx.rng.random() < 0.6
            run_one(ctx, tr, root, nm, rep, tofile, "cli" if k % 30 == 0 else "lib",
                    {"origin": "one", "name": nm, "env": root, "replace": rep, "tofile": tofile, "stale": k % 3 == 1,
                     "alias": [None, "same", None, "spelling", None, "link"][k % 6]})
        if len(tr.events) > 4000:
            toolrun.report(ctx, tr, label="extract-random", keyfn=lambda b, s: f"{b['clause']}:{s.get('omit')}:{s.get('dep')}:{s.get('name')}:{len(s['env'])}")
            tr = toolrun.Trace()
    # every residue of the first cache slot against erase blocks beyond the short padding headers (23 / 24 / 25 / 26 ... bytes of
    # padding need eb > 26): one payload of every size 0..70 at eb 32 and 64, and 100
    for eb in ((32, 64) if ctx.quick else (27, 32, 48, 64, 100, 256)):
        for dl in range(0, 71 if eb <= 64 else 101):
            root = make_env(ctx, d, ctx.rng, 50000 + eb * 200 + dl, [("#s", envgen.blob(dl, dl + eb))], [])
            run_cache(ctx, tr, root, None, None, eb, "lib", {"origin": "residues", "omit": None, "dep": None, "env": root, "stale": False})
        if len(tr.events) > 4000:
            toolrun.report(ctx, tr, label="extract-random", keyfn=lambda b, s: f"{b['clause']}:{s.get('omit')}:{s.get('dep')}:{s.get('name')}:{len(s['env'])}")
            tr = toolrun.Trace()
    toolrun.report(ctx, tr, label="extract-random", keyfn=lambda b, s: f"{b['clause']}:{s.get('omit')}:{s.get('dep')}:{s.get('name')}:{len(s['env'])}")
    ctx.observe("O7: payload_extract with a payload name that is not in the envelope logs an error, still writes the output "
                "envelope, then fails with TypeError when an output payload file was requested; C11 quantifies over payloads "
                "that exist, so this is not judged")
    ctx.assumptions += ["re.fullmatch defines which names a pattern selects", "cache decoded by the verifier's walker (C10)"]


def replay(ctx, rec):
    scn = rec["replay"]["scenario"]
    import base64

    env = base64.b64decode(scn["env"]["b64"])
    tr = toolrun.Trace()
    if scn.get("origin") == "one":
        rep = base64.b64decode(scn["replace"]["b64"]) if isinstance(scn.get("replace"), dict) else None
        run_one(ctx, tr, env, scn["name"], rep, bool(scn.get("tofile", True)), "lib", dict(scn, env=env, replace=rep))
    else:
        run_cache(ctx, tr, env, scn.get("omit"), scn.get("dep"), 8, "lib", dict(scn, env=env))
    ctx.nontriv("replay")
    ctx.nontriv("replay2")
    ctx.sample({"replayed": {k: v for k, v in scn.items() if k != "env"}})
    toolrun.report(ctx, tr, label="replay")
