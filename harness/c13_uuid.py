"""C13 - vendor/class UUIDs are derived identically everywhere; build-configuration role assignment.

Use A  Assign_MC: EnvelopeStorage construction (defaults, then configuration entries in order, duplicate detection)
       over all 216 configurations of the three configurable roles; lookup must agree with RoleOf / ConfigRejected.
Use B  the configurations enumerated by TLC are written as Kconfig files and an envelope of every pair is offered to
       the real storage object / `image boot`.
Use C  Triangle events (manifest from create, MPI record from mpi generate, slot chosen by image boot: every 16-byte
       identifier looked up among the UUIDv5 values the verifier computes with hashlib.sha1) and Assign events,
       judged by Assign_Trace.
"""
from __future__ import annotations

import json
import subprocess

from . import cborx, core, envgen, ihex, project, seqwalk, toolrun, uuid5
from .c07_storage import LAYOUT, kconfig_text

NAMES = [("nordicsemi.com", "nRF54H20_sample_app"), ("ACME Corp", "Light bulb v2"), ("", ""), ("a", ""), ("", "b"),
         ("zażółć.example", "gęślą-jaźń"), ("日本語", "クラス"), ("v" * 300, "c" * 300), ("key=value", "a = b"),
         (" leading", "trailing "), ("\ttab", "nbsp\u00a0"), ("  ", " "), ("line\u2028sep", "nel\u0085name"), ("form\x0cfeed", "para\u2029graph"), ("UPPER.example", "upper.example"), ("y", "n"), ("0x10", "123"), ("#hash", "semi;colon"),
         # pairs whose CONCATENATIONS coincide (with '.', '', ' ', '/', ':', '-', '_', ',' between class and vendor, either order): the
         # identifier is a function of the PAIR, and of nothing an earlier derivation in the same process left behind
         ("example.com", "app.dev"), ("dev.example.com", "app"), ("app.dev.example.com", "bootloader"), ("com", "app.dev.example"),
         ("ab", "c"), ("a", "bc"), ("abc", "x"), ("a b", "c"), ("a", "b c"), ("a/b", "c"), ("a", "b/c"), ("a:b", "c"), ("a", "b:c"),
         ("a-b", "c"), ("a", "b-c"), ("a_b", "c"), ("a", "b_c"), ("a,b", "c"), ("a", "b,c"), ("c", "a.b"), ("b.c", "a"),
         # ONE name under two namespaces, a name that is also a namespace, a vendor that is another pair's class
         ("nordicsemi.com", "app_core"), ("example.org", "app_core"), ("app_core", "example.org"), ("example.org", "example.org"),
         ("Acme-IoT.Example.COM", "Mixed.Case"), ("acme-iot.example.com", "Mixed.Case"), ("acme-iot.example.com", "mixed.case")]
OBS_NAMES = [('quo"te', 'back\\slash')]
PAIRS = {"dRoot": ("nordicsemi.com", "nRF54H20_sample_root"), "dApp": ("nordicsemi.com", "nRF54H20_sample_app"),
         "dRad": ("nordicsemi.com", "nRF54H20_sample_rad"), "cA": ("ACME Corp", "acme app"),
         "cB": ("nordicsemi.com", "custom_b")}
DEFAULTS = [["APP_ROOT", "dRoot"], ["APP_LOCAL_1", "dApp"], ["RAD_LOCAL_1", "dRad"]]
ROLES = list(LAYOUT["nrf54h20"])


def term(b: bytes, v: str, c: str) -> str:
    if b == uuid5.class_id(v, c):
        return "C"
    if b == uuid5.vendor_id(v):
        return "V"
    return "?"


def make_env(d, k, v, c):
    sh = {"walg": envgen.ALGS[k % 5], "wsup": "none", "seq": k, "pad": None, "mem": {}, "cid": [["first", "mid", "last"][k % 3], v, c],
          "version": None, "pay": [], "deps": [], "imgs": []}
    b = envgen.Builder(d / f"e{k}")
    desc = b.desc(sh, toolrun.create_lib)
    if k % 4 == 1:   # a manifest that also lists ANOTHER installed manifest among its components (a root naming its dependency):
        # the envelope's own class is the one of its manifest component id, wherever other identifiers of that form occur
        common = desc["SUIT_Envelope_Tagged"]["suit-manifest"].setdefault("suit-common", {})
        common.setdefault("suit-components", []).append(
            ["INSTLD_MFST", {"RFC4122_UUID": {"namespace": "nordicsemi.com", "name": "nRF54H20_sample_rad" if c != "nRF54H20_sample_rad" else "other"}}])
    data = toolrun.create_lib(desc)
    p = d / f"env{k}.suit"
    p.write_bytes(data)
    return p, data


def manifest_ids(data: bytes):
    """(vendor id param, class id param, class id of the component id) found by the verifier's own walker."""
    e = project.Env(data)
    comps, deps, steps = seqwalk.manifest_steps(e)
    vid = cid = b""
    for name, code, arg, depth in steps:
        if name == "shared" and code in (19, 20) and arg is not None and arg.mt == 5:
            a = arg.get(1)
            b = arg.get(2)
            if a is not None and a.mt == 2:
                vid = a.val
            if b is not None and b.mt == 2:
                cid = b.val
    comp = b""
    ci = e.manifest_get(5)
    if ci is not None and ci.mt == 4 and ci.val and ci.val[-1].mt == 2:
        comp = ci.val[-1].val
    return vid, cid, comp


def boot_landing(ctx, d, envfile, cfg_text, base=0x0E1ED000, via="lib"):
    """Run image boot for one envelope; returns (landed role | NONE, slot class id bytes)."""
    out = d / "out"
    out.mkdir(exist_ok=True)
    for f in out.iterdir():
        f.unlink()
    cfg = d / "k.config"
    cfg.write_bytes(cfg_text.encode("utf-8"))   # bytes: the line ends are part of the scenario (kconfig_text varies them)
    if via == "cli":
        subprocess.run(core.cli_cmd("image", "boot", "--input-file", envfile, "--storage-output-directory", out,
                                    "--storage-address", hex(base), "--config-file", cfg),
                       cwd=d, env=core.cli_env(), capture_output=True, text=True)
    else:
        core.setup_repo_path()
        from suit_generator.cmd_image import ImageCreator

        try:
            ImageCreator.create_files_for_boot([str(envfile)], str(out), base, str(cfg), "nrf54h20")
        except BaseException as e:
            if isinstance(e, (KeyboardInterrupt, MemoryError)):
                raise
    mem = {}
    for f in out.iterdir():
        try:
            mem.update(ihex.memory(f.read_text()))
        except ihex.HexError:
            pass
    landed, slotcid = [], b""
    for role, off in LAYOUT["nrf54h20"].items():
        a0 = base + off
        if a0 in mem:
            landed.append(role)
            raw = bytes(mem.get(a0 + i, 0xFF) for i in range(2048))
            try:
                it = cborx.read_item(raw, 0)
                o, env = it.get(1), it.get(2)
                slotcid = env.val[o.val:o.val + 16]
            except Exception:
                slotcid = b""
    if len(landed) == 1:
        return landed[0], slotcid
    return ("NONE" if not landed else "MANY"), slotcid


def mpi_ids(ctx, d, v, c, via="lib"):
    out = d / "mpi.hex"
    if out.exists():
        out.unlink()
    if via == "cli":
        subprocess.run(core.cli_cmd("mpi", "generate", "--output-file", out, "--vendor-name", v, "--class-name", c,
                                    "--address", "0x1000", "--size", "48"), cwd=d, env=core.cli_env(),
                       capture_output=True, text=True)
    else:
        core.setup_repo_path()
        from suit_generator.cmd_mpi import MpiGenerator

        try:
            MpiGenerator.generate(str(out), v, c, 0x1000, 48, False, False, None)
        except Exception:
            pass
    if not out.exists():
        return b"", b""
    mem = ihex.memory(out.read_text())
    raw = bytes(mem.get(0x1000 + i, 0) for i in range(48))
    return raw[16:32], raw[32:48]


def run(ctx: core.Check):
    ctx.cov["rule"] = ("triangle: (vendor, class) name pairs (ASCII, non-ASCII, empty, 300 characters, Kconfig-hostile "
                       "characters) x configurable role x library|CLI; assignment: all 216 configurations of the three "
                       "configurable roles over {three default pairs, two custom pairs} (TLC) x an envelope of each of the five "
                       "pairs. Distinct & non-trivial = distinct (names, role) / (configuration, pair).")
    ctx.note("Use A: Assign_MC")
    g = ctx.mc("Assign_MC", "Assign_MC.cfg", workers=1, required_actions=("Check", "AssignOne", "Done"),
               label="A:model-check + B:scenario-generation")
    cfgs = g.tagged("SCN")
    d = ctx.tmp("c13")
    tr = toolrun.Trace()
    ctx.note("Use C: triangle create / mpi generate / image boot")
    k = 0
    for (v, c) in NAMES + ([] if ctx.quick else [(f"vendor{i}.example", f"class {i}") for i in range(60)]):
        for role in (ROLES if not ctx.quick else [ROLES[k % 11], ROLES[(k + 5) % 11]]):
            k += 1
            # names that begin / end with white space, empty names and names made of white space go through the COMMAND LINE too
            # (a name is the whole string: the three derivations must hash the same bytes whatever the entry point)
            special = v != v.strip() or c != c.strip() or not v or not c
            via = "cli" if (k % 9 == 0 or (special and k % 2 == 0)) and not v.startswith("-") and not c.startswith("-") else "lib"
            envf, data = make_env(d, k, v, c)
            vid, cid, comp = manifest_ids(data)
            mv, mc = mpi_ids(ctx, d, v, c, via)
            landed, slotcid = boot_landing(ctx, d, envf, kconfig_text({role: (v, c)}), via=via)
            tr.begin({"kind": "triangle", "vendor": v, "cls": c, "role": role, "via": via}, defaults=DEFAULTS)
            tr.ev("Triangle", mfCid=term(cid, v, c), mfVid=term(vid, v, c), mfComp=term(comp, v, c),
                  mpiCid=term(mc, v, c), mpiVid=term(mv, v, c), slotCid=term(slotcid, v, c), landed=landed, role=role)
            ctx.count("evaluations")
            ctx.nontriv(("tri", v[:30], c[:30], role))
            if k == 2:
                ctx.sample({"scenario": tr.scn[tr.tid], "event": tr.events[-1]})
    toolrun.report(ctx, tr, module="Assign_Trace", label="triangle")
    # observation stream (O8): Kconfig escaping
    for (v, c) in OBS_NAMES:
        envf, data = make_env(d, 9000, v, c)
        esc = lambda s: s.replace("\\", "\\\\").replace('"', '\\"')  # noqa: E731
        landed, _ = boot_landing(ctx, d, envf, kconfig_text({"APP_LOCAL_2": (esc(v), esc(c))}))
        if landed != "APP_LOCAL_2":
            ctx.observe("O8: BuildConfiguration strips the surrounding quotes of a Kconfig string but does not undo Kconfig's "
                        "escaping; a class name containing \" or \\ is derived from the escaped spelling (envelope not mapped)")
    ctx.note(f"Use B/C: {len(cfgs)} TLC configurations x 5 pairs -> real storage lookup")
    tr = toolrun.Trace()
    envs = {pid: make_env(d, 9100 + i, *PAIRS[pid])[0] for i, pid in enumerate(PAIRS)}
    n = 0
    for s in cfgs:
        text = kconfig_text({role: PAIRS[pid] for role, pid in s["cfg"]})
        for pid in PAIRS:
            n += 1
            landed, _ = boot_landing(ctx, d, envs[pid], text, via="cli" if n % 97 == 0 else "lib")
            if landed == "NONE" and s["rejected"]:
                landed = "REJECT"  # no file either way; the spec decides which of the two refusals was due
            tr.begin({"kind": "assign", "cfg": s["cfg"], "pair": pid}, defaults=DEFAULTS)
            tr.ev("Assign", cfg=s["cfg"], pair=pid, landed=landed)
            ctx.count("evaluations")
            ctx.nontriv(("asg", json.dumps(s["cfg"]), pid))
    ctx.sample({"scenario": tr.scn[tr.tid], "event": tr.events[-1]})
    toolrun.report(ctx, tr, module="Assign_Trace", label="assign")
    ctx.assumptions += ["UUIDv5 by the verifier (hashlib.sha1, RFC 4122 bit fiddling)",
                        "names containing \" or \\ only in an observation stream (Kconfig escaping, O8)",
                        "a refused run leaves no file: 'configuration rejected' and 'class unknown' are told apart by the spec, "
                        "not by the exception text"]


def replay(ctx, rec):
    scn = rec["replay"]["scenario"]
    d = ctx.tmp("c13r")
    tr = toolrun.Trace()
    if scn["kind"] == "triangle":
        v, c, role = scn["vendor"], scn["cls"], scn["role"]
        envf, data = make_env(d, 1, v, c)
        vid, cid, comp = manifest_ids(data)
        mv, mc = mpi_ids(ctx, d, v, c, scn.get("via", "lib"))
        landed, slotcid = boot_landing(ctx, d, envf, kconfig_text({role: (v, c)}), via=scn.get("via", "lib"))
        tr.begin(scn, defaults=DEFAULTS)
        tr.ev("Triangle", mfCid=term(cid, v, c), mfVid=term(vid, v, c), mfComp=term(comp, v, c), mpiCid=term(mc, v, c),
              mpiVid=term(mv, v, c), slotCid=term(slotcid, v, c), landed=landed, role=role)
    else:
        envf, _ = make_env(d, 1, *PAIRS[scn["pair"]])
        landed, _ = boot_landing(ctx, d, envf, kconfig_text({role: PAIRS[pid] for role, pid in scn["cfg"]}))
        tr.begin(scn, defaults=DEFAULTS)
        tr.ev("Assign", cfg=scn["cfg"], pair=scn["pair"], landed=landed)
    ctx.count("evaluations")
    ctx.nontriv("replay")
    ctx.nontriv("replay2")
    ctx.sample({"replayed": scn})
    toolrun.report(ctx, tr, module="Assign_Trace", label="replay")
