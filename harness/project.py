"""Projection of envelopes into the abstract terms the TLA+ specifications talk about.

Independent primitives only: the verifier's own CBOR reader (cborx), hashlib, signature *verification* with public
keys, own UUIDv5.  Equal bytes <=> equal interned id; a digest found in an artifact is *looked up* among the hashes
of all interned byte strings under the algorithm recorded next to it (-1 = hash of nothing we know).
"""
from __future__ import annotations

import hashlib

from . import cborx
from .core import Interner

# COSE algorithm ids of the five digest algorithms (name as in the description language)
HASH_ALGS = {
    -16: "cose-alg-sha-256",
    -18: "cose-alg-shake128",
    -43: "cose-alg-sha-384",
    -44: "cose-alg-sha-512",
    -45: "cose-alg-shake256",
}
HASH_IDS = {v: k for k, v in HASH_ALGS.items()}


def H(alg: int, data: bytes) -> bytes:
    if alg == -16:
        return hashlib.sha256(data).digest()
    if alg == -43:
        return hashlib.sha384(data).digest()
    if alg == -44:
        return hashlib.sha512(data).digest()
    if alg == -18:
        return hashlib.shake_128(data).digest(16)
    if alg == -45:
        return hashlib.shake_256(data).digest(32)
    raise ValueError(alg)


SEVERABLE = {15: "suit-dependency-resolution", 16: "suit-payload-fetch", 17: "suit-install-legacy",
             18: "suit-candidate-verification", 20: "suit-install", 23: "suit-text"}
PROPERTY_SEVERABLE = (15, 16, 18, 20, 23)  # members C01 names (17 is observed, not judged)


class Terms:
    """Term table of one batch: interning + reverse hash lookup."""

    def __init__(self):
        self.it = Interner()
        self.hashes = {}  # (alg, digest bytes) -> id of preimage
        self._hashed = set()

    def id(self, b) -> int:
        i = self.it.id(b)
        if isinstance(b, (bytes, bytearray)) and i not in self._hashed:
            self._hashed.add(i)
            for alg in HASH_ALGS:
                self.hashes.setdefault((alg, H(alg, bytes(b))), i)
        return i

    def pre(self, alg, digest: bytes) -> int:
        """Id of the interned string whose hash under alg is digest, else -1."""
        return self.hashes.get((alg, bytes(digest)), -1)


class ProjectionError(ValueError):
    pass


def _digest_item(it: cborx.Item):
    """SUIT_Digest = [alg, bstr] -> (alg, bytes) or None."""
    if it.mt == 4 and len(it.val) == 2 and it.val[0].mt in (0, 1) and it.val[1].mt == 2:
        return it.val[0].val, it.val[1].val
    return None


class Env:
    """Structured view of one envelope (one level)."""

    def __init__(self, data: bytes):
        self.data = bytes(data)
        top = cborx.loads(self.data)
        if top.mt != 6 or top.tag != 107 or top.val.mt != 5:
            raise ProjectionError("not a tagged SUIT envelope")
        self.top = top
        self.canonical = top.all_canonical()
        self.members = top.val.val  # list of (key item, value item)
        self.by_key = {}
        for k, v in self.members:
            if k.mt in (0, 1, 3) and k.val not in self.by_key:
                self.by_key[k.val] = v
        auth = self.by_key.get(2)
        mf = self.by_key.get(3)
        if auth is None or mf is None or auth.mt != 2 or mf.mt != 2:
            raise ProjectionError("envelope without wrapper or manifest")
        self.mf_wrapped = mf.raw  # the bstr item exactly as it sits in the envelope
        self.mf_content = mf.val
        self.auth_item = auth
        a = cborx.loads(auth.val)
        if a.mt != 4 or not a.val or a.val[0].mt != 2:
            raise ProjectionError("malformed authentication wrapper")
        self.auth = a
        self.digest_bstr = a.val[0]  # bstr item wrapping SUIT_Digest
        d = _digest_item(cborx.loads(self.digest_bstr.val))
        if d is None:
            raise ProjectionError("malformed SUIT_Digest")
        self.alg, self.digest = d
        self.blocks = a.val[1:]
        self.manifest = cborx.loads(self.mf_content)
        if self.manifest.mt != 5:
            raise ProjectionError("manifest is not a map")
        self.payloads = [(k.val, v) for k, v in self.members if k.mt == 3]

    def manifest_get(self, key):
        return self.manifest.get(key)


def project_block(block_item: cborx.Item, env: Env, keys: dict, terms: Terms) -> dict:
    """COSE_Sign1 authentication block -> term."""
    from .sigverify import verify_any

    out = {"signer": "nobody", "alg": 0, "kid": "?", "kidwrapped": False, "over": -2, "shape": False, "width": 0,
           "raw": terms.id(block_item.raw)}
    if block_item.mt != 2:
        return out
    try:
        b = cborx.loads(block_item.val)
    except cborx.CborError:
        return out
    if b.mt != 6 or b.tag != 18 or b.val.mt != 4 or len(b.val.val) != 4:
        return out
    prot, unprot, payload, sig = b.val.val
    if prot.mt != 2 or sig.mt != 2:
        return out
    out["width"] = len(sig.val)
    try:
        ph = cborx.loads(prot.val) if prot.val else None
    except cborx.CborError:
        ph = None
    if ph is not None and ph.mt == 5:
        alg = ph.get(1)
        kid = ph.get(4)
        if alg is not None and alg.mt in (0, 1):
            out["alg"] = alg.val
        if kid is not None and kid.mt == 2:
            try:
                inner = cborx.loads(kid.val)
                if inner.mt in (0, 1) and inner.shortest:
                    out["kid"] = hex(inner.val)
                    out["kidwrapped"] = True
                else:
                    out["kid"] = "raw:" + kid.val.hex()
            except cborx.CborError:
                out["kid"] = "raw:" + kid.val.hex()
    out["shape"] = (unprot.mt == 5 and payload.mt == 7 and payload.val is None)
    # Sig_structure rebuilt from the block's own protected bytes and the envelope's digest item
    tbs = cborx.dumps(["Signature1", prot.val, b"", env.digest_bstr.val])
    signer = verify_any(keys, out["alg"], tbs, sig.val)
    if signer:
        out["signer"] = signer
        out["over"] = terms.id(env.digest_bstr.raw)
    return out


def project_env(data: bytes, terms: Terms, keys: dict | None = None) -> dict:
    """One envelope level -> abstract record for the trace (all fields of one JSON kind)."""
    e = Env(data)
    t = terms
    mfw = t.id(e.mf_wrapped)
    t.id(e.mf_content)
    # envelope-level severed members present: key -> id of the wrapped bytes as they appear
    sev = []
    for k, v in e.members:
        if k.mt == 0 and k.val in SEVERABLE:
            sev.append([k.val, t.id(v.raw)])
            if v.mt == 2:
                t.id(v.val)
    # manifest-side view of severable members
    mem = []
    for key in SEVERABLE:
        it = e.manifest_get(key)
        if it is None:
            continue
        d = _digest_item(it)
        if d is not None:
            mem.append([key, "dig", d[0], t.pre(d[0], d[1]), len(d[1])])
        else:
            mem.append([key, "emb", 0, t.id(it.raw), 0])
    members = [[t.id(k.raw), t.id(v.raw)] for k, v in e.members]
    others = [m for (m, (k, v)) in zip(members, e.members) if not (k.mt == 0 and k.val == 2)]
    return {
        "alg": e.alg,
        "dg": t.pre(e.alg, e.digest) if e.alg in HASH_ALGS else -1,
        "dglen": len(e.digest),
        "mfw": mfw,
        "mem": mem,
        "sev": sev,
        "dgraw": t.id(e.digest_bstr.raw),
        "blocks": [project_block(b, e, keys or {}, t) for b in e.blocks],
        "pay": [[t.id(n), t.id(v.val if v.mt == 2 else v.raw)] for n, v in e.payloads],
        "others": others,
        "canon": e.canonical,
        "all": t.id(e.data),
    }
