"""Description (python dict of the tool's YAML/JSON language) -> typed tree for Wire.tla.  No interpretation: every string
leaf carries the string, its UTF-8 bytes and its hex decoding; every integer its 16-bit limbs.  Sugar that refers to the
outside world (RFC4122_UUID, file, file_direct, paths of integrated payloads) is resolved HERE with independent primitives
(hashlib, own UUIDv5) before the description reaches TLC - that resolution is what C05 / C13 check separately."""
from __future__ import annotations

import binascii
import copy
import json
import os
import string

from . import uuid5
from .project import HASH_IDS, H


class Unsupported(ValueError):
    """The description uses a form that Wire.tla deliberately does not cover."""


def limbs(v: int):
    if v < 0:
        v = -1 - v
        neg = True
    else:
        neg = False
    if v >= 1 << 64:
        raise Unsupported("integer beyond 64 bits")
    return {"t": "i", "neg": neg, "l": [(v >> 48) & 0xFFFF, (v >> 32) & 0xFFFF, (v >> 16) & 0xFFFF, v & 0xFFFF]}


def node(o, key=None):
    if isinstance(o, bool):
        n = {"t": "b", "v": o}
    elif o is None:
        n = {"t": "n"}
    elif isinstance(o, int):
        n = limbs(o)
    elif isinstance(o, str):
        try:
            x = list(binascii.a2b_hex(o))
        except (binascii.Error, ValueError):
            x = [-1]
        n = {"t": "s", "s": o, "u": list(o.encode("utf-8")), "x": x, "one": len(o) == 1}
    elif isinstance(o, (list, tuple)):
        n = {"t": "l", "v": [node(x) for x in o]}
    elif isinstance(o, dict):
        n = {"t": "m", "v": [[str(k), node(v, str(k))] for k, v in o.items()]}
    else:
        raise Unsupported(f"value of type {type(o)}")
    if key is not None:
        n["ku"] = list(key.encode("utf-8"))
        n["ki"] = limbs(int(key)) if key.isdecimal() else limbs(0)
        if key.startswith("["):
            try:
                n["cid"] = node(json.loads(key))
            except ValueError:
                pass
    return n


def resolve_uuid(o):
    u = o["RFC4122_UUID"]
    if isinstance(u, dict):
        raw = uuid5.class_id(u["namespace"], u["name"]) if "namespace" in u else uuid5.vendor_id(u["name"])
    else:
        raw = uuid5.vendor_id(u)
    return {"raw": raw.hex()}


def resolve(o, cwd="."):
    """Recursively resolve outside-world sugar."""
    if isinstance(o, list):
        return [resolve(x, cwd) for x in o]
    if not isinstance(o, dict):
        return o
    if "RFC4122_UUID" in o and len(o) == 1:
        return resolve_uuid(o)
    out = {}
    for k, v in o.items():
        if k == "suit-parameter-image-digest" or (isinstance(v, dict) and "suit-digest-bytes" in v and isinstance(v["suit-digest-bytes"], dict)):
            v = dict(v)
            b = v.get("suit-digest-bytes")
            if isinstance(b, dict):
                alg = HASH_IDS[v["suit-digest-algorithm-id"]]
                if "raw" in b:
                    v["suit-digest-bytes"] = b["raw"]
                elif "file" in b:
                    v["suit-digest-bytes"] = H(alg, open(os.path.join(cwd, b["file"]), "rb").read()).hex()
                elif "file_direct" in b:
                    v["suit-digest-bytes"] = open(os.path.join(cwd, b["file_direct"]), "rb").read().hex()
                else:
                    raise Unsupported("envelope digest form (C05)")
            out[k] = v
        elif k == "suit-parameter-image-size" and isinstance(v, dict) and "raw" not in v:
            if "file" in v:
                out[k] = {"raw": os.path.getsize(os.path.join(cwd, v["file"]))}
            elif "file_direct" in v:
                out[k] = {"raw": int(open(os.path.join(cwd, v["file_direct"])).read())}
            else:
                raise Unsupported("envelope size form (C05)")
        elif k in ("suit-integrated-payloads", "suit-integrated-dependencies"):
            m = {}
            for name, val in v.items():
                if isinstance(val, dict):
                    raise Unsupported("inline dependency envelope (C05)")
                if all(c in string.hexdigits for c in val):
                    m[name] = val
                else:
                    m[name] = open(os.path.join(cwd, val), "rb").read().hex()
            out[k] = m
        elif k == "suit-delegation":
            raise Unsupported("suit-delegation (F7a)")
        elif k in ("suit-current-version",) and isinstance(v, str):
            raise Unsupported("version string (C20)")
        else:
            out[k] = resolve(v, cwd)
    return out


def check_supported(desc):
    e = desc["SUIT_Envelope_Tagged"]
    mf = e.get("suit-manifest", {})
    t = mf.get("suit-text")
    if isinstance(t, dict) and "suit-digest-algorithm-id" not in t:
        raise Unsupported("unsevered text map inside the manifest (F7a)")

    def walk(o):
        if isinstance(o, dict):
            for k, v in o.items():
                if k == "suit-parameter-version" and isinstance(next(iter(v.values())), str):
                    raise Unsupported("version string (C20)")
                if k == "suit-parameter-encryption-info" and "file" in v:
                    raise Unsupported("encryption info from file (C06)")
                walk(v)
        elif isinstance(o, list):
            for x in o:
                walk(x)
    walk(desc)


def typed(desc: dict, cwd=".") -> dict:
    d = resolve(copy.deepcopy(desc), cwd)
    d = {"SUIT_Envelope_Tagged": d["SUIT_Envelope_Tagged"]}
    check_supported(d)
    return node(d)
