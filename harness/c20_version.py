"""C20 - version strings and default sequence numbers preserve release ordering.

Use A  Version_MC: order embedding SemLess <=> ListLess(Conv, Conv) for ALL pairs of the bounded domain (TLC);
       Version_Apa: the same for unbounded field values at fixed shape, and strict monotonicity of the sequence
       number (Apalache).
Use B  every version of the TLC domain (emitted) and seeded ones with fields up to 300 go through the real
       SuitComponentVersion.from_obj(...).to_obj() (and through create/parse end to end for a sample).
Use C  Conv / Order / Reject / Seq / SeqOrder / Default events judged by Version_Trace.
"""
from __future__ import annotations

import json

from . import core, tlc, toolrun


def vstr(v):
    s = ".".join(str(n) for n in v["nums"])
    if v["pre"] != "none":
        s += "-" + v["pre"]
        if v["prenum"] >= 0:
            s += "." + str(v["prenum"])
    return s


def convert(s):
    core.setup_repo_path()
    from suit_generator.suit.manifest import SuitComponentVersion

    try:
        r = SuitComponentVersion.from_obj(s).to_obj()
        if not isinstance(r, list) or not all(isinstance(x, int) and not isinstance(x, bool) for x in r):
            return True, [-99]
        return True, r
    except Exception as e:  # noqa
        return False, []


def rand_version(rng):
    return {"nums": [rng.choice([0, 1, 2, 9, 10, 23, 24, 255, 256, 300]) for _ in range(rng.choice([1, 2, 3, 3, 4]))],
            "pre": rng.choice(["none", "none", "alpha", "beta", "rc"]), "prenum": rng.choice([-1, 0, 1, 2, 10, 300])}


def norm(v):
    if v["pre"] == "none":
        v["prenum"] = -1
    return v


def version_by_build_cli(d, vf) -> dict:
    """DEFAULT_SEQ_NUM / DEFAULT_VERSION as a template sees them when rendered by `ncs/build.py template --version_file`."""
    import subprocess
    import yaml
    t, o, c = d / "probe.jinja2", d / "probe.yaml", d / "probe.config"
    t.write_text('{% if DEFAULT_SEQ_NUM is defined %}DEFAULT_SEQ_NUM: "{{ DEFAULT_SEQ_NUM }}"\n{% endif %}'
                 '{% if DEFAULT_VERSION is defined %}DEFAULT_VERSION: "{{ DEFAULT_VERSION }}"\n{% endif %}')
    c.write_text("CONFIG_VERIF=y\n")
    if o.exists():
        o.unlink()
    subprocess.run([core.PY, str(core.REPO / "ncs" / "build.py"), "template", "--core", f"probe,,,{c}", "--zephyr-base", str(d),
                    "--artifacts-folder", str(d) + "/", "--template-suit", str(t), "--output-suit", str(o), "--version_file", str(vf)],
                   cwd=d, env=core.cli_env(), capture_output=True, text=True)
    return (yaml.safe_load(o.read_text()) or {}) if o.exists() else {}


def run(ctx: core.Check):
    ctx.cov["rule"] = ("versions N(.N)*[-(alpha|beta|rc)[.N]]: the bounded domain of Version_MC (all pairs checked by TLC, every "
                       "element replayed) + seeded versions with fields up to 300 and all ordered pairs among a sample; "
                       "unsupported labels; (major, minor, patch, tweak, extraversion) tuples through "
                       "append_default_version_values. Distinct & non-trivial = distinct version / pair / tuple.")
    ctx.note("Use A: Version_MC (all pairs) + Apalache (unbounded)")
    g = ctx.mc("Version_MC", "Version_MC.cfg", workers=1, coverage=False, label="A:model-check + B:scenario-generation")
    dom = g.tagged("SCN")
    ap = []
    for init, inv in (("Init", "OrderEmbedding"), ("SeqInit", "SeqMonotone")):
        ok, out, wall = tlc.run_apalache("Version_Apa.tla", init=init, inv=inv, length=0, timeout=240)
        ap.append({"obligation": inv, "result": "proved" if ok else ("timeout" if ok is None else "FAILED"), "wall_s": round(wall, 1)})
        if ok is False:
            raise core.MachineryError(f"Apalache refuted {inv}:\n{out[-1500:]}")
    ctx.cov["apalache"] = ap
    tr = toolrun.Trace()
    ctx.note(f"Use B/C: {len(dom)} domain versions + seeded ones through the real converter")
    allv = [norm(v) for v in dom] + [norm(rand_version(ctx.rng)) for _ in range(300 if ctx.quick else 5000)]
    conv = []
    for k, v in enumerate(allv):
        s = vstr(v)
        acc, got = convert(s)
        tr.begin({"kind": "conv", "v": v, "str": s})
        tr.ev("Conv", v=v, accepted=acc, got=got, s=s)
        conv.append((v, got, acc))
        ctx.count("evaluations")
        ctx.nontriv(("v", s))
        if k == 7:
            ctx.sample({"string": s, "event": tr.events[-1]})
    # list form given directly must be kept as it is
    for lst in ([1, 2, 3], [0], [1, 0, 0, -1, 2]):
        acc, got = convert(lst)
        tr.begin({"kind": "list", "v": lst})
        tr.ev("Conv", v={"nums": lst, "pre": "none", "prenum": -1}, accepted=acc, got=got, s=str(lst))
    # ordered pairs of converted versions (tool's own lists)
    sample = [c for c in conv if c[2]]
    ctx.rng.shuffle(sample)
    sample = sample[: (70 if ctx.quick else 300)]
    for (a, la, _) in sample:
        for (b, lb, _) in sample:
            tr.begin({"kind": "order", "a": vstr(a), "b": vstr(b)})
            tr.ev("Order", a=a, b=b, la=la, lb=lb)
            ctx.count("evaluations")
    ctx.nontriv(("pairs", len(sample) ** 2))
    for label in ("gamma", "dev", "pre", "a", "Alpha", "RC", "rc1", "snapshot", "-", "post"):
        acc, got = convert(f"1.2.3-{label}")
        tr.begin({"kind": "reject", "label": label})
        tr.ev("Reject", label=label, raised=not acc)
        ctx.count("evaluations")
        ctx.nontriv(("label", label))
    toolrun.report(ctx, tr, module="Version_Trace", label="version", keyfn=lambda b, s: f"{b['clause']}:{json.dumps(s)[:200]}")
    # ---- default sequence number / default version from VERSION files
    ctx.note("Use C: append_default_version_values on generated VERSION files")
    core.setup_repo_path()
    import importlib.util

    spec = importlib.util.spec_from_file_location("verif_ncs_build", str(core.REPO / "ncs" / "build.py"))
    build = importlib.util.module_from_spec(spec)
    spec.loader.exec_module(build)
    d = ctx.tmp("c20")
    tr = toolrun.Trace()
    tuples = []
    vals = [0, 1, 2, 127, 128, 254, 255]
    extras = [("empty", "", "", -1), ("label", "alpha", "alpha", -1), ("label", "beta", "beta", -1), ("label", "rc", "rc", -1),
              ("label", "rc1", "rc", 1), ("label", "rc.2", "rc", 2), ("label", "alpha0", "alpha", 0), ("label", "beta.10", "beta", 10),
              ("other", "dev", "", -1), ("other", "rc-1", "", -1), ("other", "99", "", -1), ("other", "RC1", "", -1)]
    n = 120 if ctx.quick else 3000
    # the corners of the tuple space first: all zero (with and without a tweak line), one step above zero in every field, all 255
    corners = [(0, 0, 0, 0), (0, 0, 0, 0), (0, 0, 0, 1), (0, 0, 1, 0), (0, 1, 0, 0), (1, 0, 0, 0), (255, 255, 255, 255), (0, 0, 0, 255),
               (0, 0, 255, 0), (0, 255, 0, 0), (255, 0, 0, 0)]
    for k in range(n):
        M = ctx.rng.choice([0, 1, 2, 3, 9, 100, 127, 255, 1000, 70000])
        m, p, t = (ctx.rng.choice(vals) for _ in range(3))
        if k < 2 * len(corners):
            M, m, p, t = corners[k // 2]   # each corner twice: k and k + 1 differ in whether the tweak line is written
        cls, text, label, num = extras[k % len(extras)]
        f = d / f"VERSION{k}"
        lines = [f"VERSION_MAJOR = {M}", f"VERSION_MINOR = {m}", f"PATCHLEVEL = {p}"]
        if k % 5:
            lines.append(f"VERSION_TWEAK = {t}")
        else:
            t = 0
        lines.append(f"EXTRAVERSION = {text}")
        # ONE of the two explicit overrides given: the other value is still derived from the version fields
        override = [None, None, None, "ver", None, "seq", None][k % 7]
        if override == "ver":
            lines.append("APP_ROOT_VERSION = 9.8.7-rc.1")
        elif override == "seq":
            lines.append("APP_ROOT_SEQ_NUM = 77")
        # the FORM of the file varies: no blanks around '=', CRLF line ends, a comment and a blank line, no final newline
        form = k % 5
        if form == 1:
            lines = [x.replace(" = ", "=") for x in lines]
        if form == 3:
            lines = ["# version of the application", ""] + lines
        nl = "\r\n" if form == 2 else "\n"
        f.write_bytes((nl.join(lines) + ("" if form == 4 else nl)).encode())
        try:
            if k % 10 == 7:
                items = version_by_build_cli(d, f)   # the build system's command line: build.py template --version_file
            else:
                items = dict(build.read_version_file(str(f)))
        except Exception:
            items = {}
        seq = items.get("DEFAULT_SEQ_NUM")
        dv = items.get("DEFAULT_VERSION")
        try:
            sv = int(seq)
            digits = [sv >> 24, (sv >> 16) & 255, (sv >> 8) & 255, sv & 255]
        except Exception:
            digits = [-1]
        tr.begin({"kind": "seq", "tuple": [M, m, p, t], "extra": text, "override": override})
        if override != "seq":   # (an explicit sequence number is the user's choice, not a derived default)
            tr.ev("Seq", t=[M, m, p, t], digits=digits)
        acc, got = convert(dv) if isinstance(dv, str) else (False, [])
        tr.ev("Default", M=M, m=m, p=p, x={"class": cls, "label": label or "alpha", "num": num}, found=isinstance(dv, str),
              accepted=acc, got=got, dv=dv or "")
        if override != "seq":
            tuples.append(([M, m, p, t], digits))
        ctx.count("evaluations")
        ctx.nontriv(("seq", M, m, p, t, text))
        if k == 4:
            ctx.sample({"VERSION": lines, "events": tr.of(tr.tid)})
    ts = tuples[: (60 if ctx.quick else 200)]
    for (x, dx) in ts:
        for (y, dy) in ts:
            tr.begin({"kind": "seqorder", "x": x, "y": y})
            tr.ev("SeqOrder", x=x, y=y, dx=dx, dy=dy)
            ctx.count("evaluations")
    toolrun.report(ctx, tr, module="Version_Trace", label="seqnum", keyfn=lambda b, s: f"{b['clause']}:{json.dumps(s)[:200]}")
    ctx.observe("O3: for versions with different numbers of numeric fields where the shorter one carries a pre-release label "
                "(1.0-rc vs 1.0.0-alpha) list order and the natural extension of SemVer precedence disagree; SemVer fixes three "
                "fields, so such pairs are outside 'coincides' and are not judged")
    ctx.assumptions += ["SemLess in Version.tla is the property's notion of precedence (missing pre-release number = 0)",
                        "sequence numbers are split into base-256 digits by the harness (representation only)"]


def replay(ctx, rec):
    scn = rec["replay"]["scenario"]
    tr = toolrun.Trace()
    if scn.get("kind") == "conv":
        acc, got = convert(scn["str"])
        tr.begin(scn)
        tr.ev("Conv", v=scn["v"], accepted=acc, got=got, s=scn["str"])
        toolrun.report(ctx, tr, module="Version_Trace", label="replay")
    else:
        ctx.note("replay of this scenario kind re-runs the whole quick check")
        return run(ctx)
    ctx.count("evaluations")
    ctx.nontriv("replay")
    ctx.nontriv("replay2")
    ctx.sample({"replayed": scn})
