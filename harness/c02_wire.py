"""C02 - envelope wire format is the SUIT/COSE encoding of the description.

Use A  Wire_MC: properties of the reference encoder at every CBOR width boundary (shortest-form heads on limbs, injective
       policy bitfield, unambiguous hole codes) and the Registry ASSUMEs.
Use B  TLC enumerates every registry atom (each command x argument shape, each parameter x value variant, algorithms,
       policy subsets, comparators, text keys, integer/length boundaries); each is embedded in a minimal description.
Use C  the real create output for every atom, for seeded descriptions over the whole grammar, for the repository's example
       inputs and for the generator shapes of the other checks is compared by TLC with Fill(Wire(desc)): Wire_Trace evaluates
       the reference encoder Wire.tla on the typed description and MatchJudge compares byte for byte; digests the tool must
       compute are holes checked against hashlib over the actual spans.
"""
from __future__ import annotations

import copy
import json
from pathlib import Path

import yaml

from . import core, envgen, project, toolrun, wiredesc, wiregen

ALG_IDX = {-16: 1, -18: 2, -43: 3, -44: 4, -45: 5}


def hashes(data: bytes):
    e = project.Env(data)
    out = []
    for alg, i in ALG_IDX.items():
        out.append([1, i, list(project.H(alg, e.mf_wrapped))])
        for k, v in e.members:
            if k.mt == 0 and k.val in project.SEVERABLE:
                out.append([100 + k.val, i, list(project.H(alg, v.raw))])
    return out


def wire_event(ctx, tr, desc, data: bytes, scn, cwd="."):
    """Adds one Wire event; returns False when the description uses a form outside Wire.tla."""
    try:
        t = wiredesc.typed(desc, cwd)
    except wiredesc.Unsupported as e:
        ctx.count("outside_reference_encoder")
        return False
    tr.begin(scn)
    try:
        hs = hashes(data)
    except Exception:
        hs = []
    tr.ev("Wire", desc=t, bytes=list(data), hashes=hs)
    ctx.count("evaluations")
    return True


def create(ctx, d, desc, via):
    if via == "lib":
        return toolrun.create_lib(desc)
    return toolrun.create_cli(desc, d, fmt=via)


def keyfn(b, s):
    if s.get("pin"):
        return f"O1:{s['pin']}"
    return f"{b['clause']}:{json.dumps(core.jsonable(s), sort_keys=True)[:400]}"


def run(ctx: core.Check):
    ctx.cov["rule"] = ("description = (a) one registry atom (419: each of the 22 commands x argument shape, each of the 14 parameters x "
                       "value variant, every algorithm, policy subset, comparator, text key; integers and lengths at 0/23/24/255/256/"
                       "65535/65536/2^32-1/2^32/2^64-1) in a minimal envelope, enumerated by TLC; (b) seeded descriptions over the whole "
                       "grammar (authentication blocks, dependencies, component-id part kinds, try-each/run-sequence nesting, encryption "
                       "info with nested recipients, severed text maps, member order); (c) the repository's example inputs; (d) the "
                       "generator shapes of the other checks. Distinct & non-trivial = distinct descriptions whose bytes were compared.")
    g = ctx.mc("Wire_MC", "Wire_MC.cfg", workers=1, coverage=False, label="A:encoder properties + B:atom enumeration")
    atoms = g.tagged("SCN")
    d = ctx.tmp("c02")
    tr = toolrun.Trace()
    ctx.note(f"Use B/C: {len(atoms)} registry atoms -> real create -> Wire_Trace")
    for k, a in enumerate(atoms):
        desc = wiregen.atom_desc(a)
        via = "lib" if k % 25 else ("yaml" if k % 50 else "json")
        try:
            data = create(ctx, d, copy.deepcopy(desc), via)
        except Exception as e:
            data = None
            ctx.observe(f"create refused atom {json.dumps(a)[:120]}: {type(e).__name__}")
        if data is None:
            ctx.count("atoms_refused_by_create")   # "nothing is dropped": an atom of the language that create refuses is reported
            tr.begin({"atom": a, "via": via, "refused": True})
            tr.ev("Wire", desc=wiredesc.typed(desc), bytes=[], hashes=[])
            continue
        if wire_event(ctx, tr, desc, data, {"atom": a, "via": via}):
            ctx.nontriv(json.dumps(a, sort_keys=True))
        if k == 5:
            ctx.sample({"atom": a, "description": desc, "bytes": data.hex()})
    toolrun.report(ctx, tr, module="Wire_Trace", label="atoms", keyfn=keyfn)
    ctx.note("Use C: seeded grammar descriptions, repository examples, generator shapes")
    tr = toolrun.Trace()
    n = 160 if ctx.quick else 12000
    refused = 0
    for k in range(n):
        desc = wiregen.rnd_desc(ctx.rng)
        via = "lib" if k % 30 else ("yaml" if k % 60 else "json")
        try:
            data = create(ctx, d, copy.deepcopy(desc), via)
        except Exception as e:
            refused += 1
            ctx.observe(f"create refused a generated description: {type(e).__name__}: {str(e)[:120]}")
            continue
        if data is None:
            refused += 1
            continue
        if wire_event(ctx, tr, desc, data, {"origin": "grammar", "desc": desc, "via": via}):
            ctx.nontriv(json.dumps(desc, sort_keys=True)[:3000])
        if k == 1:
            ctx.sample({"description": desc, "bytes": data.hex()[:600]})
        if len(tr.events) > 700:
            toolrun.report(ctx, tr, module="Wire_Trace", label="grammar", keyfn=keyfn)
            tr = toolrun.Trace()
    ctx.cov["generated_descriptions_refused_by_create"] = refused
    # histories of inline dependency descriptions in ONE process: the parent's bytes are the encoding of the parent description with
    # the child written as the literal bytes the child description encodes to (the child is judged by its own event) - whatever
    # was created before, and also when the caller keeps ONE description object, changes it and creates again
    io_, _ = toolrun.lib()
    WID = [0, 23, 24, 255, 256, 65535, 65536, 2**32 - 1, 2**32]

    def inline_pair(kk, seqc):
        child = wiregen.base()
        child["SUIT_Envelope_Tagged"]["suit-manifest"]["suit-manifest-sequence-number"] = seqc
        child["SUIT_Envelope_Tagged"]["suit-manifest"]["suit-common"]["suit-components"] = [["M", kk % 7, 4096 * (kk % 5)]]
        # ONE name under two namespaces (and as a plain vendor string) in one process: an identifier is a function of the pair
        def ids(ns, name):
            return [{"suit-directive-override-parameters": {
                "suit-parameter-vendor-identifier": {"RFC4122_UUID": ns if kk % 2 else name},
                "suit-parameter-class-identifier": {"RFC4122_UUID": {"namespace": ns, "name": name}}}}]
        child["SUIT_Envelope_Tagged"]["suit-manifest"]["suit-common"]["suit-shared-sequence"] = ids("example.org", "app_core")
        parent = wiregen.base()
        parent["SUIT_Envelope_Tagged"]["suit-manifest"]["suit-common"]["suit-shared-sequence"] = ids("nordicsemi.com", "app_core")
        parent["SUIT_Envelope_Tagged"]["suit-manifest"]["suit-manifest-sequence-number"] = kk
        parent["SUIT_Envelope_Tagged"]["suit-integrated-dependencies"] = {"#dep.suit": child}
        return parent, child

    def judged(parent, child, data, scn):
        cdata = toolrun.create_lib(child)
        wire_event(ctx, tr, child, cdata, dict(scn, level="child"))
        lit = copy.deepcopy(parent)
        lit["SUIT_Envelope_Tagged"]["suit-integrated-dependencies"]["#dep.suit"] = cdata.hex()
        if wire_event(ctx, tr, lit, data, dict(scn, level="parent")):
            ctx.nontriv(("inline", json.dumps(scn, sort_keys=True)))

    for k in range(45 if ctx.quick else 1500):
        parent, child = inline_pair(k, WID[k % len(WID)] + k // len(WID))
        try:
            data = toolrun.create_lib(parent)
        except Exception as e:
            ctx.observe(f"create refused an inline dependency description: {type(e).__name__}")
            continue
        judged(parent, child, data, {"origin": "inline-history", "k": k})
        if k % 3 == 0:
            kept = copy.deepcopy(parent)
            try:
                io_.prepare_suit_data(kept)
                kept_child = kept["SUIT_Envelope_Tagged"]["suit-integrated-dependencies"]["#dep.suit"]
                kept_child["SUIT_Envelope_Tagged"]["suit-manifest"]["suit-manifest-sequence-number"] = WID[(k + 4) % len(WID)] + 1
                data2 = io_.prepare_suit_data(kept)
            except Exception as e:
                ctx.observe(f"a kept description object cannot be created from twice: {type(e).__name__}")
                continue
            judged(copy.deepcopy(kept), copy.deepcopy(kept_child), data2, {"origin": "inline-kept-object", "k": k})
        if len(tr.events) > 700:
            toolrun.report(ctx, tr, module="Wire_Trace", label="inline", keyfn=keyfn)
            tr = toolrun.Trace()
    # repository examples
    ex = core.REPO / "examples" / "input_files"
    wd = d / "examples"
    wd.mkdir()
    (wd / "file.bin").write_bytes(envgen.blob(1000, 7))
    for f in ("envelope_1.yaml", "envelope_1.json"):
        src = ex / f
        if not src.exists():
            continue
        desc = yaml.safe_load(src.read_text()) if f.endswith("yaml") else json.loads(src.read_text())
        import os
        cwd = os.getcwd()
        os.chdir(wd)
        try:
            data = toolrun.create_lib(desc)
        finally:
            os.chdir(cwd)
        if wire_event(ctx, tr, desc, data, {"origin": "example", "file": f}, cwd=str(wd)):
            ctx.nontriv(("example", f))
    # shapes of the other checks (envgen)
    for k in range(60 if ctx.quick else 1500):
        sh = envgen.random_shape(ctx.rng, maxdepth=0, small=True)
        sh.update({"deps": [], "pad": None, "version": [1, 2, 3] if k % 2 else None, "imgs": [["raw", envgen.ALGS[k % 5], k, 1]]})
        b = envgen.Builder(d / f"s{k}")
        desc = b.desc(sh, toolrun.create_lib)
        data = toolrun.create_lib(desc)
        if wire_event(ctx, tr, desc, data, {"origin": "shape", "shape": sh}):
            ctx.nontriv(("shape", json.dumps(sh, sort_keys=True)))
        if len(tr.events) > 700:
            toolrun.report(ctx, tr, module="Wire_Trace", label="shapes", keyfn=keyfn)
            tr = toolrun.Trace()
    # O1 pin: CWT payload
    desc = wiregen.base()
    desc["SUIT_Envelope_Tagged"]["suit-authentication-wrapper"]["SuitAuthentication0"] = {"CoseSign1Tagged": {
        "protected": {"suit-cose-algorithm-id": "cose-alg-es-256", "suit-cose-key-id": 7}, "unprotected": {},
        "payload": {"Issuer": "me", "Expiration Time": 5}, "signature": "5a" * 64}}
    data = toolrun.create_lib(copy.deepcopy(desc))
    wire_event(ctx, tr, desc, data, {"origin": "pin", "pin": "cwt-payload"})
    toolrun.report(ctx, tr, module="Wire_Trace", label="shapes", keyfn=keyfn)
    ctx.observe("F7a: unsevered text map inside the manifest and suit-delegation are excluded (their standard encoding could not be "
                "confirmed offline)")
    ctx.assumptions += ["Wire.tla is the author's transcription of the CDDL of draft-ietf-suit-manifest / -trust-domains / "
                        "-update-management / -firmware-encryption and RFC 9052; it was first validated on the repository's own example "
                        "and on every generator shape", "hashlib for holes; own CBOR reader to locate the hashed spans"]


def replay(ctx, rec):
    scn = rec["replay"]["scenario"]
    d = ctx.tmp("c02r")
    tr = toolrun.Trace()
    if "atom" in scn:
        desc = wiregen.atom_desc(scn["atom"])
    elif "desc" in scn:
        desc = scn["desc"]
    else:
        ctx.note("this scenario kind is replayed by the full quick run")
        return run(ctx)
    data = toolrun.create_lib(copy.deepcopy(desc))
    wire_event(ctx, tr, desc, data, scn)
    ctx.nontriv("replay")
    ctx.nontriv("replay2")
    ctx.sample({"replayed": scn})
    toolrun.report(ctx, tr, module="Wire_Trace", label="replay", keyfn=keyfn)
