"""Run TLC (and Apalache) on the specifications in /verif/spec and parse what they print.

Every run gets its own scratch metadir (removed afterwards), is wrapped in a timeout, and is summarised as a
`TlcResult`.  Exit status 2 of the check (machinery failure) is raised as `MachineryError`.
"""
from __future__ import annotations

import json
import os
import re
import shutil
import subprocess
import tempfile
import time
from dataclasses import dataclass, field
from pathlib import Path

SPEC_DIR = Path(__file__).resolve().parent.parent / "spec"
JAVA_CP = "/opt/veriftools/tla/tla2tools.jar:/opt/veriftools/tla/CommunityModules-deps.jar"


class MachineryError(RuntimeError):
    pass


@dataclass
class TlcResult:
    ok: bool  # TLC finished without reporting an error
    generated: int = 0
    distinct: int = 0
    depth: int = 0
    out: str = ""
    printed: list = field(default_factory=list)  # strings printed with PrintT/Print (unquoted)
    coverage: dict = field(default_factory=dict)  # action name -> (distinct, total)
    errors: list = field(default_factory=list)
    wall_s: float = 0.0
    cmd: str = ""

    def tagged(self, tag: str):
        """JSON payloads of printed lines that start with `tag `."""
        res = []
        for s in self.printed:
            if s.startswith(tag + " "):
                res.append(json.loads(s[len(tag) + 1 :]))
        return res


_RE_STATES = re.compile(r"(\d+) states generated, (\d+) distinct states found")
_RE_DEPTH = re.compile(r"The depth of the complete state graph search is (\d+)")
_RE_COV = re.compile(r"^<(\w+) line \d+, col \d+ to line \d+, col \d+ of module (\w+)(?: \([\d ]+\))?>: (\d+):(\d+)", re.M)


def _unquote(line: str):
    """A TLC-printed TLA+ string literal -> python str (or None if the line is not one)."""
    line = line.strip()
    if len(line) >= 2 and line[0] == '"' and line[-1] == '"':
        try:
            return json.loads(line)
        except Exception:
            # TLA+ escapes are a subset of JSON's; fall back to manual unescape
            return line[1:-1].replace('\\"', '"').replace("\\\\", "\\")
    return None


def run_tlc(
    module: str,
    cfg: str,
    *,
    workers: int | str = "auto",
    env: dict | None = None,
    simulate: str | None = None,
    depth: int | None = None,
    seed: int | None = None,
    coverage: bool = False,
    timeout: int = 900,
    extra: list | None = None,
    deadlock: bool = True,
    java_opts: list | None = None,
    spec_dir: Path | None = None,
) -> TlcResult:
    spec_dir = Path(spec_dir or SPEC_DIR)
    meta = tempfile.mkdtemp(prefix="tlcmeta_")
    # (TLC creates an empty tlc-<n> directory under java.io.tmpdir on every start: keep it inside the scratch metadir)
    cmd = ["java", "-XX:+UseParallelGC", "-Xss16m", f"-Djava.io.tmpdir={meta}"] + (java_opts or []) + ["-cp", JAVA_CP, "tlc2.TLC"]
    cmd += ["-metadir", meta, "-noGenerateSpecTE", "-config", cfg, "-workers", str(workers)]
    if not deadlock:
        cmd += ["-deadlock"]
    if simulate is not None:
        cmd += ["-simulate", simulate]
    if depth is not None:
        cmd += ["-depth", str(depth)]
    if seed is not None:
        cmd += ["-seed", str(seed)]
    if coverage:
        cmd += ["-coverage", "1"]
    cmd += extra or []
    cmd += [module]
    e = dict(os.environ)
    e.update(env or {})
    t0 = time.time()
    try:
        p = subprocess.run(cmd, cwd=spec_dir, env=e, capture_output=True, text=True, timeout=timeout)
    except subprocess.TimeoutExpired as ex:
        shutil.rmtree(meta, ignore_errors=True)
        raise MachineryError(f"TLC timed out after {timeout}s: {' '.join(cmd)}") from ex
    finally:
        shutil.rmtree(meta, ignore_errors=True)
    out = p.stdout + p.stderr
    r = TlcResult(ok=(p.returncode == 0), out=out, wall_s=time.time() - t0, cmd=" ".join(cmd))
    m = None
    for m in _RE_STATES.finditer(out):
        pass
    if m:
        r.generated, r.distinct = int(m.group(1)), int(m.group(2))
    m = _RE_DEPTH.search(out)
    if m:
        r.depth = int(m.group(1))
    for line in out.splitlines():
        s = _unquote(line)
        if s is not None:
            r.printed.append(s)
        if line.startswith("Error:") or "is violated" in line or "Exception" in line:
            r.errors.append(line.strip())
    for m in _RE_COV.finditer(out):
        name = m.group(1)
        d, t = int(m.group(3)), int(m.group(4))
        od, ot = r.coverage.get(name, (0, 0))
        r.coverage[name] = (od + d, ot + t)
    if r.errors:
        r.ok = False
    return r


def require_ok(r: TlcResult, what: str) -> TlcResult:
    if not r.ok:
        tail = "\n".join(r.out.splitlines()[-60:])
        raise MachineryError(f"TLC failed for {what}\ncmd: {r.cmd}\n{tail}")
    return r


def sany(module_file: str) -> bool:
    p = subprocess.run(
        ["java", "-cp", JAVA_CP, "tla2sany.SANY", module_file], cwd=SPEC_DIR, capture_output=True, text=True
    )
    return p.returncode == 0 and "error" not in p.stdout.lower().replace("0 error", "")


def run_apalache(module: str, *, init: str, inv: str, length: int = 0, timeout: int = 300, next_: str | None = None):
    out_dir = tempfile.mkdtemp(prefix="apa_")
    cmd = ["apalache-mc", "check", f"--init={init}", f"--inv={inv}", f"--length={length}", f"--out-dir={out_dir}"]
    if next_:
        cmd.append(f"--next={next_}")
    cmd.append(module)
    t0 = time.time()
    try:
        p = subprocess.run(cmd, cwd=SPEC_DIR, capture_output=True, text=True, timeout=timeout)
        out = p.stdout + p.stderr
        ok = p.returncode == 0 and "The outcome is: NoError" in out
        return ok, out, time.time() - t0
    except subprocess.TimeoutExpired:
        return None, "timeout", time.time() - t0
    finally:
        shutil.rmtree(out_dir, ignore_errors=True)
        for junk in ("_apalache-out",):
            shutil.rmtree(SPEC_DIR / junk, ignore_errors=True)
