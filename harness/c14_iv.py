"""C14 - every encryption uses a fresh IV (histories).

Use A  Encrypt_MC: IvsPairwiseDistinctPerKey holds under the fresh-generator assumption (GEN = "any" is a counterexample)
       and the published IV is the one the ciphertext was produced with (DecryptsToFirmware).
Use C  histories of real encryptions with ONE key: identical plaintext repeated, different plaintexts, one Encryptor
       object reused, fresh objects, the CLI entry function, and many fresh interpreter processes.  Every encryption is
       an Iv event: the IV published in the encryption info (interned in order of first appearance, so fresh <=> id =
       next), and whether independent AES-GCM decryption with that IV recovers the plaintext.  Judged by Encrypt_Trace.
Stated limit: this detects structural reuse (constant, plaintext-derived, per-process counter ...), not a weak RNG.
"""
from __future__ import annotations

import json
import subprocess
import sys
from concurrent.futures import ThreadPoolExecutor

from . import core, envgen, toolrun
from .c06_encrypt import decrypt, project_info, scripts, setup_keys

CHILD = r"""
import sys, os, json
sys.path.insert(0, sys.argv[1])
import importlib.util
spec = importlib.util.spec_from_file_location("enc_script", sys.argv[2])
m = importlib.util.module_from_spec(spec); spec.loader.exec_module(m)
from suit_generator.suit_encrypt_script_base import SuitDigestAlgorithms, SuitKWAlgorithms
n = int(sys.argv[5]); same = sys.argv[6] == "same"
for i in range(n):
    pt = b"constant firmware" if same else (b"fw %d %d" % (os.getpid(), i))
    e = m.suit_encryptor_factory()
    payload, tag, info, digest, ln = e.encrypt_and_generate(pt, "fwenc", 7, sys.argv[4], SuitDigestAlgorithms("sha-256"), SuitKWAlgorithms("direct"), sys.argv[3])
    print(json.dumps({"pt": pt.hex(), "info": info.hex(), "content": (tag + payload).hex()}))
"""


_FORK_MOD = {}


def _forked_encrypt(es, kms, keys_dir, w, n):
    """Runs in a forked child: the encrypt script module was imported by the PARENT (kept in _FORK_MOD)."""
    from suit_generator.suit_encrypt_script_base import SuitDigestAlgorithms, SuitKWAlgorithms
    mod = _FORK_MOD["mod"]
    out = []
    for i in range(n):
        pt = b"worker %d firmware %d" % (w, i)
        e = mod.suit_encryptor_factory()
        payload, tag, info, digest, ln = e.encrypt_and_generate(pt, "fwenc", 7, keys_dir, SuitDigestAlgorithms("sha-256"), SuitKWAlgorithms("direct"), kms)
        out.append((pt, info, tag + payload))
    return out


class History:
    def __init__(self, tr, key, label):
        self.tr, self.key = tr, key
        self.ivs = {}
        tr.begin({"history": label})

    def add(self, pt: bytes, info_b: bytes, content: bytes):
        t = self.tr.terms
        info = project_info(info_b, t)
        fresh_id = self.ivs.setdefault(info["ivb"], len(self.ivs))  # interned in order of first appearance
        self.tr.ev("Iv", iv=fresh_id, dec=decrypt(self.key, info, content, t), pt=t.id(pt))


def run(ctx: core.Check):
    ctx.cov["rule"] = ("history = sequence of encrypt-and-generate calls with one key: same plaintext repeated / different "
                       "plaintexts x one reused Encryptor / fresh objects / cmd_encrypt entry and real CLI processes writing into the same output "
                       "directory (runs of identical firmware) / fresh interpreter processes. "
                       "Distinct & non-trivial = number of encryptions whose IV was compared with all earlier ones of the "
                       "history (every one after the first).")
    ctx.note("Use A: Encrypt_MC (fresh-generator assumption; published IV = used IV)")
    ctx.mc("Encrypt_MC", "Encrypt_MC.cfg", required_actions=("Encrypt", "NewObject"))
    d = ctx.tmp("c14")
    keys = setup_keys(d)
    key = keys["fwenc"]
    es, kms = scripts()
    core.setup_repo_path()
    import importlib.util

    spec = importlib.util.spec_from_file_location("verif_enc_script", es)
    mod = importlib.util.module_from_spec(spec)
    spec.loader.exec_module(mod)
    from suit_generator.suit_encrypt_script_base import SuitDigestAlgorithms, SuitKWAlgorithms
    _FORK_MOD["mod"] = mod
    # one encryption BEFORE any fork, so that the KMS module (and whatever it initialises on first use) is loaded in the parent
    mod.suit_encryptor_factory().encrypt_and_generate(b"warm-up", "fwenc", 7, str(d / "keys"), SuitDigestAlgorithms("sha-256"), SuitKWAlgorithms("direct"), kms)

    n = 500 if ctx.quick else 25000
    tr = toolrun.Trace()
    total = 0
    for label, same, reuse in (("same-plaintext/one-object", True, True), ("different-plaintext/one-object", False, True),
                               ("same-plaintext/fresh-objects", True, False), ("different-plaintext/fresh-objects", False, False),
                               ("empty-and-one-byte-plaintexts/one-object", None, True), ("megabyte-plaintexts/one-object", "big", True)):
        h = History(tr, key, label)
        enc = mod.suit_encryptor_factory()
        for i in range(n if same in (True, False) else (n // 5 if same is None else (6 if ctx.quick else 40))):
            # the last histories: zero-length and one-byte firmware; firmware at and above 1 MiB (the published IV must still be
            # the 12 bytes that were used, whatever path a large image takes)
            pt = ((b"", b"\x00", b"", b"x")[i % 4] if same is None else bytes(1048576 + (1, 0, 1048699)[i % 3]) if same == "big"
                  else b"constant firmware image" if same else b"firmware %d" % i)
            e = enc if reuse else mod.suit_encryptor_factory()
            payload, tag, info, digest, ln = e.encrypt_and_generate(pt, "fwenc", 7, str(d / "keys"), SuitDigestAlgorithms("sha-256"),
                                                                    SuitKWAlgorithms("direct"), kms)
            h.add(pt, info, tag + payload)
            total += 1
            if i:
                ctx.nontriv((label, i))
        if len(tr.events) > 60000:
            toolrun.report(ctx, tr, module="Encrypt_Trace", label="iv-history", keyfn=lambda b, s: f"{b['clause']}:{s['history']}")
            tr = toolrun.Trace()
    # the CLI entry function (imports the encrypt script anew on every call, writes the four files)
    from suit_generator import cmd_encrypt
    h = History(tr, key, "cmd_encrypt.main/files")
    fw = d / "fw.bin"
    for i in range(120 if ctx.quick else 3000):
        # runs of identical firmware into the SAME output directory (what an incremental build does) alternate with changes
        pt = b"constant firmware image" if (i // 3) % 2 else b"firmware %d" % (i // 3)
        fw.write_bytes(pt)
        od = d / "encout"
        od.mkdir(exist_ok=True)
        cmd_encrypt.main(encrypt_subcommand="encrypt-and-generate", firmware=fw, key_name="fwenc", key_id=9, context=str(d / "keys"),
                         hash_alg="sha-256", kw_alg="direct", kms_script=kms, encrypt_script=es, output_dir=od)
        h.add(pt, (od / "suit_encryption_info.bin").read_bytes(), (od / "encrypted_content.bin").read_bytes())
        total += 1
        if i:
            ctx.nontriv(("cmd", i))
    ctx.sample({"history": "same-plaintext/one-object", "events": tr.events[:4]})
    # the real CLI, one process per encryption, identical firmware, the SAME output directory still holding the previous artifacts
    h = History(tr, key, "cli-processes/same-output-directory")
    od = d / "cliout"
    od.mkdir()
    fw.write_bytes(b"identical firmware for every invocation")
    for i in range(8 if ctx.quick else 150):
        subprocess.run(core.cli_cmd("encrypt", "encrypt-and-generate", "--firmware", fw, "--key-name", "fwenc", "--key-id", "9", "--context", d / "keys",
                                    "--hash-alg", "sha-256", "--kms-script", kms, "--encrypt-script", es, "--output-dir", od),
                       cwd=d, env=core.cli_env(), capture_output=True, text=True)
        h.add(fw.read_bytes(), (od / "suit_encryption_info.bin").read_bytes() if (od / "suit_encryption_info.bin").exists() else b"",
              (od / "encrypted_content.bin").read_bytes() if (od / "encrypted_content.bin").exists() else b"")
        total += 1
        if i:
            ctx.nontriv(("cli", i))
    # workers FORKED from this process after the library was loaded (multiprocessing's default on Linux): every child inherits
    # whatever state the KMS keeps; each child encrypts a few times with the same key
    import multiprocessing
    h = History(tr, key, "forked-workers")
    mp = multiprocessing.get_context("fork")
    with mp.Pool(4) as pool:
        res = pool.starmap(_forked_encrypt, [(es, kms, str(d / "keys"), w, 3) for w in range(8 if ctx.quick else 64)])
    for rows in res:
        for pt, info, content in rows:
            h.add(pt, info, content)
            total += 1
            ctx.nontriv(("fork", total))
    # cross-process histories
    procs = 24 if ctx.quick else 2000
    per = 5
    ctx.note(f"Use C: {procs} fresh interpreter processes x {per} encryptions")

    def child(k):
        p = subprocess.run([core.PY, "-c", CHILD, str(core.REPO), es, kms, str(d / "keys"), str(per), "same" if k % 2 else "diff"],
                           capture_output=True, text=True, env=core.cli_env())
        return [json.loads(line) for line in p.stdout.splitlines() if line.startswith("{")]

    with ThreadPoolExecutor(max_workers=16) as ex:
        results = list(ex.map(child, range(procs)))
    h = History(tr, key, "fresh-processes")
    got = 0
    for res in results:
        for r in res:
            h.add(bytes.fromhex(r["pt"]), bytes.fromhex(r["info"]), bytes.fromhex(r["content"]))
            got += 1
            ctx.nontriv(("proc", got))
    if got != procs * per:
        raise core.MachineryError(f"cross-process history incomplete: {got} of {procs * per} encryptions reported")
    total += got
    ctx.cov["evaluations"] = total
    toolrun.report(ctx, tr, module="Encrypt_Trace", label="iv-history", keyfn=lambda b, s: f"{b['clause']}:{s['history']}")
    ctx.assumptions += ["detects structural IV reuse, not a weak random source", "independent AES-GCM decryption (cryptography)"]


def replay(ctx, rec):
    ctx.note("a history cannot be replayed bit for bit (fresh randomness); the quick histories are run again")
    run(ctx)
