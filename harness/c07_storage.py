"""C07 - boot storage images place each installed envelope intact in its role's slot.

Use A  Storage_MC: add/reject/write pipeline over all role subsets (bounded) x 2 SoCs x one fault of each kind at any
       position; layout tables pinned in Storage.tla with SlotsDisjoint ASSUMEd and checked.
Use B  role lists with faults enumerated by TLC (Storage_Gen) are concretised: real envelopes (create, some signed),
       default and Kconfig role assignments, both SoCs, several base addresses; real image boot / build.py storage.
Use C  every domain hex file is tokenised and judged record by record by Storage_Trace: the expected slots are built
       by Storage.tla from the INPUT envelope's members (kept = non-severable integer-keyed members, original bytes),
       the class-ID offset recorded by the tool must point at the manifest's class UUID, 0xFF fill, nothing else.
"""
from __future__ import annotations

import json
import subprocess

from . import cborx, core, envgen, ihex, project, signrun, tlc, toolrun, uuid5
from .c16_update import hex_events, word

DEFAULT_CLASS = {
    "nrf54h20": {"APP_ROOT": "nRF54H20_sample_root", "APP_LOCAL_1": "nRF54H20_sample_app",
                 "APP_RECOVERY": "nRF54H20_sample_app_recovery", "RAD_LOCAL_1": "nRF54H20_sample_rad",
                 "RAD_RECOVERY": "nRF54H20_sample_rad_recovery", "SEC_TOP": "nRF54H20_nordic_top",
                 "SEC_SDFW": "nRF54H20_sec", "SEC_SYSCTRL": "nRF54H20_sys"},
    "nrf9280": {"APP_ROOT": "nRF9280_sample_root", "APP_LOCAL_1": "nRF9280_sample_app",
                "APP_RECOVERY": "nRF9280_sample_app_recovery", "RAD_LOCAL_1": "nRF9280_sample_rad",
                "RAD_RECOVERY": "nRF9280_sample_rad_recovery", "SEC_TOP": "nRF9280_nordic_top",
                "SEC_SDFW": "nRF9280_sec", "SEC_SYSCTRL": "nRF9280_sys"},
}
LAYOUT = {  # only used to LOCATE the slot map when reading the class-ID offset back (the spec has its own table)
    "nrf54h20": {"SEC_TOP": 768, "SEC_SDFW": 2048, "SEC_SYSCTRL": 3072, "RAD_RECOVERY": 5120, "RAD_LOCAL_1": 6144,
                 "RAD_LOCAL_2": 7168, "APP_ROOT": 9216, "APP_RECOVERY": 11264, "APP_LOCAL_1": 13312,
                 "APP_LOCAL_2": 14336, "APP_LOCAL_3": 15360},
    "nrf9280": {"SEC_TOP": 4096, "SEC_SDFW": 2048, "SEC_SYSCTRL": 3072, "RAD_RECOVERY": 9216, "RAD_LOCAL_1": 10240,
                "RAD_LOCAL_2": 11264, "APP_ROOT": 13312, "APP_RECOVERY": 15360, "APP_LOCAL_1": 17408,
                "APP_LOCAL_2": 18432, "APP_LOCAL_3": 19456},
}
SIZE = {"nrf54h20": {"SEC_TOP": 1280, "APP_ROOT": 2048, "APP_RECOVERY": 2048},
        "nrf9280": {"SEC_TOP": 1536, "APP_ROOT": 2048, "APP_RECOVERY": 2048}}
DOMAIN_OF = lambda r: {"SEC": "secure", "RAD": "radio", "APP": "application"}[r[:3]]  # noqa: E731
KCONF_ROLE = lambda r: "ROOT" if r == "APP_ROOT" else r  # noqa: E731


KCONF_CALLS = [0]


def kconfig_text(assign: dict) -> str:
    """role -> (vendor, class) as sysbuild Kconfig lines.  The file FORM varies from call to call: comment and blank lines, CRLF
    line ends (a configuration written on Windows), no newline after the last line."""
    KCONF_CALLS[0] += 1
    form = (KCONF_CALLS[0] * 5 + KCONF_CALLS[0] // 4 + KCONF_CALLS[0] // 16) % 4   # not periodic in step with the callers' loops
    lines = ["CONFIG_SOMETHING=y", "SB_CONFIG_OTHER=0x10"]
    if form == 1:
        lines += ["", "# SB_CONFIG_SUIT_MPI_APP_LOCAL_3 is not set", "#"]
    for role, (v, c) in assign.items():
        if form == 1:   # an old value kept as a comment BEFORE the live assignment
            lines.append(f'# SB_CONFIG_SUIT_MPI_{KCONF_ROLE(role)}_CLASS_NAME="commented out before"')
        lines.append(f'SB_CONFIG_SUIT_MPI_{KCONF_ROLE(role)}_VENDOR_NAME="{v}"')
        lines.append(f'SB_CONFIG_SUIT_MPI_{KCONF_ROLE(role)}_CLASS_NAME="{c}"')
        if form in (1, 3):   # ... and AFTER it (a reader that takes assignments from anywhere in a line lets the last one win)
            lines.append(f'# SB_CONFIG_SUIT_MPI_{KCONF_ROLE(role)}_VENDOR_NAME="commented out after"')
            lines.append(f'#SB_CONFIG_SUIT_MPI_{KCONF_ROLE(role)}_CLASS_NAME="commented out after"')
    if form == 1:   # a role that is ONLY mentioned in a comment is not configured at all
        lines.append('# SB_CONFIG_SUIT_MPI_APP_LOCAL_3_VENDOR_NAME="nordicsemi.com"')
        lines.append('# SB_CONFIG_SUIT_MPI_APP_LOCAL_3_CLASS_NAME="only in a comment"')
    nl = "\r\n" if form == 2 else "\n"
    return nl.join(lines) + ("" if form == 3 else nl)


def make_envelope(ctx, d, rng, k, vendor, cls, cid=True, total=None, signed=None, keys=None, soc="nrf54h20", role=None):
    """Envelope of class (vendor, cls).  total: make the slot exactly this many bytes long (by padding the manifest)."""
    sh = envgen.random_shape(rng, maxdepth=0, small=True)
    sh.update({"pad": None, "deps": [], "seq": k,
               "cid": [rng.choice(["first", "mid", "last"]), vendor, cls] if cid else None,
               "pay": [["#p", rng.choice([0, 5, 40]), "hex", k]] if k % 2 else []})
    b = envgen.Builder(d / f"e{k}")
    desc = b.desc(sh, toolrun.create_lib)
    data = toolrun.create_lib(desc)
    if total is not None:
        desc["SUIT_Envelope_Tagged"]["suit-manifest"].setdefault("suit-reference-uri", "u")
        # re-order so the uri does not move the component id relative to the generator's choice
        for _ in range(8):
            data = toolrun.create_lib(desc)
            ln = slot_len(data)
            if ln == total:
                break
            cur = len(desc["SUIT_Envelope_Tagged"]["suit-manifest"]["suit-reference-uri"])
            desc["SUIT_Envelope_Tagged"]["suit-manifest"]["suit-reference-uri"] = "u" * max(0, cur + total - ln)
    p = d / f"env{k}.suit"
    p.write_bytes(data)
    if signed and keys:
        q = d / f"env{k}_s.suit"
        err = signrun.sign_single(p, q, keys, signed[0], 0x4000AA00 + k, signed[1], "error")
        if err is None and q.exists():
            p = q
    return core.through_link(p, k % 5 == 4)   # every fifth input envelope is named through a symbolic link


def stored(data: bytes) -> bytes:
    """Length bookkeeping only (for sizing): the kept members of the envelope."""
    e = project.Env(data)
    kept = [(k, v) for k, v in e.members if k.mt == 0 and k.val not in (15, 16, 18, 20, 23)]
    return b"\xd8\x6b" + cborx.head(5, len(kept)) + b"".join(k.raw + v.raw for k, v in kept)


def slot_len(data: bytes) -> int:
    s = stored(data)
    return 4 + len(cborx.head(0, max(0, computed_off(data)))) + 1 + len(cborx.head(2, len(s))) + len(s)


def members_of(data: bytes):
    e = project.Env(data)
    out = []
    for k, v in e.members:
        out.append([k.val if k.mt == 0 else -1, list(k.raw), list(v.raw)])
    cid = []
    c = e.manifest_get(5)
    if c is not None and c.mt == 4 and c.val and c.val[-1].mt == 2:
        cid = list(c.val[-1].val)
    return out, cid


def computed_off(data: bytes) -> int:
    """Where the class id of the manifest component id sits in the stored envelope (own reader's spans); only used for
    the size decision when the tool wrote no file (the head of this integer is 1..3 bytes of the slot)."""
    e = project.Env(data)
    c = e.manifest_get(5)
    if c is None or c.mt != 4 or not c.val or c.val[-1].mt != 2:
        return -1
    u = c.val[-1]
    s = stored(data)
    return len(s) - len(e.mf_content) + u.start + u.head


DIRS = [0]


def run_scenario(ctx, events, tids, counter, scn, files, roles):
    """files: list of envelope paths in the order given to the tool; roles: intended role (or NONE) per file."""
    d = ctx.tmp("c07")
    DIRS[0] += 1
    outdir = d / core.odd_name(DIRS[0])   # the output directory's name is the caller's choice
    outdir.mkdir()
    cfg = None
    if scn.get("kconfig"):
        cfg = d / "sysbuild.config"
        cfg.write_bytes(kconfig_text({r: tuple(v) for r, v in scn["kconfig"].items()}).encode("utf-8"))
    soc, base, via = scn["soc"], scn["base"], scn["via"]
    err = None
    doms = ("secure", "application", "radio")
    if scn.get("stale"):
        # history: the output directory still holds the three files of an earlier invocation; a file this invocation does not
        # write is not ITS output (it keeps the marker), a file it writes replaces the old one
        for dom in doms:
            (outdir / f"suit_installed_envelopes_{dom}_merged.hex").write_bytes(STALE)
        if base % 3 != 1 and scn.get("fault", "none") == "none":
            # ... VALID files (only where the judged invocation itself is expected to write: a refusal leaves an earlier valid
            # file alone, which is not ITS output): the same envelopes stored for another base address (the storage area was moved)
            core.setup_repo_path()
            from suit_generator.cmd_image import ImageCreator as _IC
            try:
                _IC.create_files_for_boot([str(f) for f in files], str(outdir), (base + 0x2000) & 0xFFFFFFFF, str(cfg) if cfg else None, soc)
            except BaseException as e:
                if isinstance(e, (KeyboardInterrupt, MemoryError)):
                    raise
    if via == "lib":
        core.setup_repo_path()
        from suit_generator.cmd_image import ImageCreator

        try:
            ImageCreator.create_files_for_boot([str(f) for f in files], str(outdir), base, str(cfg) if cfg else None, soc)
        except BaseException as e:
            if isinstance(e, (KeyboardInterrupt, MemoryError)):
                raise
            err = repr(e)
    elif via == "cli":
        a = ["image", "boot", "--storage-output-directory", core.spell(outdir, d, DIRS[0]), "--storage-address", core.num(base)]
        for j_, f in enumerate(files):
            a += ["--input-file", core.spell(f, d, DIRS[0] + j_) if str(f).startswith(str(d)) else f]
        if cfg:
            a += ["--config-file", cfg]
        p = subprocess.run(core.cli_cmd(*a), cwd=d, env=core.cli_env(), capture_output=True, text=True)
        err = p.stderr[-200:] if p.returncode else None
    else:  # ncs/build.py storage --soc
        # the build-system entry point; it insists on an image list and a Zephyr directory although `storage` uses neither:
        # an image without binary and devicetree is enough
        dummy = d / "dummy.config"
        dummy.write_text("CONFIG_VERIF=y\n")
        a = [core.PY, str(core.REPO / "ncs" / "build.py"), "storage", "--core", f"verif,,,{dummy}", "--zephyr-base", str(d),
             "--storage-output-directory", core.spell(outdir, d, DIRS[0] + 1), "--storage-address", core.num(base), "--soc", soc]
        for f in files:
            a += ["--input-envelope", str(f)]
        if cfg:
            a += ["--config-file", str(cfg)]
        p = subprocess.run(a, cwd=d, env=core.cli_env(), capture_output=True, text=True)
        err = p.stderr[-300:] if p.returncode else None
    inputs = [f.read_bytes() for f in files]
    for dom in doms:
        path = outdir / f"suit_installed_envelopes_{dom}_merged.hex"
        if path.exists() and path.read_bytes() == STALE:
            path.unlink()
        mem = {}
        if path.exists():
            try:
                mem = ihex.memory(path.read_text())
            except ihex.HexError:
                mem = {}
        slots = []
        for data, role in zip(inputs, roles):
            members, cid = members_of(data)
            off = computed_off(data)
            if role in LAYOUT[soc] and mem:
                a0 = (base + LAYOUT[soc][role]) & 0xFFFFFFFF
                raw = bytes(mem.get(a0 + i, 0xFF) for i in range(12))
                try:
                    it = cborx.read_item(raw + bytes(4), 0)
                except cborx.CborError:
                    it = None
                # {0: 1, 1: off, ...}: read the second value
                if raw[:4] == b"\xa3\x00\x01\x01":
                    try:
                        o = cborx.read_item(raw, 4)
                        off = o.val if o.mt == 0 else -1
                    except cborx.CborError:
                        off = -1
                elif DOMAIN_OF(role) == dom:
                    off = -1
            slots.append([role, members, cid, off])
        counter[0] += 1
        tid = counter[0]
        tids[tid] = (scn, dom, err)
        events.append({"tid": tid, "i": 0, "ev": "Begin", "soc": soc, "base": word(base), "domain": dom, "slots": slots})
        events.extend(hex_events(path, tid))


STALE = core.STALE


def judge(ctx, events, tids, label):
    for n, e in enumerate(events):
        if e["ev"] == "Begin":
            e["b"] = n + 1
    bad = ctx.validate("Storage_Trace", "Storage_Trace.cfg", events, label=label, java_opts=["-Xmx8g"])
    seen = {}
    for b in sorted(bad, key=lambda x: x["tid"]):
        scn, dom, err = tids[b["tid"]]
        seen[b["clause"]] = seen.get(b["clause"], 0) + 1
        if seen[b["clause"]] > 3:
            continue
        ctx.violation(key=f"{b['clause']}:{dom}:{json.dumps(scn, sort_keys=True)[:300]}",
                      what=f"image boot {dom} file: clause {b['clause']} (event {b['i']}) for {json.dumps(scn)[:400]}"
                           + (f" [tool: {err[:100]}]" if err else ""),
                      replay={"scenario": scn, "domain": dom, "clause": b["clause"]})


def concretise(ctx, d, rng, keys, scn, k):
    """scn: {soc, base, via, list: [[role, cid, big]...], kconfig, edge}"""
    soc = scn["soc"]
    files, roles = [], []
    for j, (role, cid, big) in enumerate(scn["list"]):
        if role == "NONE":
            vendor, cls = "nordicsemi.com", f"unassigned_class_{k}_{j}"
        elif role in scn.get("kconfig", {}):
            vendor, cls = scn["kconfig"][role]
        else:
            vendor, cls = "nordicsemi.com", DEFAULT_CLASS[soc][role]
        total = None
        if role != "NONE":
            size = SIZE[soc].get(role, 1024)
            if big:
                total = size + rng.choice([1, 2, 300])
            elif scn.get("edge") and j == 0:
                total = size - rng.choice([0, 0, 1])
        signed = rng.choice([None, ("ked", "eddsa"), ("kp256", "es-256")]) if not big and total is None else None
        files.append(make_envelope(ctx, d, rng, 100 * k + j, vendor, cls, cid=cid, total=total, signed=signed, keys=keys,
                                   soc=soc, role=role))
        roles.append(role)
    return files, roles


def scenarios(ctx, hists):
    rng = ctx.rng
    bases = [0, 0x0E1ED000, 0x0FFF0000, 0xFFFF0000, 0x0E1ED004]
    out = []
    for k, h in enumerate(hists):
        lst = [list(x) for x in h["list"]]
        need_k = {r for r, _, _ in lst if r in ("APP_LOCAL_2", "APP_LOCAL_3", "RAD_LOCAL_2")}
        kconf = {r: ["nordicsemi.com", f"custom_{r.lower()}"] for r in need_k}
        if k % 4 == 0:
            for r, _, _ in lst:
                if r in ("APP_ROOT", "APP_LOCAL_1", "RAD_LOCAL_1") and rng.random() < 0.5:
                    kconf[r] = ["ACME Corp", f"acme {r.lower()}"]
        elif k % 4 == 1 and h["fault"] == "none":
            # the build configuration re-assigns classes that also have a DEFAULT role: two roles of the list exchange
            # their default classes, or a role takes over the default class of a role that is not in the list
            have = [r for r, _, _ in lst if r in DEFAULT_CLASS[h["soc"]] and r not in kconf]
            if len(have) >= 2:
                a, b = have[0], have[1]
                kconf[a] = ["nordicsemi.com", DEFAULT_CLASS[h["soc"]][b]]
                kconf[b] = ["nordicsemi.com", DEFAULT_CLASS[h["soc"]][a]]
            elif len(have) == 1:
                others = [r for r in DEFAULT_CLASS[h["soc"]] if r not in [x[0] for x in lst]]
                kconf[have[0]] = ["nordicsemi.com", DEFAULT_CLASS[h["soc"]][others[k % len(others)]]]
        via = "lib"
        if k % 7 == 0 and h["soc"] == "nrf54h20":
            via = "cli"
        elif k % 7 == 3:
            via = "build"   # ncs/build.py storage --soc: the only command-line path to the nRF9280 layout
        out.append({"origin": "tlc", "soc": h["soc"], "base": bases[k % len(bases)], "via": via, "list": lst,
                    "kconfig": kconf, "edge": k % 5 == 0, "fault": h["fault"], "expect_written": h["written"]})
    # all 11 roles at once on both SoCs; every single role at the slot-size edge
    allr = list(LAYOUT["nrf54h20"])
    for soc in ("nrf54h20", "nrf9280"):
        out.append({"origin": "all", "soc": soc, "base": 0x0E1ED000, "via": "lib", "list": [[r, True, False] for r in allr],
                    "kconfig": {r: ["nordicsemi.com", f"custom_{r.lower()}"] for r in ("APP_LOCAL_2", "APP_LOCAL_3", "RAD_LOCAL_2")},
                    "edge": True, "fault": "none", "expect_written": True})
    return out


def run(ctx: core.Check):
    ctx.cov["rule"] = ("scenario = SoC x base address x list of envelopes (role, component id present, too large) x default/"
                       "Kconfig assignment x library|CLI|build.py; role lists with one fault of each kind at every position "
                       "enumerated by TLC for sets of <= 2 roles, all 11 roles at once, slot sizes at/around the limit, signed "
                       "inputs. Distinct & non-trivial = distinct (soc, base, role list, fault, assignment) with >= 1 envelope.")
    ctx.note("Use A: Storage_MC + Hex_MC")
    ctx.mc("Storage_MC", "Storage_MC.cfg" if ctx.quick else "Storage_MC_thorough.cfg",
           required_actions=("AddEnvelope", "WriteDomain", "Finish"), timeout=3000)
    ctx.mc("Hex_MC", "Hex_MC.cfg", required_actions=("Read", "Finish"))
    g = tlc.run_tlc("Storage_MC", "Storage_Gen.cfg", workers=1)
    tlc.require_ok(g, "Storage_Gen")
    hists = g.tagged("SCN")
    ctx.cov["tlc_runs"].append({"module": "Storage_MC", "cfg": "Storage_Gen.cfg", "use": "B:scenario-generation",
                                "scenarios": len(hists)})
    ctx.rng.shuffle(hists)
    if ctx.quick:
        # every fault kind and the fault-free lists stay represented
        by = {}
        for h in hists:
            by.setdefault(h["fault"], []).append(h)
        hists = sum((v[:14] for v in by.values()), [])
    scns = scenarios(ctx, hists)
    d = ctx.tmp("c07w")
    keys = signrun.Keys(d / "keys")
    events, tids, counter = [], {}, [0]
    ctx.note(f"Use B/C: {len(scns)} storage scenarios -> real image boot")
    drift = 0
    for k, s in enumerate(scns):
        s["stale"] = k % 4 == 1
        files, roles = concretise(ctx, d, ctx.rng, keys, s, k)
        n0 = len(events)
        run_scenario(ctx, events, tids, counter, s, files, roles)
        wrote = any(e["ev"] == "Rec" for e in events[n0:])
        drift += (wrote != s["expect_written"]) and bool(s["list"])
        ctx.count("evaluations")
        if s["list"]:
            ctx.nontriv(json.dumps([s["soc"], s["base"], s["list"], s["fault"], sorted(s["kconfig"]), s["via"]]))
        if k == 2:
            ev = [dict(e, slots=[[x[0], "...", x[2], x[3]] for x in e["slots"]]) if e["ev"] == "Begin" else e for e in events[n0:n0 + 6]]
            ctx.sample({"scenario": s, "events": ev})
        if len(events) > 25000:
            judge(ctx, events, tids, "storage")
            events = []
    ctx.cov["drift_model_vs_code"] = drift
    judge(ctx, events, tids, "storage")
    ctx.observe("O9: add_envelope hard-codes the length of the component-id prefix [bstr .cbor 'INSTLD_MFST', bstr]; a manifest "
                "whose component id has another first element (e.g. 'I') is rejected as unknown class. All generated "
                "component ids therefore use the NCS form ['INSTLD_MFST', class UUID].")
    ctx.assumptions += ["layout tables pinned in Storage.tla are the device ABI", "own hex tokenizer / CBOR reader",
                        "suit-install-legacy (17) and suit-delegation are not generated"]


def replay(ctx, rec):
    scn = rec["replay"]["scenario"]
    d = ctx.tmp("c07r")
    keys = signrun.Keys(d / "keys")
    events, tids, counter = [], {}, [0]
    files, roles = concretise(ctx, d, ctx.rng, keys, scn, 0)
    run_scenario(ctx, events, tids, counter, scn, files, roles)
    ctx.count("evaluations")
    ctx.nontriv("replay")
    ctx.nontriv("replay2")
    ctx.sample({"replayed": scn})
    judge(ctx, events, tids, "replay")
