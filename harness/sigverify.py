"""Signature verification with PUBLIC keys only (cryptography for ECDSA/Ed25519, pycryptodome for Ed25519ph)."""
from __future__ import annotations

from cryptography.exceptions import InvalidSignature
from cryptography.hazmat.primitives import hashes, serialization
from cryptography.hazmat.primitives.asymmetric import ec, ed25519, ed448
from cryptography.hazmat.primitives.asymmetric.utils import encode_dss_signature

# COSE signature algorithm ids
ES256, ES384, ES521, EDDSA, HASH_EDDSA = -7, -35, -36, -8, -65537
ALG_NAMES = {ES256: "es-256", ES384: "es-384", ES521: "es-521", EDDSA: "eddsa", HASH_EDDSA: "hash-eddsa"}
ALG_IDS = {v: k for k, v in ALG_NAMES.items()}
CURVE_FOR = {ES256: ("secp256r1", hashes.SHA256, 32), ES384: ("secp384r1", hashes.SHA384, 48),
             ES521: ("secp521r1", hashes.SHA512, 66)}
KEY_TYPES = ["p256", "p384", "p521", "ed25519", "ed448"]


def gen_private(kind: str):
    if kind == "p256":
        return ec.generate_private_key(ec.SECP256R1())
    if kind == "p384":
        return ec.generate_private_key(ec.SECP384R1())
    if kind == "p521":
        return ec.generate_private_key(ec.SECP521R1())
    if kind == "ed25519":
        return ed25519.Ed25519PrivateKey.generate()
    if kind == "ed448":
        return ed448.Ed448PrivateKey.generate()
    raise ValueError(kind)


def pem(priv) -> bytes:
    return priv.private_bytes(serialization.Encoding.PEM, serialization.PrivateFormat.PKCS8,
                              serialization.NoEncryption())


def der(priv) -> bytes:
    return priv.private_bytes(serialization.Encoding.DER, serialization.PrivateFormat.PKCS8,
                              serialization.NoEncryption())


def matches(kind: str, alg_name: str) -> bool:
    """Does the key type match the requested algorithm (C09)?  Ed448 counts as an EdDSA key type."""
    return {"p256": ["es-256"], "p384": ["es-384"], "p521": ["es-521"], "ed25519": ["eddsa", "hash-eddsa"],
            "ed448": ["eddsa", "hash-eddsa"]}[kind].count(alg_name) > 0


def verify(pub, kind: str, alg: int, tbs: bytes, sig: bytes) -> bool:
    try:
        if alg in CURVE_FOR:
            curve, h, w = CURVE_FOR[alg]
            if kind != {"secp256r1": "p256", "secp384r1": "p384", "secp521r1": "p521"}[curve]:
                return False
            if len(sig) != 2 * w:
                return False  # C04: fixed width r||s
            r, s = int.from_bytes(sig[:w], "big"), int.from_bytes(sig[w:], "big")
            pub.verify(encode_dss_signature(r, s), tbs, ec.ECDSA(h()))
            return True
        if alg == EDDSA:
            if kind not in ("ed25519", "ed448"):
                return False
            pub.verify(sig, tbs)
            return True
        if alg == HASH_EDDSA:
            if kind != "ed25519":
                return False
            from Crypto.Hash import SHA512
            from Crypto.PublicKey import ECC
            from Crypto.Signature import eddsa

            raw = pub.public_bytes(serialization.Encoding.Raw, serialization.PublicFormat.Raw)
            key = eddsa.import_public_key(raw)
            eddsa.new(key, "rfc8032").verify(SHA512.new(tbs), sig)
            return True
    except (InvalidSignature, ValueError):
        return False
    return False


def verify_any(keys: dict, alg: int, tbs: bytes, sig: bytes) -> str | None:
    """Name of the registry key whose public half verifies, or None.  keys: name -> (kind, public key)."""
    for name, (kind, pub) in keys.items():
        if verify(pub, kind, alg, tbs, sig):
            return name
    return None
