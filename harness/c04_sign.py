"""C04 - signing attaches a verifiable COSE_Sign1 and changes nothing else.

Use A  Sign_MC: implementation-shaped sign_envelope against SignJudge over all operation sequences (bounded).
Use B  operation sequences emitted by TLC are replayed with real keys into the real `sign single-level`.
Use C  every run is projected (block list, every other member's interned id, signature VERIFIED with the public key
       over the independently rebuilt Sig_structure, protected header decoded) and judged by Tool_Trace/SignJudge.
       ECDSA fixed width: the KMS signing primitive is called in a loop (r or s with a leading zero byte occurs
       with probability ~2^-7 per signature) and every signature is a RawSig event.
"""
from __future__ import annotations

import json

from . import core, envgen, project, sigverify as sv, signrun, tlc, toolrun

KIDS = [0, 1, 23, 24, 255, 256, 65535, 65536, 0x4000AA00, 2**31 - 1, 2**31, 2**32 - 1]
ALGKEY = {"es-256": "kp256", "es-384": "kp384", "es-521": "kp521", "eddsa": "ked", "hash-eddsa": "ked"}


def make_input(ctx, rng, d, k):
    sh = envgen.random_shape(rng, maxdepth=1, small=True)
    sh["pad"] = None
    b = envgen.Builder(d)
    desc = b.desc(sh, toolrun.create_lib)
    data = toolrun.create_lib(desc)
    p = d / f"in{k}.suit"
    p.write_bytes(data)
    return sh, p


def sign_chain(ctx, tr, keys, shape, inp_path, ops, via="lib", origin=""):
    """ops: [(action, key, alg, kid int)] applied one after another, each on the previous output (or the same input when
    the previous one was refused)."""
    d = inp_path.parent
    scn = {"origin": origin, "via": via, "shape": shape, "ops": ops}
    tr.begin(scn)
    cur = inp_path
    tr.ev("Created", name="s0", e=project.project_env(cur.read_bytes(), tr.terms, keys.pub))
    name = "s0"
    for n, (action, key, alg, kid) in enumerate(ops):
        out = d / f"{inp_path.stem}_o{n}.suit"
        # every third single-operation scenario finds an earlier signing of the same input (other key id, Ed25519) at its output path
        stale = ("ked", (kid + 1) & 0xFFFFFFFF, "eddsa") if (n == 0 and len(ops) == 1 and (kid + len(key)) % 3 == 1) else None
        err = signrun.sign_single(cur, out, keys, key, kid, alg, action, via=via, stale=stale)
        written = out.exists()
        e = project.project_env((out if written else cur).read_bytes(), tr.terms, keys.pub)
        nxt = f"s{n + 1}"
        tr.ev("Sign", inp=name, out=nxt, action=action, key=key, ktype=keys.kind(key), alg=alg, kid=hex(kid),
              written=written, e=e, err=(err or "")[:120])
        ctx.count("evaluations")
        if written:
            cur, name = out, nxt
            if e["blocks"]:
                ctx.nontriv(("sig", alg, hex(kid), action, len(e["blocks"]), bool(shape["pay"]), bool(shape["deps"]),
                             tuple(sorted(shape["mem"]))))


class TwoStores:
    """Two KMS contexts holding the SAME key names with DIFFERENT keys; the second one's public halves are registered as
    <name>@2, so that the projection tells which context's key made a signature."""

    def __init__(self, a: signrun.Keys, b: signrun.Keys):
        self.a, self.b = a, b
        self.pub = dict(a.pub)
        self.pub.update({f"{n}@2": v for n, v in b.pub.items()})

    def kind(self, name):
        return self.pub[name][0]


def sign_session(ctx, tr, stores: TwoStores, shape, inp_path, ops, origin="session"):
    """ONE Signer object (a library user's session) signs a chain of envelopes; every call names its own key, algorithm, key id
    and KMS context (ops: [(action, key, alg, kid, ctx 1|2)]).  State kept by the object between calls must not matter."""
    core.setup_repo_path()
    from suit_generator import cmd_sign
    from suit_generator.suit_sign_script_base import SignatureAlreadyPresentActions, SuitSignAlgorithms

    ss, kms = signrun.sign_scripts()
    d = inp_path.parent
    scn = {"origin": origin, "via": "one-signer-object", "shape": shape, "ops": ops}
    tr.begin(scn)
    signer = cmd_sign._import_signer(ss)
    cur = inp_path
    tr.ev("Created", name="s0", e=project.project_env(cur.read_bytes(), tr.terms, stores.pub))
    name = "s0"
    for n, (action, key, alg, kid, c) in enumerate(ops):
        out = d / f"{inp_path.stem}_sess{tr.tid}_{n}.suit"
        err = ""
        try:
            env = signer.sign_envelope(cmd_sign.load_envelope(cur), key, kid, SuitSignAlgorithms(alg),
                                       str((stores.a if c == 1 else stores.b).dir), kms, SignatureAlreadyPresentActions(action))
            if env is None:
                raise ValueError("empty result")
            cmd_sign.save_envelope(out, env)
        except BaseException as e:
            if isinstance(e, (KeyboardInterrupt, MemoryError)):
                raise
            err = repr(e)[:120]
        written = out.exists()
        e = project.project_env((out if written else cur).read_bytes(), tr.terms, stores.pub)
        nxt = f"s{n + 1}"
        named = key if c == 1 else f"{key}@2"
        tr.ev("Sign", inp=name, out=nxt, action=action, key=named, ktype=stores.kind(named), alg=alg, kid=hex(kid),
              written=written, e=e, err=err)
        ctx.count("evaluations")
        if written:
            cur, name = out, nxt
            if e["blocks"]:
                ctx.nontriv(("session", alg, hex(kid), action, c, n))


def raw_signatures(ctx, tr, keys, n):
    """The KMS signing primitive in a loop: width and validity of every signature."""
    core.setup_repo_path()
    import importlib.util

    spec = importlib.util.spec_from_file_location("verif_basic_kms", signrun.sign_scripts()[1])
    mod = importlib.util.module_from_spec(spec)
    spec.loader.exec_module(mod)
    kms = mod.suit_kms_factory()
    kms.init_kms(str(keys.dir))
    lead = 0
    for alg, key in (("es-256", "kp256"), ("es-384", "kp384"), ("es-521", "kp521"), ("es-256", "kp256b")):
        tr.begin({"origin": "rawsig", "alg": alg, "key": key, "n": n})
        kind, pub = keys.pub[key]
        w = {"es-256": 32, "es-384": 48, "es-521": 66}[alg]
        for i in range(n):
            msg = b"Sig_structure %d" % i
            sig = kms.sign(msg, key, alg, str(keys.dir))
            ok = sv.verify(pub, kind, sv.ALG_IDS[alg], msg, sig) if len(sig) == 2 * w else False
            if len(sig) == 2 * w and (sig[0] == 0 or sig[w] == 0):
                lead += 1
                ctx.nontriv(("leading-zero", alg, i))
            elif len(sig) != 2 * w:
                ctx.nontriv(("short", alg, i))
            tr.ev("RawSig", alg=alg, width=len(sig), verifies=ok)
            ctx.count("evaluations")
    ctx.cov["signatures_with_leading_zero_r_or_s"] = lead


def run(ctx: core.Check):
    ctx.cov["rule"] = ("scenario = envelope shape (payloads, severed members, dependencies) x sequence of sign operations "
                       "(action, key, algorithm, key id); sequences from TLC (Sign_MC) and the full algorithm x key-id "
                       "boundary product on unsigned inputs; plus a loop over the KMS signing primitive per curve. Distinct & "
                       "non-trivial = distinct (algorithm, key id, action, block count, shape features) that produced a "
                       "verified block, and signatures whose r or s has a leading zero byte.")
    ctx.note("Use A: Sign_MC")
    ctx.mc("Sign_MC", "Sign_MC.cfg", required_actions=("SignOp",))
    g = tlc.run_tlc("Sign_MC", "Sign_Gen.cfg", workers=1)
    tlc.require_ok(g, "Sign_Gen")
    hists = g.tagged("SCN")
    ctx.cov["tlc_runs"].append({"module": "Sign_MC", "cfg": "Sign_Gen.cfg", "use": "B:scenario-generation",
                                "scenarios": len(hists)})
    ctx.rng.shuffle(hists)
    hists = hists[: (250 if ctx.quick else 5000)]
    d = ctx.tmp("c04")
    keys = signrun.Keys(d / "keys")
    rng = ctx.rng
    inputs = [make_input(ctx, rng, d, k) for k in range(12 if ctx.quick else 60)]
    tr = toolrun.Trace()
    ctx.note(f"Use B/C: {len(hists)} TLC operation sequences -> real sign single-level")
    for k, h in enumerate(hists):
        sh, p = inputs[k % len(inputs)]
        ops = [(o["action"], o["key"], o["alg"], int(o["kid"], 16)) for o in h]
        sign_chain(ctx, tr, keys, sh, p, ops, via="cli" if k % 40 == 0 else "lib", origin="tlc")
        drift = sum(1 for o, e in zip(h, [x for x in tr.of(tr.tid) if x["ev"] == "Sign"]) if o["written"] != e["written"])
        ctx.count("drift_model_vs_code", drift)
        if k == 0:
            ctx.sample({"tlc_ops": h, "events": tr.of(tr.tid)[1:]})
    toolrun.report(ctx, tr, label="sign-tlc")
    ctx.note("Use C: algorithm x key id boundaries on unsigned inputs; DER keys; Ed448")
    tr = toolrun.Trace()
    k = 0
    for alg, key in list(ALGKEY.items()) + [("eddsa", "ked448"), ("es-256", "kp256b"), ("eddsa", "kedb"), ("es-256", "kp256.gen2"), ("eddsa", "ked.v2"),
                                           ("hash-eddsa", "ked.v2")]:
        for kid in (KIDS if not ctx.quick else KIDS[::2] + [KIDS[-1]]):
            sh, p = inputs[k % len(inputs)]
            k += 1
            sign_chain(ctx, tr, keys, sh, p, [("error", key, alg, kid)], via="cli" if k % 25 == 0 else "lib", origin="kid")
    toolrun.report(ctx, tr, label="sign-kid")
    # one Signer object across calls naming different contexts (same key names, different keys), keys, algorithms, key ids
    ctx.note("Use B/C: TLC operation sequences through ONE Signer object, alternating KMS contexts")
    tr = toolrun.Trace()
    stores = TwoStores(keys, signrun.Keys(d / "keys2"))
    for k, h in enumerate(hists[: (80 if ctx.quick else 1500)]):
        sh, p = inputs[(k + 5) % len(inputs)]
        ops = [(o["action"], o["key"], o["alg"], int(o["kid"], 16), 1 + (k + n_) % 2) for n_, o in enumerate(h)]
        if len(ops) == 1:   # a session needs history: sign once more with the other context's key of the same name
            ops.append(("remove-old", ops[0][1], ops[0][2], ops[0][3] + 1, 3 - ops[0][4]))
        sign_session(ctx, tr, stores, sh, p, ops)
    toolrun.report(ctx, tr, label="sign-session")
    # sign recursive appends the same kind of block to every configured level: the C04 clauses (BlockClause, everything else
    # unchanged, manifests untouched) are judged per node by RecursiveJudge (the policy side belongs to C09)
    ctx.note("Use C: recursive hierarchies (C04 clauses per signed node)")
    from . import c09_policy
    tr = toolrun.Trace()
    # every omit pattern over a valid three-level hierarchy root -> #c -> #g, all algorithms
    k = 0
    for omit in ((0, 0, 0), (1, 0, 0), (0, 1, 0), (0, 0, 1), (1, 1, 0), (1, 0, 1), (0, 1, 1)):
        for alg, key in ALGKEY.items():
            k += 1
            def cfg(o, kid):
                return {"omit": bool(o), "haskey": True, "key": key, "alg": alg, "action": "error", "kid": kid}
            g = {"name": "#g", "kind": "env", "pre": False, "cfg": cfg(omit[2], KIDS[k % len(KIDS)]), "children": []}
            c = {"name": "#c", "kind": "env", "pre": False, "cfg": cfg(omit[1], 0x4000AA00 + k), "children": [g, {"name": "#x", "kind": "raw", "incfg": False, "cfg": {}}]}
            root = {"name": "root", "kind": "env", "pre": False, "cfg": cfg(omit[0], 7), "children": [c]}
            c09_policy.run_tree(ctx, tr, keys, root, ctx.rng, via="cli" if k % 12 == 0 else "lib", origin="recursive")
    for k in range(20 if ctx.quick else 600):
        tree = c09_policy.random_tree(ctx.rng)
        c09_policy.run_tree(ctx, tr, keys, tree, ctx.rng, via="lib", origin="recursive")
    toolrun.report(ctx, tr, label="sign-recursive")
    ctx.note("Use C: KMS signature loop (fixed-width r||s)")
    tr = toolrun.Trace()
    raw_signatures(ctx, tr, keys, 300 if ctx.quick else 3000)
    toolrun.report(ctx, tr, label="rawsig")
    ctx.assumptions += ["signature verification by cryptography (ECDSA, Ed25519/Ed448) and pycryptodome (Ed25519ph) with the "
                        "public half only; a defect common to signing and verifying inside those libraries is invisible",
                        "Sig_structure rebuilt by the verifier from the block's protected bytes and the envelope's digest item"]


def replay(ctx, rec):
    scn = rec["replay"]["scenario"]
    d = ctx.tmp("c04r")
    keys = signrun.Keys(d / "keys")
    tr = toolrun.Trace()
    if scn.get("via") == "one-signer-object":
        b = envgen.Builder(d)
        data = toolrun.create_lib(b.desc(scn["shape"], toolrun.create_lib))
        p = d / "in.suit"
        p.write_bytes(data)
        sign_session(ctx, tr, TwoStores(keys, signrun.Keys(d / "keys2")), scn["shape"], p, [tuple(o) for o in scn["ops"]])
    elif "tree" in scn:
        from . import c09_policy
        c09_policy.run_tree(ctx, tr, keys, scn["tree"], ctx.rng, via="lib", origin="replay")
    elif scn.get("origin") == "rawsig":
        raw_signatures(ctx, tr, keys, scn["n"])
    else:
        b = envgen.Builder(d)
        data = toolrun.create_lib(b.desc(scn["shape"], toolrun.create_lib))
        p = d / "in.suit"
        p.write_bytes(data)
        sign_chain(ctx, tr, keys, scn["shape"], p, [tuple(o) for o in scn["ops"]], via=scn.get("via", "lib"))
    ctx.nontriv("replay")
    ctx.nontriv("replay2")
    ctx.sample({"replayed": scn})
    toolrun.report(ctx, tr, label="replay")
