"""Descriptions for C02: (a) a minimal description around one registry atom (from Wire_MC), (b) a seeded generator over the
grammar of the description language (envelope, authentication blocks, manifest, common, dependencies, component identifiers,
all 22 commands, all 14 parameters incl. encryption info with nested recipients, try-each / run-sequence nesting, severed text
maps) with integers and lengths at the CBOR width boundaries."""
from __future__ import annotations

import copy

ALGS = ["cose-alg-sha-256", "cose-alg-shake128", "cose-alg-sha-384", "cose-alg-sha-512", "cose-alg-shake256"]
SIGN_ALGS = ["cose-alg-es-256", "cose-alg-es-384", "cose-alg-es-521", "cose-alg-eddsa", "cose-alg-vs-hash-eddsa"]
ENC_ALGS = ["cose-alg-aes-gcm-128", "cose-alg-aes-gcm-192", "cose-alg-aes-gcm-256"]
KW_ALGS = ["cose-alg-a128kw", "cose-alg-a192kw", "cose-alg-a256kw", "cose-alg-direct"]
POL = ["suit-send-record-success", "suit-send-record-failure", "suit-send-sysinfo-success", "suit-send-sysinfo-failure"]
CONDS = ["suit-condition-vendor-identifier", "suit-condition-class-identifier", "suit-condition-image-match",
         "suit-condition-component-slot", "suit-condition-check-content", "suit-condition-dependency-integrity",
         "suit-condition-is-dependency", "suit-condition-abort", "suit-condition-device-identifier", "suit-condition-version"]
PDIRS = ["suit-directive-write", "suit-directive-fetch", "suit-directive-copy", "suit-directive-invoke", "suit-directive-swap",
         "suit-directive-process-dependency", "suit-directive-unlink"]
BOUNDS = [0, 23, 24, 255, 256, 65535, 65536, 2**32 - 1, 2**32, 2**64 - 1]
COMPS = ["suit-condition-version-comparison-greater", "suit-condition-version-comparison-greater-equal",
         "suit-condition-version-comparison-equal", "suit-condition-version-comparison-lesser-equal",
         "suit-condition-version-comparison-lesser"]
UUID = "00112233445566778899aabbccddeeff"


def val(l):
    return (l[0] << 48) | (l[1] << 32) | (l[2] << 16) | l[3]


def base():
    return {"SUIT_Envelope_Tagged": {
        "suit-authentication-wrapper": {"SuitDigest": {"suit-digest-algorithm-id": "cose-alg-sha-256"}},
        "suit-manifest": {"suit-manifest-version": 1, "suit-manifest-sequence-number": 1,
                          "suit-common": {"suit-components": [["M", 2, 1024]]},
                          "suit-validate": []}}}


def param_value(name, var, rng=None):
    v = {
        "suit-parameter-vendor-identifier": [{"raw": UUID}, {"RFC4122_UUID": "nordicsemi.com"}],
        "suit-parameter-class-identifier": [{"raw": UUID}, {"RFC4122_UUID": {"namespace": "nordicsemi.com", "name": "x"}}],
        "suit-parameter-device-identifier": [{"raw": UUID}, {"raw": "ff" * 16}],
        "suit-parameter-image-digest": [{"suit-digest-algorithm-id": "cose-alg-sha-512", "suit-digest-bytes": "ab" * 64},
                                        {"suit-digest-algorithm-id": "cose-alg-shake128", "suit-digest-bytes": {"raw": "cd" * 16}}],
        "suit-parameter-strict-order": [True, False],
        "suit-parameter-soft-failure": [False, True],
        "suit-parameter-uri": ["#file.bin", "http://example.com/" + "x" * 300],
        "suit-parameter-invoke-args": [{"suit-synchronous-invoke": True, "suit-timeout": 65536}, {"suit-timeout": 0}],
        "suit-parameter-version": [{COMPS[0]: [1, 2, 3]}, {COMPS[4]: [0, 300, -1, 2]}],
        "suit-parameter-encryption-info": [
            {"CoseEncryptTagged": {"protected": {"suit-cose-algorithm-id": "cose-alg-aes-gcm-256"}, "unprotected": {"suit-cose-iv": "00" * 12},
                                   "ciphertext": None, "recipients": [{"protected": {}, "unprotected": {"suit-cose-algorithm-id": "cose-alg-direct", "suit-cose-key-id": 1073785344},
                                                                       "ciphertext": None}]}},
            {"raw": "4a" + "d8608443a10103a0f6" + "80"}],
    }
    return copy.deepcopy(v[name][var - 1])


def nest(name, depth):
    inner = [{"suit-condition-abort": []}]
    for d in range(depth):
        inner = [{name: [inner, [{"suit-directive-set-component-index": d}]]}] if name == "suit-directive-try-each" else [{name: inner}]
    return inner


def atom_desc(a: dict) -> dict:
    d = base()
    mf = d["SUIT_Envelope_Tagged"]["suit-manifest"]
    seq = mf["suit-validate"]
    k = a["kind"]
    if k == "policycmd":
        seq.append({a["name"]: [p for p in POL if p in a["pol"]]})
    elif k == "index":
        seq.append({"suit-directive-set-component-index": {"true": True, "false": False, "list0": [], "list3": [0, 1, 255]}[a["var"]]})
    elif k == "indexint":
        seq.append({"suit-directive-set-component-index": val(a["l"])})
    elif k == "nest":
        seq += nest(a["name"], a["depth"])
    elif k == "paramint":
        v = val(a["l"])
        seq.append({"suit-directive-override-parameters": {a["name"]: {"raw": v} if a["name"] == "suit-parameter-image-size" else v}})
    elif k == "param":
        seq.append({"suit-directive-set-parameters": {a["name"]: param_value(a["name"], a["var"])}})
    elif k == "seqnum":
        mf["suit-manifest-sequence-number"] = val(a["l"])
    elif k == "hashalg":
        d["SUIT_Envelope_Tagged"]["suit-authentication-wrapper"]["SuitDigest"]["suit-digest-algorithm-id"] = a["name"]
        mf["suit-install"] = {"suit-digest-algorithm-id": a["name"]}
        d["SUIT_Envelope_Tagged"]["suit-install"] = [{"suit-directive-fetch": ["suit-send-record-failure"]}]
    elif k in ("signalg", "kid"):
        prot = {"suit-cose-algorithm-id": a["name"] if k == "signalg" else "cose-alg-es-256",
                "suit-cose-key-id": val(a["l"]) if k == "kid" else 7}
        d["SUIT_Envelope_Tagged"]["suit-authentication-wrapper"]["SuitAuthentication0"] = {"CoseSign1Tagged": {
            "protected": prot, "unprotected": {}, "payload": None, "signature": "5a" * 64}}
    elif k == "comparator":
        seq.append({"suit-directive-override-parameters": {"suit-parameter-version": {a["name"]: [1, 0, 65536]}}})
    elif k == "textkey":
        mf["suit-text"] = {"suit-digest-algorithm-id": "cose-alg-sha-256"}
        if a["name"] in ("suit-text-manifest-description", "suit-text-update-description", "suit-text-manifest-json-source", "suit-text-manifest-yaml-source"):
            d["SUIT_Envelope_Tagged"]["suit-text"] = {"en": {a["name"]: "text"}}
        else:
            d["SUIT_Envelope_Tagged"]["suit-text"] = {"en-GB": {'["M", 2, 1024]': {a["name"]: "zażółć"}}}
    elif k == "member":
        body = [{"suit-condition-image-match": ["suit-send-record-success"]}]
        if a["name"] in ("suit-validate",):
            seq.append(body[0])
        else:
            mf[a["name"]] = body
    elif k == "authblocks":
        n = a["n"]
        idx = list(range(n))
        if a["names"] == "descending":
            idx.reverse()
        elif a["names"] == "rotated":
            idx = idx[n // 2:] + idx[:n // 2]
        for pos, i in enumerate(idx):   # the key carries number i, the block's content carries its POSITION (key id = 100 + pos)
            d["SUIT_Envelope_Tagged"]["suit-authentication-wrapper"][f"SuitAuthentication{i}"] = {"CoseSign1Tagged": {
                "protected": {"suit-cose-algorithm-id": "cose-alg-es-256", "suit-cose-key-id": 100 + pos}, "unprotected": {},
                "payload": None, "signature": ("%02x" % (pos + 1)) * 64}}
    elif k == "cidpart":
        mf["suit-common"]["suit-components"] = [["M", a["text"], 7], [a["text"]]]
        mf["suit-manifest-component-id"] = ["I", a["text"]]
    elif k == "unionhex":
        f, t = a["field"], a["text"]
        if f == "content":
            seq.append({"suit-directive-override-parameters": {"suit-parameter-content": t}})
        elif f in ("kid", "kidunprot"):
            hdr = {"suit-cose-algorithm-id": "cose-alg-es-256", "suit-cose-key-id": t}
            d["SUIT_Envelope_Tagged"]["suit-authentication-wrapper"]["SuitAuthentication0"] = {"CoseSign1Tagged": {
                "protected": hdr if f == "kid" else {"suit-cose-algorithm-id": "cose-alg-es-256"},
                "unprotected": {} if f == "kid" else {"suit-cose-key-id": t}, "payload": None, "signature": "5a" * 64}}
        else:
            info = param_value("suit-parameter-encryption-info", 1)
            info["CoseEncryptTagged"]["recipients"][0]["unprotected"]["suit-cose-key-id"] = t
            seq.append({"suit-directive-override-parameters": {"suit-parameter-encryption-info": info}})
    elif k == "strlen":
        mf["suit-reference-uri"] = "u" * a["n"]
        seq.append({"suit-directive-override-parameters": {"suit-parameter-uri": "v" * a["n"]}})
    return d


# ---------------------------------------------------------------------------------------------------------------


def rnd_int(rng):
    return rng.choice(BOUNDS + [rng.choice(BOUNDS) + rng.choice([-1, 1]) if rng.random() < 0.5 else rng.randrange(2**16)]) % (2**64)


def rnd_params(rng):
    names = rng.sample(["suit-parameter-vendor-identifier", "suit-parameter-class-identifier", "suit-parameter-image-digest",
                        "suit-parameter-component-slot", "suit-parameter-strict-order", "suit-parameter-soft-failure",
                        "suit-parameter-image-size", "suit-parameter-content", "suit-parameter-encryption-info", "suit-parameter-uri",
                        "suit-parameter-source-component", "suit-parameter-invoke-args", "suit-parameter-device-identifier",
                        "suit-parameter-version"], rng.randint(0, 5))
    out = {}
    for n in names:
        if n in ("suit-parameter-component-slot", "suit-parameter-source-component"):
            out[n] = rnd_int(rng)
        elif n == "suit-parameter-image-size":
            out[n] = {"raw": rnd_int(rng)}
        elif n == "suit-parameter-content":
            out[n] = rng.choice([rnd_int(rng), "ff" * rng.choice([1, 23, 24, 300])])
        elif n == "suit-parameter-encryption-info" and rng.random() < 0.6:
            out[n] = rnd_encinfo(rng)
        elif n == "suit-parameter-version":
            out[n] = {rng.choice(COMPS): [rng.choice([0, 1, 255, 256, -1, -2, -3, 70000]) for _ in range(rng.randint(1, 5))]}
        elif n == "suit-parameter-invoke-args":
            out[n] = rng.choice([{}, {"suit-synchronous-invoke": rng.random() < 0.5}, {"suit-timeout": rnd_int(rng) % 2**32, "suit-synchronous-invoke": True}])
        elif n == "suit-parameter-image-digest":
            a = rng.choice(ALGS)
            out[n] = {"suit-digest-algorithm-id": a, "suit-digest-bytes": rng.choice(["", "ab" * 16, "cd" * 32, "ef" * 64])}
        else:
            out[n] = param_value(n, rng.choice([1, 2]))
    return out


def rnd_header(rng, algs):
    h = {}
    if rng.random() < 0.8:
        h["suit-cose-algorithm-id"] = rng.choice(algs)
    if rng.random() < 0.6:
        h["suit-cose-key-id"] = rng.choice([rnd_int(rng), "c0ffee"])
    if rng.random() < 0.3:
        h["suit-cose-iv"] = "11" * rng.choice([12, 16])
    return h


def rnd_recipient(rng, depth=0):
    r = {"protected": rng.choice([{}, "", rnd_header(rng, KW_ALGS) or {}]), "unprotected": rnd_header(rng, KW_ALGS),
         "ciphertext": rng.choice([None, "aa" * rng.choice([0, 24, 40])])}
    if depth < 2 and rng.random() < 0.3:
        r["recipients"] = [rnd_recipient(rng, depth + 1) for _ in range(rng.randint(1, 2))]
    return r


def rnd_encinfo(rng):
    return {"CoseEncryptTagged": {"protected": rnd_header(rng, ENC_ALGS), "unprotected": rnd_header(rng, ENC_ALGS),
                                  "ciphertext": rng.choice([None, None, "bb" * 10]),
                                  "recipients": [rnd_recipient(rng) for _ in range(rng.randint(0, 2))]}}


def rnd_seq(rng, depth=0):
    out = []
    for _ in range(rng.randint(0, 4)):
        r = rng.random()
        if r < 0.35:
            out.append({rng.choice(CONDS + PDIRS): rng.sample(POL, rng.randint(0, 4))})
        elif r < 0.5:
            out.append({"suit-directive-set-component-index": rng.choice([rnd_int(rng), True, False, [rng.randrange(300) for _ in range(rng.randint(0, 3))]])})
        elif r < 0.8:
            out.append({rng.choice(["suit-directive-set-parameters", "suit-directive-override-parameters"]): rnd_params(rng)})
        elif depth < 3:
            if rng.random() < 0.5:
                out.append({"suit-directive-try-each": [rnd_seq(rng, depth + 1) for _ in range(rng.randint(1, 3))]})
            else:
                out.append({"suit-directive-run-sequence": rnd_seq(rng, depth + 1)})
    if out and rng.random() < 0.2:
        # two commands in ONE list entry (one dict with several keys, in order)
        # (both of the same class: a list entry is one condition-map or one directive-map)
        out.append(rng.choice([{"suit-condition-abort": [], "suit-condition-image-match": ["suit-send-record-failure"]},
                               {"suit-directive-fetch": ["suit-send-record-failure"], "suit-directive-set-component-index": 1}]))
    return out


def rnd_cid(rng):
    parts = []
    for _ in range(rng.randint(1, 4)):
        parts.append(rng.choice(["M", "I", "CAND_MFST", "INSTLD_MFST", "x" * 30, rnd_int(rng), -1 - rnd_int(rng) % 2**32, {"raw": "ca" * rng.choice([1, 16, 24])},
                                 {"RFC4122_UUID": {"namespace": "nordicsemi.com", "name": "n%d" % rng.randrange(5)}}, "ż", "2", "_", "#", "0", " "]))
    return parts


def rnd_desc(rng):
    d = base()
    e = d["SUIT_Envelope_Tagged"]
    e["suit-authentication-wrapper"]["SuitDigest"]["suit-digest-algorithm-id"] = rng.choice(ALGS)
    if rng.random() < 0.3:
        e["suit-authentication-wrapper"]["SuitDigest"]["suit-digest-bytes"] = "deadbeef"
    nb = rng.choice([0, 0, 1, 2, 3, 4, 11])
    order = list(range(nb))
    if rng.random() < 0.3:
        rng.shuffle(order)   # the keys' numbering is free: the order of the description is the order on the wire
    for i in order:
        e["suit-authentication-wrapper"][f"SuitAuthentication{i}"] = {"CoseSign1Tagged": {
            "protected": rnd_header(rng, SIGN_ALGS), "unprotected": rnd_header(rng, SIGN_ALGS) if rng.random() < 0.3 else {},
            "payload": None, "signature": "5a" * rng.choice([64, 96, 132])}}
    comps = [rnd_cid(rng) for _ in range(rng.randint(1, 4))]
    common = {"suit-components": comps}
    if rng.random() < 0.5:
        common["suit-shared-sequence"] = rnd_seq(rng)
    if rng.random() < 0.4:
        common["suit-dependencies"] = {str(i): ({} if rng.random() < 0.6 else {"suit-dependency-prefix": rnd_cid(rng)}) for i in rng.sample(range(len(comps)), rng.randint(1, len(comps)))}
    if rng.random() < 0.5:
        common = dict(reversed(list(common.items())))
    mf = {"suit-manifest-version": 1, "suit-manifest-sequence-number": rnd_int(rng), "suit-common": common}
    opt = []
    if rng.random() < 0.4:
        opt.append(("suit-reference-uri", "http://" + "r" * rng.choice([0, 16, 17, 248, 249])))
    if rng.random() < 0.5:
        opt.append(("suit-manifest-component-id", rnd_cid(rng)))
    if rng.random() < 0.4:
        opt.append(("suit-current-version", [rng.choice([0, 1, 24, 300, -1, -3]) for _ in range(rng.randint(1, 5))]))
    for m in ("suit-validate", "suit-load", "suit-invoke", "suit_uninstall"):
        if rng.random() < 0.5:
            opt.append((m, rnd_seq(rng)))
    for m in ("suit-payload-fetch", "suit-install", "suit-install-legacy", "suit-dependency-resolution", "suit-candidate-verification"):
        r = rng.random()
        if r < 0.25:
            opt.append((m, rnd_seq(rng)))
        elif r < 0.55:
            dg = {"suit-digest-algorithm-id": rng.choice(ALGS)}
            if rng.random() < 0.5:
                dg["suit-digest-bytes"] = rng.choice(["", "00" * 16, "0badc0de"])
            opt.append((m, dg))
            if rng.random() < 0.7:
                e[m] = rnd_seq(rng)
    if rng.random() < 0.5:
        opt.append(("suit-text", {"suit-digest-algorithm-id": rng.choice(ALGS)}))
        if rng.random() < 0.8:
            lm = {}
            if rng.random() < 0.7:
                lm[__import__("json").dumps(comps[0]) if all(isinstance(p, (str, int)) for p in comps[0]) else '["M", 2]'] = {
                    k: "t" * rng.choice([1, 23, 24, 255, 256]) for k in rng.sample(["suit-text-vendor-name", "suit-text-model-name", "suit-text-vendor-domain", "suit-text-model-info", "suit-text-component-description", "suit-text-component-version"], rng.randint(1, 4))}
            for k in rng.sample(["suit-text-manifest-description", "suit-text-update-description", "suit-text-manifest-json-source", "suit-text-manifest-yaml-source"], rng.randint(0, 3)):
                lm[k] = "opis ż" * rng.choice([1, 10]) + rng.choice(["", "", "\u0085nel", "\u2028ls\u2029ps", "\x0bvt\x0cff"])
            e["suit-text"] = {rng.choice(["en", "pl-PL"]): lm}
    rng.shuffle(opt)
    mf.update(opt)
    e["suit-manifest"] = mf
    # envelope member order: wrapper, manifest, then severed members (already placed), payloads
    if rng.random() < 0.5:
        e["suit-integrated-payloads"] = {f"#p{i}": "cc" * rng.choice([0, 1, 23, 24, 255, 256]) for i in range(rng.randint(1, 3))}
    if rng.random() < 0.3:
        e["suit-integrated-dependencies"] = {f"#d{i}": "dd" * rng.choice([1, 30]) for i in range(rng.randint(1, 2))}
    # the manifest must be listed before severed members were added: rebuild the envelope order
    order = ["suit-authentication-wrapper", "suit-manifest"]
    env = {k: e[k] for k in order}
    rest = [k for k in e if k not in order]
    if rng.random() < 0.5:
        rng.shuffle(rest)   # the order of the remaining members is free (dependencies before payloads, payloads before severed ...)
    env.update({k: e[k] for k in rest})
    d["SUIT_Envelope_Tagged"] = env
    return d
