"""C15 - generated key pairs match and convert emits the exact public key.

Use A  Keys_MC: scenario space (type x encoding x formats; type x leading-zero shape x layout options) enumerated by
       TLC, fixed-width property of the specified array for every leading-zero shape.
Use B  every scenario emitted by TLC is replayed into the real `keys` / `convert` (library + CLI); for convert the
       harness SEARCHES a key whose X / Y coordinate has the requested number of leading zero bytes.
Use C  Keys / Convert events judged by Keys_Trace: files reloaded with cryptography (type, encoding, sign/verify with
       the pair), the C file tokenised for 0x.. literals, coordinates given to the spec as minimal big-endian bytes so
       that the spec does the padding.
"""
from __future__ import annotations

import json
import re
import subprocess

from cryptography.hazmat.primitives import hashes, serialization
from cryptography.hazmat.primitives.asymmetric import ec, ed25519, ed448

from . import core, toolrun

CURVES = {"secp256r1": ec.SECP256R1, "secp384r1": ec.SECP384R1, "secp521r1": ec.SECP521R1}
WIDTH = {"secp256r1": 32, "secp384r1": 48, "secp521r1": 66}


def key_type(k) -> str:
    if isinstance(k, (ec.EllipticCurvePrivateKey, ec.EllipticCurvePublicKey)):
        return k.curve.name
    if isinstance(k, (ed25519.Ed25519PrivateKey, ed25519.Ed25519PublicKey)):
        return "ed25519"
    if isinstance(k, (ed448.Ed448PrivateKey, ed448.Ed448PublicKey)):
        return "ed448"
    return "other"


def load_any(data: bytes, private: bool):
    """(key, encoding) by trying PEM then DER with standard loaders."""
    for enc, lp, lq in (("pem", serialization.load_pem_private_key, serialization.load_pem_public_key),
                        ("der", serialization.load_der_private_key, serialization.load_der_public_key)):
        try:
            return (lp(data, None) if private else lq(data)), enc
        except Exception:
            continue
    return None, "none"


def belongs(priv, pub) -> bool:
    try:
        msg = b"pair check"
        if isinstance(priv, ec.EllipticCurvePrivateKey):
            sig = priv.sign(msg, ec.ECDSA(hashes.SHA256()))
            pub.verify(sig, msg, ec.ECDSA(hashes.SHA256()))
        else:
            pub.verify(priv.sign(msg), msg)
        return True
    except Exception:
        return False


STALE = core.STALE


def run_keys(ctx, tr, d, s, k, via):
    stem = f"k.v{k}" if s.get("dotted") else f"k{k}"   # a prefix whose last component contains a dot is a legal prefix
    prefix = d / stem
    ok = True
    if s.get("stale"):   # history: both key files exist already
        for suffix in ("priv", "pub"):
            (d / f"{stem}_{suffix}.{s['enc']}").write_bytes(STALE)
        if k % 2 == 0 or s["pubfmt"] == "pkcs1":   # ... as a VALID pair written by an earlier run of the tool
            core.setup_repo_path()
            from suit_generator import cmd_keys as _ck
            try:
                _ck.main(str(prefix), s["type"], s["enc"], "pkcs8", "default", "none")
            except BaseException:
                pass
    if via == "cli":
        p = subprocess.run(core.cli_cmd("keys", "--output-file", prefix, "--type", s["type"], "--encoding", s["enc"],
                                        "--private-format", s["privfmt"], "--public-format", s["pubfmt"]),
                           cwd=d, env=core.cli_env(), capture_output=True, text=True)
        ok = p.returncode == 0
    else:
        core.setup_repo_path()
        from suit_generator import cmd_keys

        try:
            cmd_keys.main(str(prefix), s["type"], s["enc"], s["privfmt"], s["pubfmt"], "none")
        except BaseException as e:
            if isinstance(e, (KeyboardInterrupt, MemoryError)):
                raise
            ok = False
    pf, qf = d / f"{stem}_priv.{s['enc']}", d / f"{stem}_pub.{s['enc']}"
    for f_ in (pf, qf):
        if f_.exists() and f_.read_bytes() == STALE:
            f_.unlink()   # not written by this invocation
    r = {"ok": ok, "privExists": pf.exists(), "pubExists": qf.exists(), "privType": "none", "pubType": "none",
         "privEnc": "none", "pubEnc": "none", "pair": False}
    if pf.exists() and qf.exists():
        priv, r["privEnc"] = load_any(pf.read_bytes(), True)
        pub, r["pubEnc"] = load_any(qf.read_bytes(), False)
        if priv is not None and pub is not None:
            r["privType"], r["pubType"] = key_type(priv), key_type(pub)
            r["pair"] = belongs(priv, pub)
    tr.begin({"kind": "keys", **s, "via": via})
    tr.ev("Keys", type=s["type"], enc=s["enc"], privfmt=s["privfmt"], pubfmt=s["pubfmt"], r=r)
    ctx.count("evaluations")
    ctx.nontriv(("keys", s["type"], s["enc"], s["privfmt"], s["pubfmt"], via))
    return pf if pf.exists() else None


def minimal(n: int) -> list:
    return list(n.to_bytes((n.bit_length() + 7) // 8, "big")) if n else []


_SHAPES = {}


def find_key(type_, zx, zy, budget):
    """A private key whose public X / Y has exactly zx / zy leading zero bytes (search); None if the budget runs out."""
    if type_ == "ed25519":
        return ed25519.Ed25519PrivateKey.generate()
    if type_ == "ed448":
        return ed448.Ed448PrivateKey.generate()
    w = WIDTH[type_]
    cache = _SHAPES.setdefault(type_, {})
    if (zx, zy) in cache:
        return cache[(zx, zy)]
    if cache.get("exhausted"):
        return None  # the budget was already spent for this key type: shapes not seen so far are reported as not found
    curve = CURVES[type_]()
    for _ in range(budget):
        k = ec.generate_private_key(curve)
        n = k.public_key().public_numbers()
        lx = w - (n.x.bit_length() + 7) // 8
        ly = w - (n.y.bit_length() + 7) // 8
        cache.setdefault((min(lx, 2), min(ly, 2)), k)
        if (zx, zy) in cache:
            return cache[(zx, zy)]
    return None


_POOL = {}


def find_edge_key(type_, pos, val, budget):
    """A key whose X / Y coordinate (fixed width) has first / last byte == val; found in a pool of generated keys."""
    w = WIDTH[type_]
    pool = _POOL.setdefault(type_, {})
    if (pos, val) in pool:
        return pool[(pos, val)]
    if pool.get("exhausted"):
        return None
    curve = CURVES[type_]()
    for _ in range(budget):
        k = ec.generate_private_key(curve)
        n = k.public_key().public_numbers()
        xb, yb = n.x.to_bytes(w, "big"), n.y.to_bytes(w, "big")
        for p_, v_ in (("x0", xb[0]), ("y0", yb[0]), ("xn", xb[-1]), ("yn", yb[-1])):
            pool.setdefault((p_, v_), k)
        if (pos, val) in pool:
            return pool[(pos, val)]
    return None


TOK = re.compile(r"0x([0-9a-fA-F]{1,2})\b")


def run_convert(ctx, tr, d, s, k, via, key):
    pem = d / f"c{k}.pem"
    pem.write_bytes(key.private_bytes(serialization.Encoding.PEM, serialization.PrivateFormat.PKCS8, serialization.NoEncryption()))
    out = d / f"c{k}.c"
    decor = bool(s.get("decor"))
    hdr, ftr = d / f"c{k}_header.txt", d / f"c{k}_footer.txt"
    if decor:
        hdr.write_text("/* generated key, do not edit */\n#include <stdint.h>\n")
        ftr.write_text("/* end of key */\n")
    kw = dict(input_file=str(pem), output_file=str(out), array_type="unsigned char" if decor else "uint8_t", array_name="public_key",
              length_type="uint32_t" if decor else "size_t",
              length_name="public_key_len", columns_count=s["cols"], header_file=str(hdr) if decor else "", footer_file=str(ftr) if decor else "",
              indentation_count=s["indent"], indentation_tab=s["tab"], no_length=s["nolength"], no_const=s["noconst"])
    if via == "cli":
        a = ["convert", "--input-file", pem, "--output-file", out, "--columns-count", s["cols"], "--indentation-count", s["indent"],
             "--array-name", "public_key", "--length-name", "public_key_len"]
        if s["tab"]:
            a.append("--indentation-tab")
        if s["nolength"]:
            a.append("--no-length")
        if s["noconst"]:
            a.append("--no-const")
        if decor:
            a += ["--array-type", "unsigned char", "--length-type", "uint32_t", "--header-file", hdr, "--footer-file", ftr]
        subprocess.run(core.cli_cmd(*a), cwd=d, env=core.cli_env(), capture_output=True, text=True)
    else:
        core.setup_repo_path()
        from suit_generator import cmd_convert

        try:
            if via == "obj":   # ONE converter object used the way a caller may: preview, write, write again - the file last written counts
                conv = cmd_convert.KeyConverter(**kw)
                if hasattr(conv, "prepare_file_contents"):
                    conv.prepare_file_contents()
                conv.generate_c_file()
                conv.generate_c_file()
            else:
                cmd_convert.main(**kw)
        except Exception:
            pass
    text = out.read_text() if out.exists() else ""
    # the array initialiser: between the first '{' and the matching '}'
    body = text[text.find("{") + 1: text.find("}")] if "{" in text and "}" in text else ""
    tokens = [int(m, 16) for m in TOK.findall(body)]
    rest = text[text.find("}") + 1:] if "}" in text else ""
    lenvar = "public_key_len" in rest
    lensizeof = bool(re.search(r"public_key_len\s*=\s*(\(\s*[\w ]+\s*\)\s*)?sizeof\s*\(\s*public_key\s*\)", rest))
    pub = key.public_key()
    if s["type"] in WIDTH:
        n = pub.public_numbers()
        x, y, raw = minimal(n.x), minimal(n.y), []
    else:
        x, y = [], []
        raw = list(pub.public_bytes(serialization.Encoding.Raw, serialization.PublicFormat.Raw))
    tr.begin({"kind": "convert", **s, "via": via, "pem": pem.read_text()})
    tr.ev("Convert", type=s["type"], x=x, y=y, raw=raw,
          c={"tokens": tokens, "lenvar": lenvar, "lensizeof": lensizeof, "nolength": s["nolength"]})
    ctx.count("evaluations")
    ctx.nontriv(("conv", s["type"], s["zx"], s["zy"], s["cols"], s["indent"], s["tab"], s["nolength"], s["noconst"], via, str(s.get("edge"))))


def run(ctx: core.Check):
    ctx.cov["rule"] = ("keys: every type x encoding x private format x public format (40, all through the library, sampled "
                       "through the CLI) and in bulk per type (DER x200/x4000, PEM x20/x400: the key is drawn by the tool); convert: type x leading-zero shape (zx, zy in 0..2, keys found by search) x columns x "
                       "indentation x tab x no-length x no-const. All scenarios enumerated by TLC (Keys_MC). Distinct & "
                       "non-trivial = distinct scenario; shapes with a leading zero byte are counted separately.")
    g = ctx.mc("Keys_MC", "Keys_MC.cfg", workers=1, coverage=False, label="A:model-check + B:scenario-generation")
    scns = g.tagged("SCN")
    d = ctx.tmp("c15")
    tr = toolrun.Trace()
    keys_s = [s for s in scns if s["kind"] == "keys"]
    conv_s = [s for s in scns if s["kind"] == "convert"]
    edge_s = [s for s in scns if s["kind"] == "convertedge"]
    ctx.note(f"Use B/C: {len(keys_s)} keys scenarios")
    ctx.rng.shuffle(keys_s)   # TLC's enumeration order is periodic: the modulo selectors below must not alias with it
    for k, s in enumerate(keys_s):
        s["stale"] = k % 3 == 1 or s["pubfmt"] == "pkcs1"   # (a request refused at the public key must leave an earlier pair whole)
        s["dotted"] = k % 4 == 2
        run_keys(ctx, tr, d, s, k, "lib")
        if k % 6 == 0:
            run_keys(ctx, tr, d, s, 1000 + k, "cli")
    ctx.sample({"scenario": tr.scn[1], "event": tr.events[1]})
    # "for all keys": the key is drawn by the tool, so the key space is only reachable by repetition.  Binary (DER) files are
    # the ones whose content depends on the key bytes at every position (text handling of a file that ends / starts with a
    # whitespace, NUL or newline byte); counted so that the evidence says the special tails were actually met.
    reps = 200 if ctx.quick else 4000
    special = 0
    for t in ("secp256r1", "secp384r1", "secp521r1", "ed25519", "ed448"):
        for enc_, n_ in (("der", reps), ("pem", reps // 10)):
            s = {"kind": "keys", "type": t, "enc": enc_, "privfmt": "pkcs8", "pubfmt": "default", "reps": reps}
            for i in range(n_):
                pf = run_keys(ctx, tr, d, s, f"b_{t}_{enc_}_{i}", "lib")
                if pf is not None and enc_ == "der":
                    tail = pf.read_bytes()[-1:] + pf.with_name(pf.name.replace("_priv.", "_pub.")).read_bytes()[-1:]
                    special += any(b in b"\t\n\x0b\x0c\r \x00" for b in tail)
                    pf.unlink()
    ctx.cov["der_pairs_with_a_file_ending_in_whitespace_or_nul"] = special
    budget = 20000 if ctx.quick else 120000
    if ctx.quick:
        ctx.rng.shuffle(conv_s)
        # keep every (type, zx, zy) shape with zx + zy <= 2 and sample the layout options
        seen, keep = set(), []
        for s in conv_s:
            key = (s["type"], s["zx"], s["zy"])
            if s["zx"] + s["zy"] <= (1 if s["type"] != "secp256r1" else 2) and (key not in seen or len(keep) < 140):
                seen.add(key)
                keep.append(s)
        conv_s = keep[:170]
        # every (key type, columns) pair and both decor values at least once (rows ending at / around the end of the key)
        have = {(x["type"], x["cols"], x["decor"]) for x in conv_s}
        for x in keep[170:] + [y for y in scns if y["kind"] == "convert" and y["zx"] + y["zy"] == 0]:
            if (x["type"], x["cols"], x["decor"]) not in have:
                have.add((x["type"], x["cols"], x["decor"]))
                conv_s.append(x)
    ctx.note(f"Use B/C: {len(conv_s)} convert scenarios (searching keys with leading zero bytes)")
    skipped = 0
    lead = 0
    for k, s in enumerate(conv_s):
        key = find_key(s["type"], s["zx"], s["zy"], budget)
        if key is None:
            skipped += 1
            continue
        lead += (s["zx"] + s["zy"]) > 0
        run_convert(ctx, tr, d, s, k, "cli" if k % 25 == 0 else "obj" if k % 4 == 1 else "lib", key)
    # coordinates whose first / last byte has a value that serialisation code may treat specially
    base_e = {"zx": -1, "zy": -1, "cols": 8, "indent": 4, "tab": False, "nolength": False, "noconst": False}
    found_e = 0
    for k, s in enumerate(edge_s):
        key = find_edge_key(s["type"], s["pos"], s["val"], 6000 if ctx.quick else 60000)
        if key is None:
            skipped += 1
            continue
        found_e += 1
        run_convert(ctx, tr, d, dict(base_e, kind="convert", type=s["type"], edge=[s["pos"], s["val"]]), 50000 + k, "lib", key)
    ctx.cov["convert_runs_with_edge_byte_coordinate"] = found_e
    ctx.cov["convert_scenarios_without_key_found_in_budget"] = skipped
    ctx.cov["convert_runs_with_leading_zero_coordinate"] = lead
    ctx.sample({"scenario": {k2: v for k2, v in tr.scn[tr.tid].items() if k2 != "pem"}, "event": tr.events[-1]})
    # random keys in bulk through the library (1/128 have a leading zero somewhere)
    n = 150 if ctx.quick else 5000
    base = {"kind": "convert", "zx": -1, "zy": -1, "cols": 8, "indent": 4, "tab": False, "nolength": False, "noconst": False}
    for i in range(n):
        t = ["secp256r1", "secp384r1", "secp521r1", "ed25519", "ed448"][i % 5]
        key = ec.generate_private_key(CURVES[t]()) if t in CURVES else (ed25519.Ed25519PrivateKey.generate() if t == "ed25519" else ed448.Ed448PrivateKey.generate())
        run_convert(ctx, tr, d, dict(base, type=t), 100000 + i, "lib", key)
    toolrun.report(ctx, tr, module="Keys_Trace", label="keys", keyfn=lambda b, s: f"{b['clause']}:{json.dumps({k2: v for k2, v in s.items() if k2 != 'pem'})}")
    ctx.assumptions += ["keys reloaded with cryptography's standard loaders", "the C file is tokenised for 0x.. literals inside the first brace pair"]


def replay(ctx, rec):
    scn = rec["replay"]["scenario"]
    d = ctx.tmp("c15r")
    tr = toolrun.Trace()
    if scn["kind"] == "keys":
        for i in range(scn.get("reps", 1)):   # the key is drawn by the tool: a bulk scenario is replayed as many times as it ran
            run_keys(ctx, tr, d, {k: v for k, v in scn.items() if k != "via"}, i, scn.get("via", "lib"))
    else:
        key = serialization.load_pem_private_key(scn["pem"].encode(), None)
        run_convert(ctx, tr, d, scn, 1, scn.get("via", "lib"), key)
    ctx.nontriv("replay")
    ctx.nontriv("replay2")
    ctx.sample({"replayed": {k: v for k, v in scn.items() if k != "pem"}})
    toolrun.report(ctx, tr, module="Keys_Trace", label="replay")
