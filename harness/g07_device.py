"""G07 (growth, DESIGN.md 4.16) - the device-side meaning of what the tool builds.  Device.tla is a SUIT manifest processor as a
state machine (selection, parameter table, component contents, try-each bookkeeping) over the whole command vocabulary.

Use A  Device_MC: every program of <= 3 macros over an 18-macro alphabet, design properties of the processor model.
Use B  every program TLC prints (exhaustive <= 2 macros + simulation of longer ones) is written as a real description, created by
       the real tool (library / CLI, YAML / JSON), read back by the verifier's own reader, and Device_Trace must reach the verdict
       and the final device state the model predicted for the DESCRIPTION: the envelope means what the description said.
Use C  the repository's example descriptions, the rendered NCS templates' shapes of the other checks and generator shapes are
       walked the same way: a device following them meets no undeclared index, no parameter read before it is set, no integrated
       content that fails its own image-match.
Evidence goes to evidence/growth/."""
from __future__ import annotations

import hashlib
import json
import os

from . import cborx, core, envgen, project, seqwalk, toolrun

LEVEL = "model_checking"
BLOB = [b"content0", b"content-1"]          # lengths 8 and 9, as Device_MC's header says
SHA = [hashlib.sha256(b).hexdigest() for b in BLOB]


def _ov(params):
    return {"suit-directive-override-parameters": params}


def _dg(k):
    return {"suit-digest-algorithm-id": "cose-alg-sha-256", "suit-digest-bytes": SHA[k]}


MACROS = {
    1: [{"suit-directive-set-component-index": 0}],
    2: [{"suit-directive-set-component-index": 1}],
    3: [{"suit-directive-set-component-index": True}],
    4: [_ov({"suit-parameter-uri": "#p", "suit-parameter-image-digest": _dg(0), "suit-parameter-image-size": {"raw": 8}})],
    5: [_ov({"suit-parameter-image-digest": _dg(1)})],
    6: [{"suit-directive-set-parameters": {"suit-parameter-image-digest": _dg(1), "suit-parameter-image-size": {"raw": 9}}}],
    7: [{"suit-directive-fetch": []}],
    8: [{"suit-condition-image-match": []}],
    9: [_ov({"suit-parameter-source-component": 0})],
    10: [{"suit-directive-copy": []}],
    11: [_ov({"suit-parameter-content": BLOB[1].hex()})],
    12: [{"suit-directive-write": []}],
    13: [{"suit-directive-try-each": [[_ov({"suit-parameter-image-digest": _dg(0)})], [_ov({"suit-parameter-image-digest": _dg(1)})]]}],
    14: [{"suit-directive-try-each": [[_ov({"suit-parameter-uri": "#p"})], []]}],
    15: [{"suit-directive-unlink": []}],
    16: [{"suit-directive-swap": []}],
    17: [{"suit-directive-try-each": [[{"suit-condition-image-match": []}], [{"suit-directive-fetch": []}]]}],
    18: [{"suit-condition-vendor-identifier": []}],
    19: [{"suit-directive-run-sequence": [_ov({"suit-parameter-image-digest": _dg(0)}), {"suit-condition-image-match": []}]}],
    20: "next-sequence",   # what follows goes into suit-install, what came before stays in suit-validate
    21: [{"suit-directive-set-component-index": [0, 1]}],
    22: [{"suit-directive-set-component-index": False}],
}


def program_desc(prog, k):
    import copy
    seqs = [[]]
    for m in prog:
        if MACROS[m] == "next-sequence":
            seqs.append([])
        else:
            seqs[-1] += copy.deepcopy(MACROS[m])
    mf = {"suit-manifest-version": 1, "suit-manifest-sequence-number": k,
          "suit-common": {"suit-components": [["M", 2, 1000, 64], ["M", 3, 2000, 64]]}}
    if len(seqs) == 1:
        mf["suit-install"] = seqs[0]
    else:   # the walker (and a device) meets suit-validate before suit-install
        mf["suit-validate"], mf["suit-install"] = seqs
    return {"SUIT_Envelope_Tagged": {
        "suit-authentication-wrapper": {"SuitDigest": {"suit-digest-algorithm-id": "cose-alg-sha-256"}},
        "suit-manifest": mf,
        "suit-integrated-payloads": {"#p": None}}}   # the path is filled in by the caller


# ---- the verifier's own walk of an envelope: events for Device_Trace ------------------------------------------------------------
def _idx(arg):
    if arg.mt == 0:
        return [arg.val]
    if arg.mt == 4:
        return [x.val if x.mt == 0 else 10 ** 6 for x in arg.val]
    if arg.mt == 7:
        return [-1] if arg.val is True else []
    return [10 ** 6]


def _cmd(code, arg, t):
    e = {"code": code, "idx": [], "ps": [], "uri": -1, "dg": -1, "size": -1, "src": -1, "cval": -1}
    if code == 12:
        e["idx"] = _idx(arg)
    elif code in (19, 20) and arg is not None and arg.mt == 5:
        for k, v in arg.val:
            if k.mt != 0:
                continue
            e["ps"].append(k.val)
            if k.val == 21 and v.mt == 3:
                e["uri"] = t.id(v.val)
            elif k.val == 3:
                inner = seqwalk.unwrap(v)
                e["dg"] = -2
                if inner is not None and inner.mt == 4 and len(inner.val) == 2 and inner.val[1].mt == 2 and inner.val[0].mt in (0, 1):
                    p = t.pre(inner.val[0].val, inner.val[1].val)
                    e["dg"] = p if p >= 0 else -2
            elif k.val == 14 and v.mt == 0:
                e["size"] = v.val if v.val < 2 ** 31 else 2 ** 31 - 1
            elif k.val == 22 and v.mt == 0:
                e["src"] = v.val if v.val < 10 ** 6 else 10 ** 6
            elif k.val == 18 and v.mt == 2:
                e["cval"] = t.id(v.val)
    return e


def _walk(tr, seq_item, t, depth=0):
    if seq_item is None or seq_item.mt != 4 or len(seq_item.val) % 2:
        return
    v = seq_item.val
    for i in range(0, len(v), 2):
        code = v[i].val if v[i].mt in (0, 1) else -1
        arg = v[i + 1]
        tr.ev("Cmd", **_cmd(code, arg, t))
        if code == 15 and arg.mt == 4:
            for alt in arg.val:
                tr.ev("Alt")
                _walk(tr, seqwalk.unwrap(alt), t, depth + 1)
            tr.ev("EndTry")
        elif code == 32:
            _walk(tr, seqwalk.unwrap(arg), t, depth + 1)


def device_events(tr, data: bytes, scn, known=()):
    """Begin / Header / per sequence: Seq, shared commands, the sequence's commands."""
    t = tr.terms
    env = project.Env(data)
    for b in known:
        t.id(b)
    integ, lens, mfs = [], {}, []
    for name, v in env.payloads:
        if v.mt == 2:
            cid = t.id(v.val)
            integ.append([t.id(name), cid])
            lens[cid] = len(v.val)
            try:   # a member that is itself an envelope: its digest is the digest of its wrapped manifest
                mfs.append([cid, t.id(project.Env(v.val).mf_wrapped)])
            except (project.ProjectionError, ValueError):
                pass
    for b in known:
        lens[t.id(b)] = len(b)
    comps, deps, _ = seqwalk.manifest_steps(env)
    severed = {k.val: v for k, v in env.members if k.mt == 0}
    m = env.manifest
    common = seqwalk.unwrap(m.get(3)) if m.get(3) is not None else None
    shared = None
    if common is not None and common.mt == 5 and common.get(4) is not None:
        shared = seqwalk.unwrap(common.get(4))
    tr.begin(scn, ncomp=len(comps), deps=sorted(k for k in deps if isinstance(k, int)), integ=integ,
             lens=[[k, n] for k, n in sorted(lens.items())], mf=mfs)
    tr.ev("Header")
    n = 0
    for key, name in seqwalk.SEQ_KEYS.items():
        it = m.get(key)
        if it is None:
            continue
        body = seqwalk.unwrap(it) if it.mt == 2 else seqwalk.unwrap(severed[key]) if it.mt == 4 and key in severed else None
        if body is None:
            continue
        tr.ev("Seq", name=name)
        _walk(tr, shared, t)
        _walk(tr, body, t)
        n += 1
    return n


def keyfn(b, s):
    return f"{b['clause']}:{json.dumps(core.jsonable(s), sort_keys=True)[:200]}"


def run(ctx: core.Check):
    ctx.cov["rule"] = ("Device_MC programs (<= 3 macros exhaustive; printed: <= 2 exhaustive + simulation to 6) x library / CLI create; "
                       "repository examples; generator shapes; seeded grammar descriptions")
    ctx.mc("Device_MC", "Device_MC.cfg", required_actions=("Next",))
    scns = ctx.mc("Device_MC", "Device_Gen.cfg", label="B:scenarios", workers=1, coverage=False).tagged("SCN")
    sim = ctx.mc("Device_MC", "Device_Sim.cfg", label="B:scenarios (simulation)", workers=1, coverage=False,
                 simulate=f"num={150 if ctx.quick else 3000}", depth=8, seed=ctx.seed).tagged("SCN")
    seen, progs = set(), []
    for s in scns + sim:
        k = tuple(s["prog"])
        if k and k not in seen:
            seen.add(k)
            progs.append(s)
    ctx.note(f"Use B: {len(progs)} distinct programs printed by TLC")
    d = ctx.tmp("g07")
    pay = d / "p.bin"
    pay.write_bytes(BLOB[0])
    tr = toolrun.Trace()
    expect = {}
    for k, s in enumerate(progs):
        desc = program_desc(s["prog"], k + 1)
        desc["SUIT_Envelope_Tagged"]["suit-integrated-payloads"]["#p"] = str(pay)
        via = "lib" if k % 7 else ("yaml" if k % 2 else "json")
        data = toolrun.create_lib(desc) if via == "lib" else toolrun.create_cli(desc, d, fmt=via)
        scn = {"origin": "Device_MC", "prog": s["prog"], "via": via}
        if data is None:
            ctx.violation(key=f"refused:{s['prog']}", what=f"create refused the description of program {s['prog']}", replay={"scenario": scn})
            continue
        device_events(tr, data, scn, known=BLOB)
        # ids as the model numbers them: content k of the model = BLOB[k]
        back = {tr.terms.id(BLOB[0]): 0, tr.terms.id(BLOB[1]): 1}
        for e in tr.of(tr.tid):
            if e["ev"] == "Begin":
                e["integ"] = [[0 if x[0] == tr.terms.id("#p") else x[0] + 100, back.get(x[1], x[1] + 100)] for x in e["integ"]]
                e["lens"] = [[back.get(x[0], x[0] + 100), x[1]] for x in e["lens"]]
            elif e["ev"] == "Cmd":
                for f in ("dg", "cval"):
                    if e[f] >= 0:
                        e[f] = back.get(e[f], e[f] + 100)
                if e["uri"] >= 0:
                    e["uri"] = 0 if e["uri"] == tr.terms.id("#p") else e["uri"] + 100
        if s["verdict"] == "ok":
            tr.ev("Expect", content=s["content"], set=s["set"])
        expect[tr.tid] = (s["verdict"], s["at"] + 2 if s["verdict"] != "ok" else 0)
        ctx.count("evaluations")
        ctx.nontriv(("prog", tuple(s["prog"])))
        if k == 40:
            ctx.sample({"program": s, "events": tr.of(tr.tid)[:8]})
    bad = ctx.validate("Device_Trace", "Device_Trace.cfg", tr.events, label="programs")
    got = {b["tid"]: (b["clause"], b["i"]) for b in bad}
    drift = 0
    for tid, (v, at) in expect.items():
        g = got.get(tid, ("ok", 0))
        if g != (v, at):
            drift += 1
            scn = tr.scn[tid]
            ctx.violation(key=f"means:{scn['prog']}",
                          what=f"the envelope created for program {scn['prog']} means something else to a device than its description: "
                               f"model predicts {v}@{at}, the created envelope gives {g[0]}@{g[1]}",
                          replay={"scenario": scn, "predicted": [v, at], "observed": list(g), "events": tr.of(tid)[:14]})
    ctx.cov["programs_rejected_as_predicted"] = sum(1 for v, _ in expect.values() if v != "ok")
    ctx.cov["drift_model_vs_code"] = drift

    # ---- Use C: what the repository ships and what the other checks generate ---------------------------------------------------
    import yaml
    tr = toolrun.Trace()
    ex = core.REPO / "examples" / "input_files"
    wd = d / "examples"
    wd.mkdir()
    fw = envgen.blob(1000, 7)
    (wd / "file.bin").write_bytes(fw)
    for f in ("envelope_1.yaml", "envelope_1.json"):
        if not (ex / f).exists():
            continue
        desc = yaml.safe_load((ex / f).read_text()) if f.endswith("yaml") else json.loads((ex / f).read_text())
        cwd = os.getcwd()
        os.chdir(wd)
        try:
            data = toolrun.create_lib(desc)
        except Exception as e:
            ctx.observe(f"example {f}: create raised {type(e).__name__}")
            data = None
        finally:
            os.chdir(cwd)
        if data:
            n = device_events(tr, data, {"origin": "example", "file": f}, known=[fw])
            ctx.nontriv(("example", f, n))
            ctx.count("evaluations")
    # the NCS templates, rendered for every configuration Template_MC enumerates (C19's driver, the created envelope handed over)
    from . import c19_templates
    g = ctx.mc("Template_MC", "Template_MC.cfg", workers=1, coverage=False, label="B:configuration enumeration")
    cfgs = g.tagged("SCN")
    for s_ in cfgs:
        s_["present"] = [x for x in ("radio", "application", "top", "secdom", "sysctrl") if x in s_["present"]]
    build = c19_templates.build_mod()
    ptr = toolrun.Trace()

    def sink(out, scn, via):
        for path, lvl in toolrun.levels(out)[:1]:
            device_events(tr, lvl, {"origin": "template", "scn": scn, "via": via})
            ctx.count("evaluations")
            ctx.nontriv(("template", json.dumps(scn, sort_keys=True)))
    for k, s_ in enumerate(cfgs):
        c19_templates.run_config(ctx, ptr, build, s_, 2 * k + 2, "lib", sink=sink)
    bad = toolrun.report(ctx, tr, module="Device_Trace", label="shipped", keyfn=keyfn)
    # the generator shapes of the other checks are NOT meant to be executable manifests: how many a device would stumble over,
    # and over what, is recorded (it shows the clauses are not vacuous), never reported
    tr = toolrun.Trace()
    for k in range(80 if ctx.quick else 2000):
        sh = envgen.random_shape(ctx.rng, maxdepth=1 if k % 3 == 0 else 0, small=True)
        b = envgen.Builder(d / f"s{k}")
        try:
            desc = b.desc(sh, toolrun.create_lib)
            data = toolrun.create_lib(desc)
        except Exception as e:
            ctx.observe(f"shape: create raised {type(e).__name__}")
            continue
        for path, lvl in toolrun.levels(data):
            device_events(tr, lvl, {"origin": "shape", "level": path})
            ctx.count("evaluations")
    rej = ctx.validate("Device_Trace", "Device_Trace.cfg", tr.events, label="generator shapes (statistics only)")
    stat = {}
    for b_ in rej:
        stat[b_["clause"]] = stat.get(b_["clause"], 0) + 1
    ctx.cov["generator_shapes_a_device_would_stumble_over"] = stat


def replay(ctx, rec):
    run(ctx)
