"""Check context shared by every property check: scratch space, TLC runs, verdicts, evidence, known findings."""
from __future__ import annotations

import base64
import hashlib
import json
import os
import random
import shutil
import sys
import tempfile
import time
from pathlib import Path

from . import tlc
from .tlc import MachineryError  # noqa: F401  (re-export)

VERIF = Path(__file__).resolve().parent.parent
REPO = Path(os.environ.get("VERIF_REPO") or "/repo").resolve()   # an empty VERIF_REPO means /repo
# runs against a scratch tree (mutation testing of the machinery) never touch the committed evidence
# evidence of runs against a scratch worktree (or of exploratory runs with VERIF_EVIDENCE_DIR set) never touches /verif/evidence
EVIDENCE = (Path(os.environ["VERIF_EVIDENCE_DIR"]) if os.environ.get("VERIF_EVIDENCE_DIR")
            else VERIF / "evidence" if str(REPO) == "/repo" else Path(tempfile.gettempdir()) / "verif_mutant_evidence")
REPLAY = EVIDENCE / "replay"
KNOWN = VERIF / "known_findings.json"
PY = "/venv/bin/python"
GUARD = "SUIT_GENERATOR_VERIF"


def setup_repo_path():
    """Make `import suit_generator`, `ncs`, `build_configuration` resolve to the tree under test."""
    p = str(REPO)
    if p in sys.path:
        sys.path.remove(p)
    sys.path.insert(0, p)


def cli_env(guard: bool = False) -> dict:
    e = dict(os.environ)
    e["PYTHONPATH"] = str(REPO) + (os.pathsep + e["PYTHONPATH"] if e.get("PYTHONPATH") else "")
    if guard:
        e[GUARD] = "1"
    else:
        e.pop(GUARD, None)
    return e


# content of an output file "left behind by an earlier invocation" where no valid earlier output is used: LONGER than anything
# the tool writes in the scenarios that use it, so that a writer which does not truncate leaves a tail of it behind
STALE = b"left behind by an earlier invocation\n" * 12000


def through_link(path, on: bool):
    """When `on`: the file is renamed to t_<name> and `path` becomes a symbolic link to it - an input named through a link is the
    file the link points to (size, content), for every command that reads files."""
    from pathlib import Path
    path = Path(path)
    if on and path.is_file() and not path.is_symlink():
        target = path.with_name("t_" + path.name)
        path.rename(target)
        path.symlink_to(target.name)
    return path


def through_dotdot(path, on: bool):
    """When `on`: the file moves to <dir>/real_sub/<name>; <dir>/lnk is a symbolic link to real_sub/deep; the returned spelling
    <dir>/lnk/../<name> names the moved file for the operating system (which follows the link before it applies '..'), while a
    purely textual normalisation of it names <dir>/<name> - where a DECOY with other content is planted."""
    from pathlib import Path
    path = Path(path)
    if not on or not path.is_file() or path.is_symlink():
        return path
    d = path.parent
    (d / "real_sub" / "deep").mkdir(parents=True, exist_ok=True)
    moved = d / "real_sub" / path.name
    path.rename(moved)
    if not (d / "lnk").exists():
        (d / "lnk").symlink_to("real_sub/deep")
    path.write_bytes(b"decoy: not the file the path names " + moved.read_bytes()[:7])
    return d / "lnk" / ".." / path.name


ODD_NAMES = ["out", "build {x86}", "out_{domain}", "drop{0}", "100%s done %d", "a&b;c", "it's", "$HOME", "~tilde", "[x]*?", "out"]


def odd_name(k: int) -> str:
    """A directory / file name component the caller may legally choose: braces, per-cent signs, blanks, shell and pattern
    characters.  A path is a path - nothing in it is a format string, a pattern or mark-up."""
    return ODD_NAMES[k % len(ODD_NAMES)]


def spell(path, base, k: int) -> str:
    """One file or directory, the way a command line may name it: absolute, relative to the working directory `base`, relative
    with a leading './', and - for directories - with a trailing separator.  All spellings name the same thing."""
    import os
    path, base = str(path), str(base)
    rel = os.path.relpath(path, base)
    forms = [path, rel, "./" + rel, path]
    s_ = forms[k % 4]
    if os.path.isdir(path) and k % 3 == 1:
        s_ += "/"
    return s_


def num(v: int) -> str:
    """A number as the command line / a configuration file may spell it: the notation (0x.. hex, decimal, 0o.. octal, 0b.. binary)
    is free wherever the tool reads integers with base 0, so it varies with the value."""
    if v < 0:
        return str(v)
    # the choice is spread by a multiplicative hash: it must not be tied to the low bits (= the last digits) of the value
    forms = [hex, str, lambda x: "0x%X" % x, hex, oct, str, lambda x: "0X%x" % x, bin,
             lambda x: "0B" + format(x, "_b"), lambda x: "0O" + format(x, "o"), lambda x: format(x, "_d"), lambda x: "0x" + format(x, "_x")]
    return forms[((v * 2654435761) >> 11) % len(forms)](v)


def cli_cmd(*args) -> list:
    """The real CLI of the tree under test."""
    return [PY, str(REPO / "suit_generator" / "cli.py"), *[str(a) for a in args]]


class Interner:
    """Equal bytes <=> equal small integer id (per scenario batch)."""

    def __init__(self):
        self.ids = {}
        self.rev = []

    def id(self, b) -> int:
        if isinstance(b, str):
            b = b"S:" + b.encode("utf-8", "surrogatepass")
        else:
            b = b"B:" + bytes(b)
        k = hashlib.sha256(b).digest()
        if k not in self.ids:
            self.ids[k] = len(self.rev)
            self.rev.append(b[2:])
        return self.ids[k]


def jsonable(o):
    if isinstance(o, (bytes, bytearray)):
        return {"b64": base64.b64encode(bytes(o)).decode()}
    if isinstance(o, dict):
        return {str(k): jsonable(v) for k, v in o.items()}
    if isinstance(o, (list, tuple)):
        return [jsonable(v) for v in o]
    if isinstance(o, set):
        return sorted(jsonable(v) for v in o)
    if isinstance(o, Path):
        return str(o)
    return o


class Check:
    def __init__(self, pid: str, tier: str, seed: int, level: str = "model_checking"):
        self.pid, self.tier, self.seed, self.level = pid, tier, seed, level
        self.rng = random.Random(f"{pid}:{seed}")
        self.t0 = time.time()
        self.scratch = Path(tempfile.mkdtemp(prefix=f"verif_{pid}_"))
        self.cov = {
            "states": 0,
            "transitions": 0,
            "traces_validated_against_impl": 0,
            "trace_events": 0,
            "evaluations": 0,
            "distinct_nontrivial": 0,
            "rule": "",
            "samples": [],
            "tlc_runs": [],
            "action_coverage": {},
            "observations": [],
        }
        self.nontrivial = set()
        self.assumptions = []
        self.violations = 0
        self.known_hits = []
        self.known = [k for k in self._load_known() if k.get("property") == pid]
        self.known_seen = set()
        self._vio_keys = set()
        self.quick = tier == "quick"

    # ------------------------------------------------------------------------------------------------------------
    @staticmethod
    def _load_known():
        if KNOWN.exists():
            return json.loads(KNOWN.read_text()).get("findings", [])
        return []

    def tmp(self, name: str = "") -> Path:
        d = Path(tempfile.mkdtemp(prefix=(name or "d") + "_", dir=self.scratch))
        return d

    def note(self, msg: str):
        print(f"[{self.pid}] {msg}", flush=True)

    def observe(self, msg: str):
        if msg not in self.cov["observations"]:
            self.cov["observations"].append(msg)

    def sample(self, s, limit: int = 6):
        if len(self.cov["samples"]) < limit:
            self.cov["samples"].append(jsonable(s))

    def count(self, key: str, n: int = 1):
        self.cov[key] = self.cov.get(key, 0) + n

    def nontriv(self, key):
        self.nontrivial.add(key if isinstance(key, (str, int, tuple)) else json.dumps(jsonable(key), sort_keys=True))

    # ------------------------------------------------------------------------------------------------------------
    # Use A: model checking
    def mc(self, module: str, cfg: str, *, required_actions=(), label=None, **kw) -> tlc.TlcResult:
        kw.setdefault("workers", 16)
        kw.setdefault("coverage", True)
        r = tlc.run_tlc(module, cfg, **kw)
        tlc.require_ok(r, f"{module}/{cfg}")
        self.cov["states"] += r.distinct
        self.cov["transitions"] += r.generated
        self.cov["tlc_runs"].append(
            {"module": module, "cfg": cfg, "distinct": r.distinct, "generated": r.generated, "depth": r.depth,
             "wall_s": round(r.wall_s, 1), "use": label or "A:model-check"}
        )
        for a, (d, t) in r.coverage.items():
            od, ot = self.cov["action_coverage"].get(f"{module}.{a}", (0, 0))
            self.cov["action_coverage"][f"{module}.{a}"] = (od + d, ot + t)
        for a in required_actions:
            if r.coverage.get(a, (0, 0))[1] == 0:
                raise MachineryError(f"vacuous model run: action {a} of {module} was never taken")
        return r

    # Use C: trace validation.  events: list of dicts with tid/i/ev.  Returns list of {tid,i,clause}.
    def validate(self, module: str, cfg: str, events: list, *, label: str = "", timeout: int = 900,
                 java_opts=None) -> list:
        if not events:
            return []
        f = self.scratch / f"trace_{module}_{len(self.cov['tlc_runs'])}.ndjson"
        with open(f, "w") as fh:
            for e in events:
                fh.write(json.dumps(e, separators=(",", ":")) + "\n")
        if os.environ.get("VERIF_SAVE_TRACES"):   # tools/clausecov.py collects genuine traces this way
            keep = Path(os.environ["VERIF_SAVE_TRACES"])
            keep.mkdir(parents=True, exist_ok=True)
            shutil.copyfile(f, keep / f"{self.pid}_{module}_{cfg}_{len(self.cov['tlc_runs'])}.ndjson")
        r = tlc.run_tlc(module, cfg, workers=1, env={"TRACE_FILE": str(f)}, timeout=timeout, java_opts=java_opts)
        if not r.ok:
            tail = "\n".join(r.out.splitlines()[-40:])
            raise MachineryError(f"trace validation run failed ({module}): {tail}")
        bad = r.tagged("BAD")
        if len(bad) != 1:
            raise MachineryError(f"trace validation printed {len(bad)} verdict lines ({module})\n{r.out[-2000:]}")
        n_scn = sum(1 for e in events if e.get("ev") == "Begin")
        self.cov["traces_validated_against_impl"] += n_scn
        self.cov["trace_events"] += len(events)
        self.cov["tlc_runs"].append(
            {"module": module, "cfg": cfg, "distinct": r.distinct, "generated": r.generated,
             "wall_s": round(r.wall_s, 1), "use": "C:trace-validation " + label, "scenarios": n_scn,
             "events": len(events), "rejected": len(bad[0])}
        )
        try:
            f.unlink()
        except OSError:
            pass
        return bad[0]

    # ------------------------------------------------------------------------------------------------------------
    def violation(self, key: str, what: str, replay: dict):
        """Report one violation.  `key` identifies the failing input/site (matched against known findings)."""
        for k in self.known:
            if k.get("status") == "known" and k.get("match", {}).get("key") == key:
                if k["id"] not in self.known_seen:
                    self.known_seen.add(k["id"])
                    print(f"KNOWN-FINDING: property={self.pid} {k['id']}: {k['what']}", flush=True)
                self.known_hits.append(k["id"])
                return
        if key in self._vio_keys:
            return
        self._vio_keys.add(key)
        self.violations += 1
        REPLAY.mkdir(parents=True, exist_ok=True)
        path = REPLAY / f"{self.pid}-{self.violations}.json"
        rec = {"property": self.pid, "key": key, "what": what, "tier": self.tier, "seed": self.seed,
               "replay": jsonable(replay)}
        path.write_text(json.dumps(rec, indent=1))
        print(f"[{self.pid}] violation: {what}", flush=True)
        print(f"VIOLATION property={self.pid} replay={path}", flush=True)

    def stale_known(self):
        for k in self.known:
            if k.get("status") == "known" and k["id"] not in self.known_seen and k.get("pinned", True):
                print(f"NOTE known finding {k['id']} did not reproduce in this run", flush=True)

    # ------------------------------------------------------------------------------------------------------------
    def finish(self) -> int:
        self.stale_known()
        self.cov["distinct_nontrivial"] = len(self.nontrivial)
        ev = {
            "property_id": self.pid,
            "tier": self.tier,
            "seed": self.seed,
            "level": self.level,
            "coverage": jsonable(self.cov),
            "assumptions": self.assumptions,
            "wall_s": round(time.time() - self.t0, 2),
            "violations": self.violations,
            "known_findings_hit": sorted(set(self.known_hits)),
        }
        edir = EVIDENCE if self.pid.startswith("C") else EVIDENCE / "growth"   # growth checks are not listed properties
        edir.mkdir(parents=True, exist_ok=True)
        (edir / f"{self.pid}.json").write_text(json.dumps(ev, indent=1))
        shutil.rmtree(self.scratch, ignore_errors=True)
        st = "HELD" if self.violations == 0 else f"{self.violations} VIOLATION(S)"
        print(f"[{self.pid}] {st}; tier={self.tier} seed={self.seed} states={self.cov['states']} "
              f"traces={self.cov['traces_validated_against_impl']} evaluations={self.cov['evaluations']} "
              f"nontrivial={len(self.nontrivial)} wall={ev['wall_s']}s", flush=True)
        return 0 if self.violations == 0 else 1

    def abort(self):
        shutil.rmtree(self.scratch, ignore_errors=True)
