"""UUIDv5 (RFC 4122 name-based, SHA-1) computed with hashlib only — independent of the uuid module."""
import hashlib

NAMESPACE_DNS = bytes.fromhex("6ba7b8109dad11d180b400c04fd430c8")


def uuid5(namespace: bytes, name: str) -> bytes:
    h = bytearray(hashlib.sha1(namespace + name.encode("utf-8")).digest()[:16])
    h[6] = (h[6] & 0x0F) | 0x50
    h[8] = (h[8] & 0x3F) | 0x80
    return bytes(h)


def vendor_id(vendor: str) -> bytes:
    return uuid5(NAMESPACE_DNS, vendor)


def class_id(vendor: str, cls: str) -> bytes:
    return uuid5(vendor_id(vendor), cls)
