"""C19 - NCS templates yield consistent dependency wiring for every image set.

Use A  Template_MC: the index bookkeeping of the root template as a model, for every non-empty image subset, judged by the
       Processor judges (an index off by one for one subset is a counterexample).
Use B  the complete configuration space (7 subsets x default/custom MPI names x version settings for the root template;
       the top template's image set x version settings) is emitted by TLC and replayed: real Jinja rendering through
       ncs/build.py render_template, real create with generated child envelopes.
Use C  the resulting envelope is flattened with the verifier's manifest walker into Header / Cmd events and judged by
       Processor_Trace (IndexDeclared, DependenciesAreManifestComponents, FetchResolves,
       ParentDigestEqualsChildManifestDigest, InstalledClassIdsAreConfiguredNames).
"""
from __future__ import annotations

import json

from . import core, envgen, project, seqwalk, toolrun, uuid5

REMOTE = 1000000
DEFAULT_NAMES = {"root": ("nordicsemi.com", "nRF54H20_sample_root"), "application": ("nordicsemi.com", "nRF54H20_sample_app"),
                 "radio": ("nordicsemi.com", "nRF54H20_sample_rad"), "top": ("nordicsemi.com", "nRF54H20_nordic_top"),
                 "secdom": ("nordicsemi.com", "nRF54H20_sec"), "sysctrl": ("nordicsemi.com", "nRF54H20_sys")}
CUSTOM_NAMES2 = {"root": ("R&D.acme.example", "acme_root_<v2>"), "application": ("Tom's & Co", "app>1"), "radio": ("a&b", "it's <radio>")}
CUSTOM_NAMES = {"root": ("ACME Corp", "acme root"), "application": ("ACME Corp", "acme app"), "radio": ("zażółć.example", "radio ü")}


def build_mod():
    core.setup_repo_path()
    import importlib.util

    spec = importlib.util.spec_from_file_location("verif_ncs_build19", str(core.REPO / "ncs" / "build.py"))
    m = importlib.util.module_from_spec(spec)
    spec.loader.exec_module(m)
    return m


def child_envelope(ctx, d, k, vendor, cls, fname):
    sh = envgen.random_shape(ctx.rng, maxdepth=0, small=True)
    sh.update({"pad": None, "deps": [], "cid": [["first", "mid", "last"][k % 3], vendor, cls], "seq": k})
    b = envgen.Builder(d / f"c{k}")
    data = toolrun.create_lib(b.desc(sh, toolrun.create_lib))
    (d / fname).write_bytes(data)
    return data


def comp_kind(item):
    """component identifier (array of bstr) -> (kind, class uuid bytes)"""
    if item.mt != 4 or not item.val:
        return "other", b""
    first = item.val[0]
    kind = "other"
    if first.mt == 2:
        inner = seqwalk.unwrap(first)
        if inner is not None and inner.mt == 3 and inner.val in ("CAND_MFST", "INSTLD_MFST"):
            kind = inner.val
    cid = item.val[-1].val if len(item.val) > 1 and item.val[-1].mt == 2 else b""
    return kind, cid


def flatten(tr, data: bytes, names: list):
    """names: configured (vendor, class) pairs; term n<k> = class id of the k-th pair (1-based)."""
    t = tr.terms
    table = {uuid5.class_id(v, c): f"n{k + 1}" for k, (v, c) in enumerate(names)}
    env = project.Env(data)
    comps, deps, steps = seqwalk.manifest_steps(env, {k.val: v for k, v in env.members if k.mt == 0})
    hcomps = []
    for c in comps:
        kind, cid = comp_kind(c)
        hcomps.append([kind, table.get(cid, "?")])
    integ = []
    for name, v in env.payloads:
        if v.mt != 2:
            continue
        try:
            ce = project.Env(v.val)
        except Exception:
            continue
        ccid = b""
        ci = ce.manifest_get(5)
        if ci is not None:
            ccid = comp_kind(ci)[1]
        integ.append([t.id(name), t.id(ce.mf_wrapped), table.get(ccid, "?")])
    hdr = {"comps": hcomps, "deps": sorted(k for k in deps if isinstance(k, int)), "integ": integ,
           "allowed": [f"n{k + 1}" for k in range(len(names))]}
    cmds = []
    for seq, code, arg, depth in steps:
        c = {"seq": seq, "code": code, "idx": [], "uri": -1, "dg": -1}
        if code == 12 and arg is not None:
            if arg.mt == 0:
                c["idx"] = [arg.val]
            elif arg.mt == 7 and arg.val is True:
                c["idx"] = [-1]
            elif arg.mt == 4:
                c["idx"] = [x.val if x.mt == 0 else 99999 for x in arg.val]
        if code in (19, 20) and arg is not None and arg.mt == 5:
            u = arg.get(21)
            if u is not None and u.mt == 3:
                c["uri"] = t.id(u.val) + (0 if u.val.startswith("#") else REMOTE)
            dg = arg.get(3)
            if dg is not None:
                inner = seqwalk.unwrap(dg)
                if inner is not None and inner.mt == 4 and len(inner.val) == 2 and inner.val[1].mt == 2:
                    p = t.pre(inner.val[0].val, inner.val[1].val) if inner.val[0].val in project.HASH_ALGS else -1
                    c["dg"] = p if p >= 0 else -2
                else:
                    c["dg"] = -2
        cmds.append(c)
    return hdr, cmds


def run_config(ctx, tr, build, scn, k, via, shared=None, sink=None):
    # odd k: ONE artifacts folder for the whole run, children regenerated under the SAME file names (what an incremental build
    # does); even k: a fresh folder and names that carry k
    d = shared if (shared is not None and k % 2) else ctx.tmp("c19")
    if k % 4 == 0:   # a fresh folder whose path carries characters that mark-up or shell processing would treat specially
        d = d / "R&D <build> it's"
        d.mkdir()
    art = str(d) + "/"
    data = {"artifacts_folder": art, "sysbuild": {"config": {}}}
    names = []
    if scn["tmpl"] == "root":
        cust = scn["custom"]
        table = CUSTOM_NAMES2 if k % 3 == 0 else CUSTOM_NAMES   # names are arbitrary text: every third custom set is punctuated
        pick = lambda r: (table if cust and r in table else DEFAULT_NAMES)[r]  # noqa: E731
        if cust:
            for role, r in (("ROOT", "root"), ("APP_LOCAL_1", "application"), ("RAD_LOCAL_1", "radio")):
                data["sysbuild"]["config"][f"SB_CONFIG_SUIT_MPI_{role}_VENDOR_NAME"] = pick(r)[0]
                data["sysbuild"]["config"][f"SB_CONFIG_SUIT_MPI_{role}_CLASS_NAME"] = pick(r)[1]
        for n, img in enumerate(("radio", "application", "top")):
            names.append(pick(img))
            if img in scn["present"]:
                nm = {"radio": "rad", "application": "app", "top": "nordic_top"}[img] + ("" if k % 2 else f"_{k}")
                if via == "build":
                    nm = img   # the build-system entry point names an image after its --core entry
                data[img] = {"name": nm}
                child_envelope(ctx, d, 10 * k + n, *pick(img), f"{nm}.suit")
        template = core.REPO / "ncs" / "root_with_nordic_top_envelope.yaml.jinja2"
        vkeys = ("APP_ROOT_SEQ_NUM", "APP_ROOT_VERSION")
    else:
        for n, img in enumerate(("secdom", "sysctrl")):
            names.append(DEFAULT_NAMES[img])
            nm = {"secdom": "secdom", "sysctrl": "sysctrl"}[img] + ("" if k % 2 else f"_{k}")
            if via == "build":
                nm = img
            data[img] = {"name": nm}
            child_envelope(ctx, d, 10 * k + n, *DEFAULT_NAMES[img], f"{nm}.suit")
        template = core.REPO / "ncs" / "nordic_top_envelope.yaml.jinja2"
        vkeys = ("NORDIC_TOP_SEQ_NUM", "NORDIC_TOP_VERSION")
    if scn["vers"] == "default":
        data["DEFAULT_SEQ_NUM"] = 16909060
        data["DEFAULT_VERSION"] = "1.2.3-rc.4"
    elif scn["vers"] == "specific":
        data["DEFAULT_SEQ_NUM"] = 5
        data["DEFAULT_VERSION"] = "9.9.9"
        data[vkeys[0]] = 2**32 - 1
        data[vkeys[1]] = "2.0.0-alpha"
    tr.begin({"scn": scn, "via": via}, comps=[], deps=[], integ=[], allowed=[])
    out = None
    err = ""
    try:
        import yaml

        if via == "build":
            text = render_by_build_cli(d, art, template, data, scn, vkeys)
        else:
            text = build.render_template(str(template), data)
        desc = yaml.safe_load(text)
        out = toolrun.create_lib(desc) if via == "lib" else toolrun.create_cli(desc, d, fmt="yaml")
    except Exception as e:
        err = repr(e)[:200]
    tr.ev("Created", ok=out is not None, err=err)
    if out is None:
        return
    if sink is not None:   # other checks (G07) look at the created envelope too
        sink(out, scn, via)
    hdr, cmds = flatten(tr, out, names)
    tr.events[-2].update(hdr)  # the Begin event carries the header
    tr.ev("Header")
    for c in cmds:
        tr.ev("Cmd", **c)
    ctx.count("evaluations")
    ctx.nontriv(json.dumps(scn, sort_keys=True))
    if scn["tmpl"] == "root" and scn["present"] == ["top"]:
        ctx.observe("O5: for the image subset {top only} the validate and invoke sequences select the EMPTY component list "
                    "(set-component-index []), which the CDDL ([+ uint]) does not allow; the wiring conjuncts are vacuous there")


def render_by_build_cli(d, art, template, data, scn, vkeys) -> str:
    """The same configuration through the build system's command line: `ncs/build.py template` with one --core entry per image
    (no binary, no devicetree), the sysbuild Kconfig file and a VERSION file."""
    import subprocess
    dummy = d / "image.config"
    dummy.write_text("CONFIG_VERIF=y\n")
    sysb = d / "sysbuild.config"
    # live assignments, each followed by a commented-out old value of the same symbol; symbols that are not configured at all are
    # mentioned in comments only
    live = data["sysbuild"]["config"]
    text = "".join(f'{k_}="{v_}"\n# {k_}="commented out"\n' for k_, v_ in live.items()) or "CONFIG_NONE=y\n"
    for role in ("ROOT", "APP_LOCAL_1", "RAD_LOCAL_1"):
        for what in ("VENDOR_NAME", "CLASS_NAME"):
            if f"SB_CONFIG_SUIT_MPI_{role}_{what}" not in live:
                text += f'# SB_CONFIG_SUIT_MPI_{role}_{what}="only in a comment"\n'
    sysb.write_text(text)
    a = [core.PY, str(core.REPO / "ncs" / "build.py"), "template", "--core", f"sysbuild,,,{sysb}"]
    for img in ("radio", "application", "top", "secdom", "sysctrl"):
        if img in data:
            a += ["--core", f"{img},,,{dummy}"]
    outy = d / "rendered.yaml"
    a += ["--zephyr-base", str(d), "--artifacts-folder", art, "--template-suit", str(template), "--output-suit", str(outy)]
    if scn["vers"] != "none":
        vf = d / "VERSION"
        lines = ["VERSION_MAJOR = 1", "VERSION_MINOR = 2", "PATCHLEVEL = 3", "VERSION_TWEAK = 4", "EXTRAVERSION = rc.4"]
        if scn["vers"] == "specific":
            lines += [f"{vkeys[0]} = {2**32 - 1}", f"{vkeys[1]} = 2.0.0-alpha"]
        vf.write_text("\n".join(lines) + "\n")
        a += ["--version_file", str(vf)]
    if outy.exists():
        outy.unlink()
    p = subprocess.run(a, cwd=d, env=core.cli_env(), capture_output=True, text=True)
    if not outy.exists():
        raise RuntimeError("build.py template wrote nothing: " + p.stderr[-200:])
    return outy.read_text()


def run(ctx: core.Check):
    ctx.cov["rule"] = ("configuration = template x image subset x default/custom MPI names x version setting {none, DEFAULT_*, "
                       "template-specific}: 42 + 3 configurations enumerated completely by TLC; child envelopes are generated "
                       "(sampled shapes); every second configuration is built in ONE shared artifacts folder with the children "
                       "regenerated under the same file names. Distinct & non-trivial = every configuration.")
    g = ctx.mc("Template_MC", "Template_MC.cfg", workers=1, coverage=False, label="A:model-check + B:configuration enumeration")
    scns = g.tagged("SCN")
    for s in scns:
        s["present"] = [x for x in ("radio", "application", "top", "secdom", "sysctrl") if x in s["present"]]
    build = build_mod()
    tr = toolrun.Trace()
    ctx.rng.shuffle(scns)   # TLC's enumeration order is periodic: the modulo selectors below (entry point, shared folder) must not alias with it
    reps = 1 if ctx.quick else 12
    k = 0
    shared = ctx.tmp("c19shared")
    for rep in range(reps):
        for s in scns:
            k += 1
            run_config(ctx, tr, build, s, k, "cli" if k % 9 == 0 else ("build" if k % 9 == 4 else "lib"), shared=shared)
            if k == 5:
                ctx.sample({"configuration": s, "events": tr.of(tr.tid)[:12]})
    ctx.cov["exhaustive"] = True
    toolrun.report(ctx, tr, module="Processor_Trace", label="templates", keyfn=lambda b, s: f"{b['clause']}:{json.dumps(s['scn'], sort_keys=True)}")
    ctx.assumptions += ["the configuration space is enumerated completely; child envelopes are sampled", "own manifest walker, "
                        "UUIDv5 and hashlib", "a digest parameter is compared at image-match with the dependency fetched in the "
                        "same sequence, or - when nothing was fetched - with the integrated dependency of the same class"]


def replay(ctx, rec):
    scn = rec["replay"]["scenario"]
    tr = toolrun.Trace()
    # a configuration of the shared-folder history is replayed after one other configuration has used the folder
    shared = ctx.tmp("c19shared")
    build = build_mod()
    run_config(ctx, toolrun.Trace(), build, dict(scn["scn"]), 3, "lib", shared=shared)
    run_config(ctx, tr, build, scn["scn"], 1, scn.get("via", "lib"), shared=shared)
    ctx.nontriv("replay")
    ctx.nontriv("replay2")
    ctx.sample({"replayed": scn})
    toolrun.report(ctx, tr, module="Processor_Trace", label="replay")
