"""Strict, span-preserving CBOR reader and a small deterministic encoder.

Independent of cbor2 (the library the tool under test uses).  The reader returns `Item` trees that keep the
byte span of every item, the head width actually used, and whether the length was indefinite, so that the
projection can (a) hash exactly the bytes that sit in an artifact and (b) judge shortest-form / definite-length
encoding where a property demands it.
"""
from __future__ import annotations

import struct
from dataclasses import dataclass, field
from typing import Any, List, Tuple


class CborError(ValueError):
    pass


@dataclass
class Item:
    mt: int  # major type 0..7
    val: Any  # int for 0/1, bytes for 2, str for 3, list[Item] for 4, list[(Item,Item)] for 5, Item for 6 (tag in .tag), simple/float for 7
    start: int
    end: int
    head: int  # number of head bytes (1,2,3,5,9)
    shortest: bool  # head is in shortest form
    indef: bool = False
    tag: int | None = None
    raw: bytes = field(default=b"", repr=False)  # the complete encoded item

    # ---- convenience -------------------------------------------------------------------------------------------
    @property
    def kind(self) -> str:
        return ["uint", "nint", "bstr", "tstr", "arr", "map", "tag", "simple"][self.mt]

    def py(self):
        """Plain python value (maps as list of pairs to keep order and duplicates)."""
        if self.mt in (0, 1, 2, 3):
            return self.val
        if self.mt == 4:
            return [i.py() for i in self.val]
        if self.mt == 5:
            return [(k.py(), v.py()) for k, v in self.val]
        if self.mt == 6:
            return ("tag", self.tag, self.val.py())
        return self.val

    def get(self, key):
        """Map lookup by python key value; returns Item or None (first match)."""
        assert self.mt == 5
        for k, v in self.val:
            if k.mt in (0, 1, 2, 3) and k.val == key and (type(k.val) is type(key)):
                return v
        return None

    def keys(self):
        assert self.mt == 5
        return [k.val for k, _ in self.val]

    def all_canonical(self) -> bool:
        """Every head shortest form and every length definite, recursively (not looking inside bstr)."""
        if not self.shortest or self.indef:
            return False
        if self.mt == 4:
            return all(i.all_canonical() for i in self.val)
        if self.mt == 5:
            return all(k.all_canonical() and v.all_canonical() for k, v in self.val)
        if self.mt == 6:
            return self.val.all_canonical()
        return True


def _head(data: bytes, pos: int) -> Tuple[int, int, int | None, int, bool]:
    """Return (major, info, argument or None for indefinite, head_len, shortest)."""
    if pos >= len(data):
        raise CborError(f"truncated at {pos}")
    ib = data[pos]
    mt, ai = ib >> 5, ib & 31
    if ai < 24:
        return mt, ai, ai, 1, True
    if ai == 24:
        if pos + 2 > len(data):
            raise CborError("truncated head")
        v = data[pos + 1]
        return mt, ai, v, 2, (v >= 24) if mt != 7 else (v >= 32)
    if ai == 25:
        if pos + 3 > len(data):
            raise CborError("truncated head")
        v = struct.unpack(">H", data[pos + 1 : pos + 3])[0]
        return mt, ai, v, 3, v > 0xFF if mt != 7 else True
    if ai == 26:
        if pos + 5 > len(data):
            raise CborError("truncated head")
        v = struct.unpack(">L", data[pos + 1 : pos + 5])[0]
        return mt, ai, v, 5, v > 0xFFFF if mt != 7 else True
    if ai == 27:
        if pos + 9 > len(data):
            raise CborError("truncated head")
        v = struct.unpack(">Q", data[pos + 1 : pos + 9])[0]
        return mt, ai, v, 9, v > 0xFFFFFFFF if mt != 7 else True
    if ai == 31:
        return mt, ai, None, 1, True
    raise CborError(f"reserved additional info {ai} at {pos}")


def read_item(data: bytes, pos: int = 0, depth: int = 0) -> Item:
    if depth > 200:
        raise CborError("nesting too deep")
    mt, ai, arg, hl, shortest = _head(data, pos)
    p = pos + hl
    if arg is None and mt in (0, 1, 6):
        raise CborError(f"indefinite length on major type {mt} at {pos}")
    if mt == 0:
        it = Item(0, arg, pos, p, hl, shortest)
    elif mt == 1:
        it = Item(1, -1 - arg, pos, p, hl, shortest)
    elif mt in (2, 3):
        if arg is None:
            chunks = []
            while True:
                if p >= len(data):
                    raise CborError("truncated indefinite string")
                if data[p] == 0xFF:
                    p += 1
                    break
                c = read_item(data, p, depth + 1)
                if c.mt != mt or c.indef:
                    raise CborError("bad chunk in indefinite string")
                chunks.append(c.val if mt == 2 else c.val.encode())
                p = c.end
            b = b"".join(chunks)
            it = Item(mt, b if mt == 2 else b.decode("utf-8"), pos, p, hl, shortest, indef=True)
        else:
            if p + arg > len(data):
                raise CborError(f"string of {arg} bytes at {pos} exceeds input")
            b = data[p : p + arg]
            p += arg
            if mt == 3:
                try:
                    v = b.decode("utf-8")
                except UnicodeDecodeError as e:
                    raise CborError(f"invalid utf-8 at {pos}: {e}")
            else:
                v = bytes(b)
            it = Item(mt, v, pos, p, hl, shortest)
    elif mt == 4:
        items: List[Item] = []
        if arg is None:
            while True:
                if p >= len(data):
                    raise CborError("truncated indefinite array")
                if data[p] == 0xFF:
                    p += 1
                    break
                c = read_item(data, p, depth + 1)
                items.append(c)
                p = c.end
            it = Item(4, items, pos, p, hl, shortest, indef=True)
        else:
            if arg > len(data) - p:
                raise CborError("array longer than input")
            for _ in range(arg):
                c = read_item(data, p, depth + 1)
                items.append(c)
                p = c.end
            it = Item(4, items, pos, p, hl, shortest)
    elif mt == 5:
        pairs: List[Tuple[Item, Item]] = []
        if arg is None:
            while True:
                if p >= len(data):
                    raise CborError("truncated indefinite map")
                if data[p] == 0xFF:
                    p += 1
                    break
                k = read_item(data, p, depth + 1)
                v = read_item(data, k.end, depth + 1)
                pairs.append((k, v))
                p = v.end
            it = Item(5, pairs, pos, p, hl, shortest, indef=True)
        else:
            if arg > (len(data) - p):
                raise CborError("map longer than input")
            for _ in range(arg):
                k = read_item(data, p, depth + 1)
                v = read_item(data, k.end, depth + 1)
                pairs.append((k, v))
                p = v.end
            it = Item(5, pairs, pos, p, hl, shortest)
    elif mt == 6:
        if arg is None:
            raise CborError("indefinite tag")
        c = read_item(data, p, depth + 1)
        it = Item(6, c, pos, c.end, hl, shortest, tag=arg)
    else:  # 7
        if ai == 20:
            v = False
        elif ai == 21:
            v = True
        elif ai == 22:
            v = None
        elif ai == 23:
            v = ("undefined",)
        elif ai == 25:
            v = ("f16", data[pos + 1 : pos + 3].hex())
        elif ai == 26:
            v = ("f32", data[pos + 1 : pos + 5].hex())
        elif ai == 27:
            v = ("f64", data[pos + 1 : pos + 9].hex())
        elif ai == 31:
            raise CborError("unexpected break")
        else:
            v = ("simple", arg)
        it = Item(7, v, pos, p, hl, shortest)
    it.raw = bytes(data[it.start : it.end])
    return it


def loads(data: bytes) -> Item:
    """Decode exactly one item covering the whole input."""
    it = read_item(data, 0)
    if it.end != len(data):
        raise CborError(f"{len(data) - it.end} trailing bytes")
    return it


# ----------------------------------------------------------------------------------------------------------------
# encoder (shortest heads, definite lengths, order preserved)


class Tag:
    def __init__(self, tag: int, value):
        self.tag, self.value = tag, value


class Wrap:
    """bstr .cbor value"""

    def __init__(self, value):
        self.value = value


class Pairs(list):
    """Ordered list of (key, value) pairs to be encoded as a map."""


def head(mt: int, n: int) -> bytes:
    if n < 24:
        return bytes([(mt << 5) | n])
    if n <= 0xFF:
        return bytes([(mt << 5) | 24, n])
    if n <= 0xFFFF:
        return bytes([(mt << 5) | 25]) + struct.pack(">H", n)
    if n <= 0xFFFFFFFF:
        return bytes([(mt << 5) | 26]) + struct.pack(">L", n)
    return bytes([(mt << 5) | 27]) + struct.pack(">Q", n)


def dumps(v) -> bytes:
    if v is None:
        return b"\xf6"
    if v is True:
        return b"\xf5"
    if v is False:
        return b"\xf4"
    if isinstance(v, int):
        return head(0, v) if v >= 0 else head(1, -1 - v)
    if isinstance(v, (bytes, bytearray)):
        return head(2, len(v)) + bytes(v)
    if isinstance(v, str):
        b = v.encode("utf-8")
        return head(3, len(b)) + b
    if isinstance(v, Pairs):
        return head(5, len(v)) + b"".join(dumps(k) + dumps(x) for k, x in v)
    if isinstance(v, dict):
        return head(5, len(v)) + b"".join(dumps(k) + dumps(x) for k, x in v.items())
    if isinstance(v, (list, tuple)):
        return head(4, len(v)) + b"".join(dumps(x) for x in v)
    if isinstance(v, Tag):
        return head(6, v.tag) + dumps(v.value)
    if isinstance(v, Wrap):
        return dumps(dumps(v.value))
    raise TypeError(f"cannot encode {type(v)}")
