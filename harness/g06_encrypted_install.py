"""G06 (growth, DESIGN.md 4.16) - composition encrypt -> create: the artifact files of encrypt-and-generate wired into a manifest
(digest and size by file_direct, encryption info by file, encrypted content as integrated payload) give an envelope from which a
device recovers exactly the firmware.  Judged by Encrypt_Trace (InstallJudge).  Evidence goes to evidence/growth/."""
from __future__ import annotations

import json
import subprocess

from . import core, envgen, project, seqwalk, toolrun
from .c06_encrypt import HASHES, KIDS, decrypt, project_info, scripts, setup_keys

LEVEL = "model_checking"
ALG_NAME = {"sha-256": "cose-alg-sha-256", "shake128": "cose-alg-shake128", "sha-384": "cose-alg-sha-384", "sha-512": "cose-alg-sha-512",
            "shake256": "cose-alg-shake256"}


def run(ctx: core.Check):
    ctx.cov["rule"] = "firmware sizes x five digest algorithms x key ids x CLI / library encrypt x YAML / JSON / library create"
    ctx.mc("Encrypt_MC", "Encrypt_MC.cfg", required_actions=("Encrypt",))
    d = ctx.tmp("g06")
    keys = setup_keys(d)
    es, kms = scripts()
    tr = toolrun.Trace()
    k = 0
    for size in ([0, 1, 16, 33, 4096] if ctx.quick else [0, 1, 15, 16, 17, 31, 32, 33, 4096, 65537]):
        for halg in HASHES:
            k += 1
            kid = KIDS[k % len(KIDS)]
            pt = envgen.blob(size, 100 + k)
            fw = d / f"fw{k}.bin"
            fw.write_bytes(pt)
            out = d / f"o{k}"
            out.mkdir()
            if k % 4 == 0:
                subprocess.run(core.cli_cmd("encrypt", "encrypt-and-generate", "--firmware", fw, "--key-name", "fwenc", "--key-id", hex(kid),
                                            "--context", d / "keys", "--hash-alg", halg, "--kms-script", kms, "--encrypt-script", es,
                                            "--output-dir", out), cwd=d, env=core.cli_env(), capture_output=True, text=True)
            else:
                core.setup_repo_path()
                from suit_generator import cmd_encrypt
                try:
                    cmd_encrypt.main(encrypt_subcommand="encrypt-and-generate", firmware=fw, key_name="fwenc", key_id=kid, context=str(d / "keys"),
                                     hash_alg=halg, kw_alg="direct", kms_script=kms, encrypt_script=es, output_dir=out)
                except Exception as e:
                    ctx.observe(f"encrypt raised {type(e).__name__}")
            desc = {"SUIT_Envelope_Tagged": {
                "suit-authentication-wrapper": {"SuitDigest": {"suit-digest-algorithm-id": "cose-alg-sha-256"}},
                "suit-manifest": {"suit-manifest-version": 1, "suit-manifest-sequence-number": k,
                                  "suit-common": {"suit-components": [["M", 2, 235577344, 352256]]},
                                  "suit-install": [{"suit-directive-override-parameters": {
                                      "suit-parameter-uri": "#fw",
                                      "suit-parameter-image-digest": {"suit-digest-algorithm-id": ALG_NAME[halg],
                                                                      "suit-digest-bytes": {"file_direct": str(out / "plain_text_digest.bin")}},
                                      "suit-parameter-image-size": {"file_direct": str(out / "plain_text_size.txt")},
                                      "suit-parameter-encryption-info": {"file": str(out / "suit_encryption_info.bin")}}},
                                      {"suit-directive-fetch": []}, {"suit-condition-image-match": []}]},
                "suit-integrated-payloads": {"#fw": str(out / "encrypted_content.bin")}}}
            t = tr.terms
            ev = {"pt": t.id(pt), "ptlen": size, "dec": -1, "dg": -1, "size": -1}
            try:
                data = toolrun.create_lib(desc) if k % 3 else toolrun.create_cli(desc, d, fmt="yaml" if k % 2 else "json")
                env = project.Env(data)
                emb = [v for n_, v in env.payloads if n_ == "#fw"]
                from .c05_refs import collect_params
                for name, code, arg, depth in seqwalk.manifest_steps(env)[2]:
                    if code == 20 and arg is not None and arg.mt == 5 and arg.get(19) is not None and emb and emb[0].mt == 2:
                        ev["dec"] = decrypt(keys["fwenc"], project_info(arg.get(19).raw, t), emb[0].val, t)
                for alg, dg, sz in collect_params(env)[:1]:
                    ev["dg"] = t.pre(alg, dg) if alg is not None else -1
                    ev["size"] = sz
            except Exception as e:
                ctx.observe(f"create / projection failed: {type(e).__name__}: {str(e)[:80]}")
            tr.begin({"size": size, "hash": halg, "kid": kid, "k": k})
            tr.ev("Install", **ev)
            ctx.count("evaluations")
            ctx.nontriv((size, halg, hex(kid)))
            if k == 2:
                ctx.sample({"scenario": tr.scn[tr.tid], "event": tr.events[-1]})
    toolrun.report(ctx, tr, module="Encrypt_Trace", label="encrypted-install", keyfn=lambda b, s: f"{b['clause']}:{json.dumps(s)}")


def replay(ctx, rec):
    run(ctx)
