"""Shared execution helpers for the envelope commands: create through library / CLI, hierarchy walking, trace building."""
from __future__ import annotations

import copy
import json
import os
import subprocess
from pathlib import Path

from . import core, project
from .project import Env, ProjectionError

os.environ.setdefault(core.GUARD, "1")  # library calls in the harness process use the log_call fast path


def lib():
    core.setup_repo_path()
    from suit_generator.input_output import InputOutputMixin
    from suit_generator.suit.envelope import SuitEnvelopeTagged

    return InputOutputMixin, SuitEnvelopeTagged


def create_lib(desc: dict) -> bytes:
    """What `suit-generator create` does after loading the description."""
    io, _ = lib()
    return io.prepare_suit_data(copy.deepcopy(desc))


def create_cli(desc: dict, workdir: Path, fmt: str = "yaml", guard: bool = False) -> bytes | None:
    """The real CLI: description file -> .suit.  Returns None when the tool refused."""
    import yaml

    workdir = Path(workdir)
    inp = workdir / f"in.{fmt}"
    out = workdir / "out.v2.suit"   # a name with more than one dot is a legal output name
    if out.exists():
        out.unlink()
    with open(inp, "w", encoding="utf-8") as fh:
        if fmt == "yaml":
            yaml.dump(desc, fh, sort_keys=False)
        else:
            json.dump(desc, fh)
    p = subprocess.run(core.cli_cmd("create", "--input-file", inp, "--output-file", out), cwd=workdir,
                       env=core.cli_env(guard=guard), capture_output=True, text=True)
    if p.returncode != 0 or not out.exists():
        return None
    return out.read_bytes()


def parse_lib(data: bytes) -> dict:
    _, T = lib()
    return T.from_cbor(data).to_obj()


def levels(data: bytes, path: str = "L"):
    """[(path, bytes)] of the envelope and of every text-keyed member that is itself an envelope, recursively."""
    out = [(path, data)]
    try:
        e = Env(data)
    except (ProjectionError, ValueError):
        return out
    for name, v in e.payloads:
        if v.mt == 2:
            try:
                Env(v.val)
            except (ProjectionError, ValueError):
                continue
            out += levels(v.val, path + "/" + name)
    return out


class Trace:
    """Event list of one batch with scenario bookkeeping."""

    def __init__(self):
        self.events = []
        self.scn = {}
        self.tid = 0
        self.i = 0
        self.terms = project.Terms()

    def begin(self, scenario, **hdr):
        self.tid += 1
        self.i = 0
        self.scn[self.tid] = scenario
        self.events.append({"tid": self.tid, "i": 0, "ev": "Begin", **hdr})
        return self.tid

    def ev(self, _evname, **f):
        self.i += 1
        self.events.append({"tid": self.tid, "i": self.i, "ev": _evname, **f})

    def of(self, tid):
        return [e for e in self.events if e["tid"] == tid]


def report(ctx, tr: Trace, module="Tool_Trace", label="", cap=3, keyfn=None):
    bad = ctx.validate(module, module + ".cfg", tr.events, label=label)
    seen = {}
    for b in sorted(bad, key=lambda x: (x["tid"], x["i"])):
        seen[b["clause"]] = seen.get(b["clause"], 0) + 1
        scn = tr.scn.get(b["tid"])
        key = keyfn(b, scn) if keyfn else f"{b['clause']}:{json.dumps(core.jsonable(scn), sort_keys=True)[:300]}"
        if seen[b["clause"]] > cap and not any(k.get("match", {}).get("key") == key for k in ctx.known):
            ctx.count("further_rejections_not_listed")
            continue
        evs = tr.of(b["tid"])
        ctx.violation(key=key,
                      what=f"{label}: clause {b['clause']} failed at event {b['i']} "
                           f"({evs[b['i']]['ev'] if b['i'] < len(evs) else '?'}) for scenario {json.dumps(core.jsonable(scn))[:400]}",
                      replay={"scenario": scn, "clause": b["clause"], "event_index": b["i"], "events": evs[:12]})
    return bad
