"""C12 - MPI records and merged MPI areas have the exact device layout.

Use A  Mpi_MC: the merge state machine over all placements of <= 3 records around a small area + policy table.
Use B  the placements enumerated by TLC (SCN lines) are scaled to real 48-byte records produced by the real
       `mpi generate` and merged by the real `mpi merge`.
Use C  every output hex file (generate and merge; library and CLI) is tokenised and judged record by record by
       Mpi_Trace against the image Mpi.tla builds from the scenario (policy bytes, UUIDs, 0xFF fill, digest).
"""
from __future__ import annotations

import hashlib
import json
import subprocess

from . import core, ihex, tlc, uuid5
from .c16_update import hex_events, word

NAMES = [("nordicsemi.com", "nRF54H20_sample_root"), ("nordicsemi.com", "nRF54H20_sample_app"), ("", ""),
         ("ACME Corp", "Light bulb"), ("zażółć.example", "gęślą-jaźń"), ("v" * 300, "c" * 300),
         ("a=b \"q\"", "x y")]
SV = ["none", "update", "update-and-boot"]


def own_hex(addr: int, data: bytes, rl: int = 16) -> str:
    """The verifier's own hex writer (inputs of merge that are not produced by the tool)."""
    lines = []
    hi_last = None
    k = 0

    def rec(t, off, d):
        raw = bytes([len(d), off >> 8, off & 0xFF, t]) + bytes(d)
        return ":" + (raw + bytes([(-sum(raw)) & 0xFF])).hex().upper()

    while k < len(data):
        a = addr + k
        hi, lo = a >> 16, a & 0xFFFF
        if hi != hi_last and (hi or hi_last is not None):
            lines.append(rec(4, 0, [hi >> 8, hi & 0xFF]))
        hi_last = hi
        n = min(rl, len(data) - k, 0x10000 - lo)
        lines.append(rec(0, lo, data[k:k + n]))
        k += n
    lines.append(rec(1, 0, b""))
    return "\n".join(lines) + "\n"


def size_arg(scn):
    """--size as the command line spells it: a forced notation (hex in either case, whose LAST digit may be a letter a-f) for
    the notation scenarios, otherwise varying with the value."""
    n = scn.get("sizenote")
    if n:
        return n % scn["size"]
    return core.num(scn["size"]) if scn["size"] % 3 else scn["size"]


class Run:
    def __init__(self, ctx):
        core.setup_repo_path()
        from suit_generator.cmd_mpi import MpiGenerator

        self.G = MpiGenerator
        self.ctx = ctx
        self.events = []
        self.tids = {}
        self.n = 0

    def tid(self, scn):
        self.n += 1
        self.tids[self.n] = scn
        return self.n

    # ---- generate ------------------------------------------------------------------------------------------
    def generate(self, scn):
        d = self.ctx.tmp("mpig")
        out = d / ("mpi.app.v1.hex" if len(scn["vendor"]) % 2 else "mpi.hex")
        v, c = scn["vendor"], scn["cls"]
        if scn.get("stale"):
            out.write_bytes(STALE)   # history: the output file exists already (left by an earlier invocation)
            if scn["addr"] % 3 != 1:
                # ... a VALID one: the same record generated for another address (the slot was moved in the memory map)
                try:
                    self.G.generate(str(out), v, c, (scn["addr"] + 0x1000) & 0xFFFFF000, scn["size"], scn["dp"], scn["iu"],
                                    None if scn["sv"] == "none" else scn["sv"])
                except Exception:
                    out.write_bytes(STALE)
        sv = None if scn["sv"] == "none" else scn["sv"]
        err = None
        if scn.get("via") == "cli":
            a = ["mpi", "generate", "--output-file", out, "--vendor-name", v, "--class-name", c, "--address",
                 core.num(scn["addr"]), "--size", size_arg(scn)]
            if scn["dp"]:
                a.append("--downgrade-prevention-enabled")
            if scn["iu"]:
                a.append("--independent-updates")
            if sv:
                a += ["--signature-verification", sv]
            p = subprocess.run(core.cli_cmd(*a), cwd=d, env=core.cli_env(), capture_output=True, text=True)
            err = p.stderr[-200:] if p.returncode else None
        else:
            try:
                self.G.generate(str(out), v, c, scn["addr"], scn["size"], scn["dp"], scn["iu"], sv)
            except Exception as e:
                err = repr(e)
        t = self.tid(scn)
        self.events.append({"tid": t, "i": 0, "ev": "Begin", "kind": "gen", "addr": word(scn["addr"]),
                            "size": scn["size"], "dp": scn["dp"], "iu": scn["iu"], "sv": scn["sv"],
                            "vid": list(uuid5.vendor_id(v)), "cid": list(uuid5.class_id(v, c)),
                            "inputs": [], "digest": []})
        if not written(out):
            self.events.append({"tid": t, "i": 1, "ev": "Refused", "err": err or ""})
        else:
            self.events.extend(hex_events(out, t))
        return out

    # ---- merge ---------------------------------------------------------------------------------------------
    def merge(self, scn):
        """scn: {addr, size, inputs: [{off, len, src: 'tool'|'own', seed}], via}"""
        d = self.ctx.tmp("mpim")
        files = []
        inputs = []
        for k, inp in enumerate(scn["inputs"]):
            # file names with characters that are special to shells and pattern matchers are legal file names
            f = d / (f"in{k}.hex", f"mpi[app]{k}.hex", f"in{k} (copy).hex", f"in*{k}?.hex")[(k + len(scn["inputs"])) % 4]
            a = scn["addr"] + inp["off"]
            if inp["src"] == "tool":
                v, c = NAMES[inp["seed"] % len(NAMES)]
                self.G.generate(str(f), v, c, a, inp["len"], bool(inp["seed"] & 1), bool(inp["seed"] & 2),
                                [None, "update", "update-and-boot"][inp["seed"] % 3])
                mem = ihex.memory(f.read_text())
                data = bytes(mem[x] for x in sorted(mem))
            else:
                data = bytes(((inp["seed"] * 29 + i * 7) % 254) + 1 for i in range(inp["len"]))
                f.write_text(own_hex(a, data, rl=inp.get("rl", 16)))
            core.through_link(f, (inp["seed"] + k) % 4 == 3)
            files.append(str(f))
            inputs.append([inp["off"], list(data)])
        out = d / ("merged.area.0.hex" if len(scn["inputs"]) % 2 else "merged.hex")
        if scn.get("stale"):
            out.write_bytes(STALE)
        err = None
        if scn.get("via") == "cli":
            a = ["mpi", "merge", "--output-file", out, "--address", core.num(scn["addr"]), "--size", size_arg(scn)]
            for f in files:
                a += ["--file", f]
            p = subprocess.run(core.cli_cmd(*a), cwd=d, env=core.cli_env(), capture_output=True, text=True)
            err = p.stderr[-200:] if p.returncode else None
        else:
            try:
                self.G.merge(str(out), scn["addr"], scn["size"], files if files else None)
            except Exception as e:
                err = repr(e)
        digest = []
        if written(out):
            try:
                mem = ihex.memory(out.read_text())
                area = bytes(mem.get(scn["addr"] + i, 0) for i in range(scn["size"]))
                digest = list(hashlib.sha256(area).digest())
            except ihex.HexError:
                digest = [0] * 32
        t = self.tid(scn)
        self.events.append({"tid": t, "i": 0, "ev": "Begin", "kind": "merge", "addr": word(scn["addr"]),
                            "size": scn["size"], "inputs": inputs, "digest": digest, "dp": False, "iu": False,
                            "sv": "none", "vid": [], "cid": []})
        if not written(out):
            self.events.append({"tid": t, "i": 1, "ev": "Refused", "err": err or ""})
        else:
            self.events.extend(hex_events(out, t))

    def judge(self, label):
        for n, e in enumerate(self.events):
            if e["ev"] == "Begin":
                e["b"] = n + 1
        bad = self.ctx.validate("Mpi_Trace", "Mpi_Trace.cfg", self.events, label=label)
        seen = {}
        for b in sorted(bad, key=lambda x: x["tid"]):
            scn = self.tids[b["tid"]]
            seen[b["clause"]] = seen.get(b["clause"], 0) + 1
            if seen[b["clause"]] > 3:
                continue
            self.ctx.violation(key=f"{b['clause']}:{json.dumps(scn, sort_keys=True)[:300]}",
                               what=f"mpi {scn['op']} rejected by clause {b['clause']} (event {b['i']}): {json.dumps(scn)[:400]}",
                               replay={"scenario": scn, "clause": b["clause"], "event": b["i"]})
        self.events = []


STALE = core.STALE


def written(out) -> bool:
    """The invocation wrote the file (a file still holding the marker of the 'stale' history was not written by it)."""
    return out.exists() and out.read_bytes() != STALE


def gen_scenarios(ctx):
    quick = ctx.quick
    rng = ctx.rng
    out = []
    addrs = [0, 0x0E1ED000, 0xFFF0, 0x00FFFFE0, 0x7FFFFFE0, 0xFFFFFF00]
    k = 0
    for (v, c) in NAMES:
        for dp in (False, True):
            for iu in (False, True):
                for sv in SV:
                    sizes = [48, 49, 64, 100] if not quick else [rng.choice([48, 49, 64, 100, 255, 256])]
                    for size in sizes:
                        k += 1
                        out.append({"op": "generate", "vendor": v, "cls": c, "dp": dp, "iu": iu, "sv": sv,
                                    "addr": rng.choice(addrs), "size": size,
                                    "via": "cli" if k % (12 if quick else 20) == 0 and "\x00" not in v else "lib"})
    # notation of --size on the real command line: hexadecimal sizes ending in every letter digit, in both cases
    for j, last in enumerate("abcdefABCDEF"):
        size = int(("4" if j % 2 else "1c") + last, 16)
        out.append({"op": "generate", "vendor": NAMES[j % len(NAMES)][0].replace("\x00", "n"), "cls": NAMES[j % len(NAMES)][1].replace("\x00", "n"),
                    "dp": bool(j % 2), "iu": bool(j % 3), "sv": SV[j % len(SV)], "addr": addrs[j % len(addrs)], "size": size,
                    "via": "cli", "sizenote": "0x%x" if last.islower() else "0x%X"})
    return out


def merge_from_tlc(ctx, hists, SIZE=8, WINDOW=3):
    """Scale the abstract placements of Mpi_MC (RLEN = 3 cells) to real 48-byte records: one cell = 16 bytes."""
    rng = ctx.rng
    out = []
    for h in hists:
        addr = rng.choice([0x1000, 0x0E1EC000, 0xFFD0, 0x00FFFF80, 0, 0])
        if addr == 0 and min([0] + list(h["offs"])) < 0:
            addr = 0x1000   # an area at address 0 has nothing below it
        out.append({"op": "merge", "addr": addr, "size": SIZE * 16, "expect": h["phase"],
                    "inputs": [{"off": o * 16, "len": ln * 16, "src": "tool" if ln == 3 else "own", "seed": i + len(out)}
                               for i, (o, ln) in enumerate(zip(h["offs"], h["lens"]))],
                    "via": "lib"})
    return out


def merge_scenarios(ctx):
    """Byte-granular placements: inside, touching both borders, one byte out, adjacent, overlapping by one byte, <= 8 records."""
    rng = ctx.rng
    out = []
    n = 120 if ctx.quick else 2500
    for k in range(n):
        size = rng.choice([48, 96, 128, 160, 256, 1000])
        addr = rng.choice([0x2000, 0x0E1EC000, 0xFFC0, 0x00FFFF00, 0x7FFFFF80, 0xFFFFF000, 0, 0])
        nrec = rng.randint(0, 8)
        inputs = []
        cur = 0
        style = rng.choice(["packed", "packed", "random", "edge"])
        for i in range(nrec):
            ln = rng.choice([48, 48, 48, 50, 64, 1, 16])
            src = "tool" if ln >= 48 and rng.random() < 0.6 else "own"
            if style == "packed":
                off = cur + rng.choice([0, 0, 0, 1, 16, -1])
            elif style == "edge":
                off = rng.choice([0, -1, size - ln, size - ln + 1, size - 1, size, cur, cur - 1])
            else:
                off = rng.randrange(-4, size + 4)
            cur = off + ln
            inputs.append({"off": off, "len": ln, "src": src, "seed": k * 8 + i, "rl": rng.choice([16, 32, 7])})
        if addr + min([0] + [i["off"] for i in inputs]) < 0:
            continue
        out.append({"op": "merge", "addr": addr, "size": size, "inputs": inputs,
                    "via": "cli" if k % (15 if ctx.quick else 40) == 0 else "lib"})
    # notation of --size on the real command line (hexadecimal, last digit a letter, both cases): inputs inside the named area
    for j, last in enumerate("abcdefABCDEF"):
        size = int(("6" if j % 2 else "a") + last, 16)
        out.append({"op": "merge", "addr": [0x2000, 0x0E1EC000, 0xFFC0][j % 3], "size": size, "via": "cli",
                    "sizenote": "0x%x" if last.islower() else "0x%X",
                    "inputs": [{"off": 0, "len": 48, "src": "tool", "seed": 9000 + j, "rl": 16},
                               {"off": size - 49 + (j % 2), "len": 48 + (j % 3 == 0), "src": "own", "seed": 9100 + j, "rl": 32}]})
    return out


def run(ctx: core.Check):
    ctx.cov["rule"] = ("generate: every (name pair, 2x2x3 policy, size, address) combination; merge: (a) all placements of <= 3 "
                       "records in a window around the area enumerated by TLC (Mpi_MC) and scaled to real 48-byte records, "
                       "(b) seeded byte-granular sets of <= 8 records (inside, touching borders, one byte out, adjacent, "
                       "overlapping by one byte). Distinct & non-trivial = distinct scenario with >= 1 input or a policy/name "
                       "combination not seen before.")
    ctx.note("Use A: Mpi_MC + Hex_MC")
    ctx.mc("Mpi_MC", "Mpi_MC.cfg", required_actions=("MergeFile", "Write"))
    ctx.mc("Hex_MC", "Hex_MC.cfg", required_actions=("Read", "Finish"))
    g = tlc.run_tlc("Mpi_MC", "Mpi_Gen.cfg", workers=1)
    tlc.require_ok(g, "Mpi_Gen")
    hists = g.tagged("SCN")
    ctx.cov["tlc_runs"].append({"module": "Mpi_MC", "cfg": "Mpi_Gen.cfg", "use": "B:scenario-generation",
                                "scenarios": len(hists)})
    if ctx.quick:
        ctx.rng.shuffle(hists)
        # all accepted placements + a sample of the rejected ones
        # all accepted placements, every rejected placement of TWO records (all overlap types in both orders), a sample of the rest
        hists = ([h for h in hists if h["phase"] == "written"] + [h for h in hists if h["phase"] != "written" and len(h["offs"]) == 2]
                 + [h for h in hists if h["phase"] != "written" and len(h["offs"]) != 2][:500])
    r = Run(ctx)
    ctx.note("Use C: real mpi generate")
    gs = gen_scenarios(ctx)
    for k_, s in enumerate(gs):
        s["stale"] = k_ % 5 == 3
        r.generate(s)
        ctx.count("evaluations")
        ctx.nontriv(("gen", s["vendor"][:20], s["cls"][:20], s["dp"], s["iu"], s["sv"], s["size"]))
    ctx.sample({"scenario": gs[0], "events": r.events[:5]})
    r.judge("generate")
    ctx.note(f"Use B/C: {len(hists)} TLC placements replayed into real mpi merge")
    ms = merge_from_tlc(ctx, hists)
    drift = 0
    for k_, s in enumerate(ms):
        s["stale"] = k_ % 5 == 3   # the output file exists already: a refusal must not pass for an output, an output must replace it
        r.merge(s)
        ctx.count("evaluations")
        ctx.nontriv(("tlc", tuple((i["off"], i["len"]) for i in s["inputs"])))
        got = "rejected" if r.events[-1]["ev"] == "Refused" else "written"
        drift += got != s["expect"]
    ctx.cov["drift_model_vs_code"] = drift
    ctx.sample({"scenario": ms[1], "events": [e for e in r.events if e["tid"] == r.n][:4]})
    r.judge("merge-tlc")
    ctx.note("Use C: byte-granular merge placements")
    for s in merge_scenarios(ctx):
        r.merge(s)
        ctx.count("evaluations")
        if s["inputs"]:
            ctx.nontriv(("rand", s["size"], tuple((i["off"], i["len"]) for i in s["inputs"])))
        if len(r.events) > 50000:
            r.judge("merge-rand")
    r.judge("merge-rand")
    ctx.assumptions += ["sha256 by hashlib over the area as read back by the verifier's hex reader; believed only when TLC "
                        "finds that area equal to the image the spec builds from the inputs",
                        "UUIDv5 of the names computed by the verifier (hashlib.sha1)"]


def replay(ctx, rec):
    scn = rec["replay"]["scenario"]
    r = Run(ctx)
    (r.generate if scn["op"] == "generate" else r.merge)(scn)
    ctx.count("evaluations")
    ctx.nontriv("replay")
    ctx.nontriv("replay2")
    ctx.sample({"replayed": scn})
    r.judge("replay")
