"""C08 - symbolic names and registry codes are in one-to-one correspondence.

Use A  Registry.tla is the oracle; TLC checks its own injectivity ASSUMEs.
Use B  TLC enumerates the complete finite space - every (space, name) pair and every (name, other space) pair
       (Registry_MC, 1605 pairs) - and the driver encodes a single-entry object of the space's carrier type through the
       public from_obj/to_cbor API, reads the code with the verifier's own CBOR reader, decodes through
       from_cbor/to_obj and records Encode / Cross events; tags 107 / 18 / 96 as Tag events.
Use C  Registry_Trace judges them.  Names the code exposes that the registry does not know are printed as UNCHECKED.
"""
from __future__ import annotations

import json

from . import cborx, core, toolrun

UUID = {"raw": "00112233445566778899aabbccddeeff"}
DIG = {"suit-digest-algorithm-id": "cose-alg-sha-256", "suit-digest-bytes": "aa"}

VALUES = {
    "envelope": {"suit-delegation": [], "suit-authentication-wrapper": {"SuitDigest": dict(DIG)},
                 "suit-manifest": {"suit-manifest-version": 1}, "suit-dependency-resolution": [], "suit-payload-fetch": [],
                 "suit-install-legacy": [], "suit-candidate-verification": [], "suit-install": [], "suit-text": {}},
    "manifest": {"suit-manifest-version": 1, "suit-manifest-sequence-number": 1, "suit-common": {}, "suit-reference-uri": "x",
                 "suit-manifest-component-id": ["I"], "suit-current-version": [1], "suit-validate": [], "suit-load": [],
                 "suit-invoke": [], "suit-dependency-resolution": [], "suit-payload-fetch": [], "suit-install-legacy": [],
                 "suit-candidate-verification": [], "suit-install": [], "suit-text": dict(DIG), "suit_uninstall": []},
    "common": {"suit-dependencies": {}, "suit-components": [], "suit-shared-sequence": []},
    "command": {"suit-directive-set-component-index": 0, "suit-directive-try-each": [[]], "suit-directive-set-parameters": {},
                "suit-directive-override-parameters": {}, "suit-directive-run-sequence": []},
    "parameter": {"suit-parameter-vendor-identifier": dict(UUID), "suit-parameter-class-identifier": dict(UUID),
                  "suit-parameter-image-digest": dict(DIG), "suit-parameter-component-slot": 1,
                  "suit-parameter-strict-order": True, "suit-parameter-soft-failure": True,
                  "suit-parameter-image-size": {"raw": 1}, "suit-parameter-content": 1,
                  "suit-parameter-encryption-info": {"CoseEncryptTagged": {
                      "protected": {"suit-cose-algorithm-id": "cose-alg-aes-gcm-256"}, "unprotected": {"suit-cose-iv": "aa"},
                      "ciphertext": None, "recipients": []}}, "suit-parameter-uri": "x",
                  "suit-parameter-source-component": 1, "suit-parameter-invoke-args": {},
                  "suit-parameter-device-identifier": dict(UUID),
                  "suit-parameter-version": {"suit-condition-version-comparison-greater": [1]}},
    "header": {"suit-cose-algorithm-id": "cose-alg-es-256", "suit-cose-key-id": 1, "suit-cose-iv": "aa"},
    "cwt": {"Issuer": "x", "Subject": "x", "Audience": "x", "Expiration Time": 1, "Not Before": 1, "Issued At": 1, "CW ID": "aa"},
    "invokeargs": {"suit-synchronous-invoke": True, "suit-timeout": 1},
    "depmeta": {"suit-dependency-prefix": ["I"]},
}


def carriers():
    core.setup_repo_path()
    from suit_generator.suit import envelope as E, manifest as M, security as S

    return {
        "envelope": ("kv", E.SuitEnvelope), "manifest": ("kv", M.SuitManifest), "common": ("kv", M.SuitCommon),
        "command": ("tuple", M.SuitCommand), "parameter": ("kv", M.SuitParameters), "text": ("kv", M.SuitTextLMap),
        "textcomponent": ("kv", M.SuitTextComponentKeys), "header": ("kv", S.SuitHeaderMap), "cosealg": ("enum", S.SuitcoseAlg),
        "hashalg": ("enum", S.SuitCoseHashAlg), "cwt": ("kv", S.SuitCwtPayload), "policy": ("bits", M.SuitRepPolicy),
        "comparator": ("tuple", M.SuitParameterVersion), "invokeargs": ("kv", M.SuitParameterInvokeArgs),
        "depmeta": ("kv", M.SuitDependencyMetadata),
    }


def value_for(space, name):
    if space in VALUES and name in VALUES[space]:
        return VALUES[space][name]
    if space == "command":
        return []
    if space in ("text", "textcomponent"):
        return "x"
    if space == "comparator":
        return [1]
    return 0


def encode_with(kind, cls, name, value, other, other_value, place):
    """The name next to a VALID entry (`other`) of the same space: -> (accepted, present): accepted = from_obj/to_cbor raised
    nothing; present = the re-decoded object names `name` (a member placed first / last must not be lost)."""
    try:
        if kind == "bits":
            o = [other, name] if place == "last" else [name, other]
        else:
            o = {other: other_value, name: value} if place == "last" else {name: value, other: other_value}
        b = cls.from_obj(o).to_cbor()
    except Exception:
        return False, False
    try:
        back = cls.from_cbor(b).to_obj()
        return True, name in back
    except Exception:
        return True, False


def encode(kind, cls, name, value):
    """-> (accepted, code, back)"""
    try:
        if kind == "enum":
            b = cls.from_obj(name).to_cbor()
        elif kind == "bits":
            b = cls.from_obj([name]).to_cbor()
        else:
            b = cls.from_obj({name: value}).to_cbor()
    except Exception:
        return False, -99999, "?"
    code, back = -99999, "?"
    try:
        it = cborx.loads(b)
        if kind in ("enum", "bits") and it.mt in (0, 1):
            code = it.val
        elif kind == "kv" and it.mt == 5 and len(it.val) == 1 and it.val[0][0].mt in (0, 1):
            code = it.val[0][0].val
        elif kind == "tuple" and it.mt == 4 and len(it.val) == 2 and it.val[0].mt in (0, 1):
            code = it.val[0].val
    except cborx.CborError:
        pass
    try:
        o = cls.from_cbor(b).to_obj()
        if kind == "enum":
            back = o
        elif kind == "bits":
            back = o[0] if isinstance(o, list) and len(o) == 1 else "?"
        elif isinstance(o, dict) and len(o) == 1:
            back = next(iter(o))
        if not isinstance(back, str):
            back = "?"
    except Exception:
        back = "?"
    return True, code, back


def run(ctx: core.Check):
    ctx.cov["rule"] = ("the complete finite vocabulary: 15 key spaces x 107 names = 1605 (space, name) pairs enumerated by TLC; a pair "
                       "is an Encode case when the name belongs to the space (both directions checked) and a Cross case "
                       "otherwise (the name must be rejected). Distinct & non-trivial = every pair (all are distinct).")
    g = ctx.mc("Registry_MC", "Registry_MC.cfg", workers=1, coverage=False, label="A:registry self-check + B:enumeration")
    pairs = g.tagged("SCN")
    car = carriers()
    tr = toolrun.Trace()
    n_enc = n_cross = 0
    members = {}
    for p in pairs:
        if p["member"]:
            members.setdefault(p["space"], [])
            if p["name"] not in members[p["space"]]:
                members[p["space"]].append(p["name"])
    for p in pairs:
        sp, name = p["space"], p["name"]
        kind, cls = car[sp]
        if p["place"] != "alone" and kind == "tuple" and sp == "command" and p["member"]:
            # a command next to another command of its class in ONE sequence item: flat [code, argument, code, argument]
            cls_of = lambda n_: n_.split("-")[1] if n_.startswith("suit-") else "?"   # noqa: E731
            other = next((m for m in sorted(members[sp]) if m != name and cls_of(m) == cls_of(name)), None)
            if other is None:
                continue
            o = {other: value_for(sp, other), name: value_for(sp, name)} if p["place"] == "last" else {name: value_for(sp, name), other: value_for(sp, other)}
            acc, code = True, -99999
            try:
                it_ = cborx.loads(cls.from_obj(o).to_cbor())
                pos = 2 if p["place"] == "last" else 0
                if it_.mt == 4 and len(it_.val) == 4 and it_.val[pos].mt in (0, 1):
                    code = it_.val[pos].val
            except Exception:
                acc = False
            tr.begin({"space": sp, "name": name, "place": p["place"], "next_to": other})
            tr.ev("Encode", space=sp, name=name, accepted=acc, code=code, back=name)   # (a lone 4-tuple has no decoder of its own)
            ctx.count("evaluations")
            ctx.nontriv((sp, name, p["place"]))
            continue
        if p["place"] != "alone":
            # next to a valid entry: only carriers that hold several entries at once (maps, the policy list)
            if kind not in ("kv", "bits"):
                continue
            other = next((m for m in sorted(members[sp]) if m != name), None)
            if other is None:
                continue
            acc, present = encode_with(kind, cls, name, value_for(sp, name), other, value_for(sp, other), p["place"])
            tr.begin({"space": sp, "name": name, "place": p["place"], "next_to": other})
            if p["member"]:
                tr.ev("Placed", space=sp, name=name, accepted=acc, present=present)
            else:
                tr.ev("Cross", space=sp, name=name, accepted=acc)
            ctx.count("evaluations")
            ctx.nontriv((sp, name, p["place"]))
            continue
        acc, code, back = encode(kind, cls, name, value_for(sp, name))
        tr.begin({"space": sp, "name": name})
        if p["member"]:
            tr.ev("Encode", space=sp, name=name, accepted=acc, code=code, back=back)
            n_enc += 1
        else:
            tr.ev("Cross", space=sp, name=name, accepted=acc)
            n_cross += 1
        ctx.count("evaluations")
        ctx.nontriv((sp, name))
    ctx.sample({"pair": pairs[0], "event": tr.events[1]})
    # tags
    core.setup_repo_path()
    from suit_generator.suit.envelope import SuitEnvelopeTagged
    from suit_generator.suit.security import CoseEncryptTagged, CoseSign1Tagged

    objs = {
        "envelope": (SuitEnvelopeTagged, {"SUIT_Envelope_Tagged": {"suit-authentication-wrapper": {"SuitDigest": {
            "suit-digest-algorithm-id": "cose-alg-sha-256", "suit-digest-bytes": "aa"}}, "suit-manifest": {"suit-manifest-version": 1}}}),
        "sign1": (CoseSign1Tagged, {"CoseSign1Tagged": {"protected": {"suit-cose-algorithm-id": "cose-alg-es-256"}, "unprotected": {},
                                                         "payload": None, "signature": "aa"}}),
        "encrypt": (CoseEncryptTagged, {"CoseEncryptTagged": {"protected": {"suit-cose-algorithm-id": "cose-alg-aes-gcm-256"},
                                                               "unprotected": {"suit-cose-iv": "aa"}, "ciphertext": None,
                                                               "recipients": []}}),
    }
    for what, (cls, obj) in objs.items():
        try:
            it = cborx.loads(cls.from_obj(obj).to_cbor())
            tag = it.tag if it.mt == 6 else -1
        except Exception:
            tag = -1
        tr.begin({"tag": what})
        tr.ev("Tag", what=what, tag=tag)
        ctx.count("evaluations")
        # the other direction: the same content under other tag numbers and head widths must be refused, the registered number is
        # accepted in every well-formed head width (numbers whose leading byte equals the registered tag included)
        if tag < 0:
            continue
        content = it.val.raw
        T = {"envelope": 107, "sign1": 18, "encrypt": 96}[what]
        for num in (T, T + 1, T - 1, T << 8, (T << 8) | 0x12, (T << 8) | 0xFF, T << 16, T << 24, (T << 24) | 1, T << 56, 55799, 107, 18, 96, 0, 23, 24):
            for width in (0, 1, 2, 4, 8):
                if num >= 1 << (8 * width) and not (width == 0 and num < 24):
                    continue
                if width == 0 and num >= 24:
                    continue
                head = bytes([0xC0 | num]) if width == 0 else bytes([0xC0 | {1: 24, 2: 25, 4: 26, 8: 27}[width]]) + num.to_bytes(width, "big")
                try:
                    cls.from_cbor(head + content).to_obj()
                    acc = True
                except Exception:
                    acc = False
                tr.begin({"parse-tag": what, "number": num, "width": width})
                tr.ev("ParseTag", what=what, tag=num if num < 2 ** 31 else -2, accepted=acc)
                ctx.count("evaluations")
    ctx.cov["encode_cases"], ctx.cov["cross_cases"] = n_enc, n_cross
    ctx.cov["exhaustive"] = True
    toolrun.report(ctx, tr, module="Registry_Trace", label="registry", cap=20, keyfn=lambda b, s: f"{b['clause']}:{json.dumps(s)}")
    # vocabulary the code exposes that the registry does not know
    from suit_generator.suit.types import keys as K

    known = {p["name"] for p in pairs}
    for n, v in vars(K).items():
        if hasattr(v, "id") and hasattr(v, "name") and isinstance(v.name, str) and v.id is not None and v.id >= 0 and v.name not in known:
            print(f"UNCHECKED name {v.name} (code {v.id}) is not in the registry", flush=True)
            ctx.observe(f"UNCHECKED {v.name}")
    ctx.observe("O10: the manifest member 24 is spelled 'suit_uninstall' (underscore) in the tool's language; the registry pins that spelling")
    ctx.assumptions += ["the registry table was written from the drafts as known to the author and reviewed against keys.py by "
                        "hand; pinned entries are marked in Registry.tla", "own CBOR reader extracts the code"]


def replay(ctx, rec):
    run(ctx)
