"""C06 - encryption artifacts are mutually consistent and decrypt to the firmware; C14 - every encryption uses a fresh IV.

Use A  Encrypt_MC (symbolic AEAD): published IV/header decrypt; IVs pairwise distinct per key under the fresh-generator
       assumption; byte-level split/join of generate-info.
Use C  real encrypt-and-generate / generate-info (library + CLI): the four artifacts are projected with independent
       primitives (own CBOR reader, AES-GCM *decryption* with AAD rebuilt from the PUBLISHED protected header, hashlib
       reverse lookup, create with the info as raw parameter) into Enc / Gen events; histories of encryptions with one
       key (one Encryptor object, fresh objects, fresh processes) into Iv events; judged by Encrypt_Trace.
"""
from __future__ import annotations

import json
import os
import subprocess
import sys

from cryptography.exceptions import InvalidTag
from cryptography.hazmat.primitives.ciphers.aead import AESGCM

from . import cborx, core, envgen, project, seqwalk, tlc, toolrun

HASHES = {"sha-256": -16, "shake128": -18, "sha-384": -43, "sha-512": -44, "shake256": -45}
KIDS = [0, 1, 23, 24, 255, 256, 65535, 65536, 0x4000AA00, 2**31 - 1, 2**31, 2**32 - 1]
SIZES = [0, 1, 15, 16, 17, 31, 32, 33, 4096, 65537, 64, 128, 136, 168, 8192, 65536, 1048576, 1048577]   # ... and around 1 MiB


def scripts():
    return str(core.REPO / "ncs" / "encrypt_script.py"), str(core.REPO / "ncs" / "basic_kms.py")


def project_info(info: bytes, terms) -> dict:
    out = {"wrap2": False, "tag96": False, "alg": 0, "ivlen": -1, "iv": -1, "nrecip": -1, "rcpalg": 0, "kid": "?",
           "kidwrapped": False, "ctnil": False, "id": terms.id(info), "ivb": b"", "prot": b"", "rcpct": -1}
    try:
        w = cborx.loads(info)
        if w.mt != 2:
            return out
        out["wrap2"] = True
        t = cborx.loads(w.val)
        if t.mt != 6 or t.tag != 96 or t.val.mt != 4 or len(t.val.val) != 4:
            return out
        out["tag96"] = True
        prot, unprot, ct, recips = t.val.val
        if prot.mt == 2 and prot.val:
            out["prot"] = prot.val
            ph = cborx.loads(prot.val)
            a = ph.get(1) if ph.mt == 5 else None
            if a is not None and a.mt in (0, 1):
                out["alg"] = a.val
        if unprot.mt == 5:
            iv = unprot.get(5)
            if iv is not None and iv.mt == 2:
                out["ivlen"] = len(iv.val)
                out["ivb"] = iv.val
                out["iv"] = terms.id(iv.val)
        out["ctnil"] = ct.mt == 7 and ct.val is None
        if recips.mt == 4:
            out["nrecip"] = len(recips.val)
            if recips.val and recips.val[0].mt == 4 and len(recips.val[0].val) >= 3:
                r = recips.val[0].val
                if r[1].mt == 5:
                    a = r[1].get(1)
                    k = r[1].get(4)
                    if a is not None and a.mt in (0, 1):
                        out["rcpalg"] = a.val
                    if k is not None and k.mt == 2:
                        try:
                            inner = cborx.loads(k.val)
                            if inner.mt == 0 and inner.shortest:
                                out["kid"] = hex(inner.val)
                                out["kidwrapped"] = True
                        except cborx.CborError:
                            pass
                if r[2].mt == 2:
                    out["rcpct"] = terms.id(r[2].val)
    except cborx.CborError:
        pass
    return out


def decrypt(key: bytes, info: dict, content: bytes, terms) -> int:
    """Independent AES-GCM decryption with the published IV and the Enc_structure of the published protected header."""
    if len(content) < 16 or info["ivlen"] != 12:
        return -1
    aad = cborx.dumps(["Encrypt", info["prot"], b""])
    try:
        pt = AESGCM(key).decrypt(info["ivb"], content[16:] + content[:16], aad)
    except (InvalidTag, ValueError):
        return -1
    return terms.id(pt)


def raw_param_id(info: bytes, terms, k) -> int:
    """create accepts the info as raw encryption-info parameter: id of the bytes found under parameter 19."""
    desc = {"SUIT_Envelope_Tagged": {
        "suit-authentication-wrapper": {"SuitDigest": {"suit-digest-algorithm-id": "cose-alg-sha-256"}},
        "suit-manifest": {"suit-manifest-version": 1, "suit-manifest-sequence-number": k,
                          "suit-common": {"suit-components": [["M", 1]]},
                          "suit-install": [{"suit-directive-override-parameters": {
                              "suit-parameter-encryption-info": {"raw": info.hex()} if k % 2 else {"file": "@file"}}}]}}}
    return desc


def run_encrypt(ctx, tr, d, key: bytes, keyname, size, seed, kid, halg, via, k, out=None, kidnote=None):
    es, kms = scripts()
    fw = d / f"fw{k}.bin"
    pt = envgen.blob(size, seed)
    if k % 4 == 1 and size:   # a firmware whose first and last byte are NUL / whitespace / 0xFF
        e_ = (0x00, 0x09, 0x0A, 0x0D, 0x20, 0xFF)
        pt = bytes([e_[(k // 4) % 6]]) + pt[1:-1] + (bytes([e_[(k // 24) % 6]]) if size > 1 else b"")
    if k % 4 == 3 and size:   # a firmware made of characters only (hex digits, digits, base64)
        pt = envgen.textlike(size, seed)
    fw.write_bytes(pt)
    core.through_link(fw, (k * 3 + k // 5) % 5 == 2)
    fw = core.through_dotdot(fw, k % 7 == 3)
    out = out or d / f"out{k}" / core.odd_name(k)   # (a given directory still holds the artifacts of the previous run)
    out.mkdir(exist_ok=True, parents=True)
    if via == "cli":
        subprocess.run(core.cli_cmd("encrypt", "encrypt-and-generate", "--firmware", fw, "--key-name", keyname, "--key-id",
                                    kidnote or core.num(kid), "--context", d / "keys", "--hash-alg", halg, "--kw-alg", "direct",
                                    "--kms-script", kms, "--encrypt-script", es, "--output-dir", out),
                       cwd=d, env=core.cli_env(), capture_output=True, text=True)
    else:
        core.setup_repo_path()
        from suit_generator import cmd_encrypt

        try:
            cmd_encrypt.main(encrypt_subcommand="encrypt-and-generate", firmware=fw, key_name=keyname, key_id=kid,
                             context=str(d / "keys"), hash_alg=halg, kw_alg="direct", kms_script=kms, encrypt_script=es,
                             output_dir=out)
        except Exception as e:
            ctx.observe(f"encrypt-and-generate raised {type(e).__name__}")
    def rd(name):
        p = out / name
        return p.read_bytes() if p.exists() else b""

    emit_enc(ctx, tr, key, pt, kid, halg, rd("suit_encryption_info.bin"), rd("encrypted_content.bin"), rd("plain_text_digest.bin"),
             rd("plain_text_size.txt"), {"kind": "enc", "size": size, "seed": seed, "kid": kid, "hash": halg, "via": via}, k, out)
    ctx.nontriv(("enc", size, hex(kid), halg, via))


def emit_enc(ctx, tr, key, pt, kid, halg, info_b, content, dg, sz, scn, k, out=None, begin=True):
    """Project the four artifacts of one encrypt-and-generate call into an Enc event (key = the key the call NAMED)."""
    t = tr.terms
    ptid = t.id(pt)
    info = project_info(info_b, t)
    try:
        size_found, sizeok = int(sz.decode()), sz.decode().strip().isdecimal()
    except Exception:
        size_found, sizeok = -1, False
    # create with the info as raw parameter / as file
    rawid = -1
    try:
        desc = raw_param_id(info_b, t, k if out is not None else 2 * k + 1)
        p19 = desc["SUIT_Envelope_Tagged"]["suit-manifest"]["suit-install"][0]["suit-directive-override-parameters"]["suit-parameter-encryption-info"]
        if "file" in p19:
            p19["file"] = str(out / "suit_encryption_info.bin")
        env = project.Env(toolrun.create_lib(desc))
        _, _, steps = seqwalk.manifest_steps(env)
        for name, code, arg, depth in steps:
            if code == 20 and arg is not None and arg.mt == 5 and arg.get(19) is not None:
                rawid = t.id(arg.get(19).raw)
    except Exception:
        rawid = -1
    if begin:
        tr.begin(scn)
    pub = {k2: v for k2, v in info.items() if k2 not in ("ivb", "prot")}
    tr.ev("Enc", pt=ptid, ptlen=len(pt), kid=hex(kid), info=pub, dec=decrypt(key, info, content, t),
          dg=t.pre(HASHES[halg], dg), size=size_found, sizeok=sizeok, raw=rawid)
    ctx.count("evaluations")


def run_session(ctx, tr, d, stores, hist, k, mod=None):
    """Use B: one TLC session history replayed into real Encryptor objects.  hist: [{"op": "new"} | {"op": "enc", "ctx", "name"}];
    a key is named by (context directory, key name); every call's artifacts are judged under the key THAT CALL named."""
    es, kms = scripts()
    core.setup_repo_path()
    import importlib.util

    from suit_generator.suit_encrypt_script_base import SuitDigestAlgorithms, SuitKWAlgorithms
    if mod is None:
        spec = importlib.util.spec_from_file_location("verif_enc_script_sess", es)
        mod = importlib.util.module_from_spec(spec)
        spec.loader.exec_module(mod)
    obj = None
    scn = {"kind": "session", "hist": hist, "k": k}
    tr.begin(scn)
    for n, op in enumerate(hist):
        if op["op"] == "new":
            obj = None
            continue
        if obj is None:
            obj = mod.suit_encryptor_factory()
        halg = list(HASHES)[(k + n) % 5]
        kid = KIDS[(k + 3 * n) % len(KIDS)]
        pt = envgen.blob([17, 0, 33, 4096, 1][(k + n) % 5], 1000 * k + n)
        try:
            payload, tag, info_b, dg, ln = obj.encrypt_and_generate(pt, {"a": "a", "b": "a.v2"}[op["name"]], kid, str(d / op["ctx"]), SuitDigestAlgorithms(halg),
                                                                    SuitKWAlgorithms("direct"), kms)
            sz = str(ln).encode()
        except Exception as e:
            ctx.observe(f"session encrypt_and_generate raised {type(e).__name__}")
            payload, tag, info_b, dg, sz = b"", b"", b"", b"", b""
        emit_enc(ctx, tr, stores[op["ctx"]][op["name"]], pt, kid, halg, info_b, tag + payload, dg, sz, scn, 7 * k + n, begin=False)
    ctx.nontriv(("session", json.dumps(hist)))


def setup_stores(d):
    """Two KMS contexts (keys directories) holding the SAME key names with DIFFERENT key bytes."""
    stores = {}
    for c in ("c1", "c2"):
        (d / c).mkdir(parents=True, exist_ok=True)
        stores[c] = {}
        # the model's key names a, b are realised as "a" and "a.v2": a legal key name with a dot whose stem is ANOTHER key of the
        # same directory (a name is the whole string, not its stem)
        for name, real in (("a", "a"), ("b", "a.v2")):
            kb = os.urandom(32)
            (d / c / f"{real}.bin").write_bytes(kb)
            stores[c][name] = kb
    return stores


def run_geninfo(ctx, tr, d, size, seed, kid, via, k, kidnote=None):
    es, _ = scripts()
    # every fourth blob / wrapped key consists of characters only (hex digits, decimal digits, base64): still a binary file
    blob = envgen.textlike(28 + size, seed) if k % 4 == 1 else envgen.blob(28 + size, seed)
    bf, kf = d / f"blob{k}.bin", d / f"cek{k}.bin"
    bf.write_bytes(blob)
    cek = b"" if k % 2 else envgen.textlike(40, seed + 1) if k % 4 == 2 else envgen.blob(40, seed + 1)
    kf.write_bytes(cek)
    out = d / f"gout{k}"
    out.mkdir()
    if via == "cli":
        subprocess.run(core.cli_cmd("encrypt", "generate-info", "--encrypted-firmware", bf, "--encrypted-key", kf, "--key-id",
                                    kidnote or core.num(kid), "--kw-alg", "direct", "--encrypt-script", es, "--output-dir", out),
                       cwd=d, env=core.cli_env(), capture_output=True, text=True)
    else:
        core.setup_repo_path()
        from suit_generator import cmd_encrypt

        try:
            cmd_encrypt.main(encrypt_subcommand="generate-info", encrypted_firmware=bf, encrypted_key=kf, key_id=kid,
                             kw_alg="direct", encrypt_script=es, output_dir=out)
        except Exception as e:
            ctx.observe(f"generate-info raised {type(e).__name__}")
    t = tr.terms

    def rd(name):
        p = out / name
        return p.read_bytes() if p.exists() else b"\x00missing"

    info_b, content = rd("suit_encryption_info.bin"), rd("encrypted_content.bin")
    info = project_info(info_b, t)
    rawid = -1
    try:
        desc = raw_param_id(info_b, t, 2 * k + 1)
        env = project.Env(toolrun.create_lib(desc))
        for name, code, arg, depth in seqwalk.manifest_steps(env)[2]:
            if code == 20 and arg is not None and arg.mt == 5 and arg.get(19) is not None:
                rawid = t.id(arg.get(19).raw)
    except Exception:
        pass
    tr.begin({"kind": "gen", "size": size, "seed": seed, "kid": kid, "via": via})
    pub = {k2: v for k2, v in info.items() if k2 not in ("ivb", "prot")}
    tr.ev("Gen", kid=hex(kid), info=pub, blobiv=t.id(blob[:12]), blobrest=t.id(blob[12:]), content=t.id(content), raw=rawid)
    ctx.count("evaluations")
    ctx.nontriv(("gen", size, hex(kid), via))


# (the later runs shrink the firmware so that the decimal text of the new size is a PROPER PREFIX of the old one: 4096 -> 40 -> 4,
# 16 -> 1 - a writer that compares only as many bytes as it is about to write takes the old size file for current)
SAME_DIR = ((100, 1, 7, "sha-256", "cli"), (100, 1, 7, "sha-256", "cli"), (100, 1, 8, "sha-256", "lib"), (100, 1, 8, "sha-256", "lib"),
            (100, 2, 8, "sha-512", "cli"), (0, 2, 8, "sha-512", "lib"), (4096, 3, 8, "sha-256", "cli"), (40, 4, 8, "sha-256", "cli"),
            (4, 5, 8, "sha-256", "lib"), (16, 6, 9, "sha-384", "cli"), (1, 7, 9, "sha-384", "cli"))


def same_directory_runs(ctx, tr, d, keys, k, upto):
    again = d / "again"
    for n_, (size, sd, kid, halg, via) in enumerate(SAME_DIR[:upto]):
        k += 1
        run_encrypt(ctx, tr, d, keys["fwenc"], "fwenc", size, sd, kid, halg, via, k, out=again)
        tr.scn[tr.tid]["same_output_directory_run"] = n_
    return k


def setup_keys(d):
    (d / "keys").mkdir(parents=True, exist_ok=True)
    keys = {}
    for name in ("fwenc", "other"):
        k = os.urandom(32)
        (d / "keys" / f"{name}.bin").write_bytes(k)
        keys[name] = k
    return keys


def run(ctx: core.Check):
    ctx.cov["rule"] = ("encrypt-and-generate: plaintext sizes {0, 1, 15, 16, 17, 31, 32, 33, 4096, 65537} x key ids at CBOR width "
                       "boundaries x five digest algorithms x library|CLI; generate-info: blob sizes x key ids x empty/non-empty "
                       "key file; session histories from TLC (Encrypt_MC: new object | encrypt naming (context, key name), <= 3 encryptions) "
                       "replayed into real Encryptor objects. Distinct & non-trivial = distinct (sub-command, size, key id, algorithm, "
                       "via) and distinct session histories.")
    ctx.note("Use A: Encrypt_MC")
    ctx.mc("Encrypt_MC", "Encrypt_MC.cfg", required_actions=("Encrypt", "NewObject"))
    d = ctx.tmp("c06")
    keys = setup_keys(d)
    tr = toolrun.Trace()
    k = 0
    combos = []
    for size in SIZES:
        for halg in HASHES:
            combos.append((size, halg, KIDS[(len(combos)) % len(KIDS)]))
    for kid in KIDS:
        combos.append((SIZES[len(combos) % len(SIZES)], list(HASHES)[len(combos) % 5], kid))
    if not ctx.quick:
        for _ in range(1500):
            combos.append((ctx.rng.choice(SIZES + [ctx.rng.randrange(5000)]), ctx.rng.choice(list(HASHES)), ctx.rng.choice(KIDS + [ctx.rng.randrange(2**32)])))
    ctx.note(f"Use C: {len(combos)} encrypt-and-generate runs, generate-info runs")
    for size, halg, kid in combos:
        k += 1
        run_encrypt(ctx, tr, d, keys["fwenc"], "fwenc", size, k, kid, halg, "cli" if k % 12 == 0 else "lib", k)
        if k == 3:
            ctx.sample({"scenario": tr.scn[tr.tid], "event": tr.events[-1]})
    for size in ([0, 1, 16, 100, 4096] if ctx.quick else SIZES + [100, 1000]):
        for kid in (KIDS[::3] if ctx.quick else KIDS):
            k += 1
            run_geninfo(ctx, tr, d, size, k, kid, "cli" if k % 10 == 0 else "lib", k)
    # every notation Python's base-0 integers have, for the key id on the real command line of both sub-commands
    for j, (note, val) in enumerate([("23", 23), ("0x17", 23), ("0X17", 23), ("0b10111", 23), ("0B1_0111", 23), ("0o27", 23), ("0O27", 23),
                                     ("0b1000000000000001010101000000000", 0x4000AA00), ("0o10000125000", 0x4000AA00), ("1_073_785_344", 0x4000AA00),
                                     ("0xB10111", 0xB10111), ("0", 0), ("0b0", 0), ("00", 0)]):
        k += 1
        if j % 2:
            run_geninfo(ctx, tr, d, 16, k, val, "cli", k, kidnote=note)
        else:
            run_encrypt(ctx, tr, d, keys["fwenc"], "fwenc", 33, k, val, list(HASHES)[j % len(HASHES)], "cli", k, kidnote=note)
        tr.scn[tr.tid]["kidnote"] = note
    ctx.sample({"scenario": tr.scn[tr.tid], "event": tr.events[-1]})
    # the same output directory used again (identical firmware, then another key id, then other firmware): what the files say must
    # describe THIS run, whatever the directory held before
    k = same_directory_runs(ctx, tr, d, keys, k, len(SAME_DIR))
    # Use B: session histories from TLC (object reuse x context x key name)
    g = tlc.run_tlc("Encrypt_MC", "Encrypt_Gen.cfg", workers=1)
    tlc.require_ok(g, "Encrypt_Gen")
    hists = [json.loads(x) for x in sorted({json.dumps(h) for h in g.tagged("SCN")})]
    ctx.cov["tlc_runs"].append({"module": "Encrypt_MC", "cfg": "Encrypt_Gen.cfg", "use": "B:scenario-generation", "scenarios": len(hists)})
    if ctx.quick:
        ctx.rng.shuffle(hists)
        hists = hists[:120]
    ctx.note(f"Use B/C: {len(hists)} TLC session histories -> real Encryptor objects")
    stores = setup_stores(d)
    for h in hists:
        k += 1
        run_session(ctx, tr, d, stores, h, k)
    ctx.sample({"scenario": tr.scn[tr.tid], "events": tr.of(tr.tid)})
    toolrun.report(ctx, tr, module="Encrypt_Trace", label="encrypt", keyfn=lambda b, s: f"{b['clause']}:{json.dumps(s)}")
    ctx.assumptions += ["AES-GCM decryption by cryptography (same library the tool encrypts with; a defect common to both "
                        "directions inside it is invisible)", "Enc_structure rebuilt from the published protected header",
                        "hashlib digests", "own CBOR reader"]


def replay(ctx, rec):
    scn = rec["replay"]["scenario"]
    d = ctx.tmp("c06r")
    keys = setup_keys(d)
    tr = toolrun.Trace()
    if "same_output_directory_run" in scn:
        same_directory_runs(ctx, tr, d, keys, 0, scn["same_output_directory_run"] + 1)   # the history up to and including that run
    elif scn["kind"] == "session":
        run_session(ctx, tr, d, setup_stores(d), scn["hist"], scn["k"])
    elif scn["kind"] == "enc":
        run_encrypt(ctx, tr, d, keys["fwenc"], "fwenc", scn["size"], scn["seed"], scn["kid"], scn["hash"], scn["via"], 1)
    else:
        run_geninfo(ctx, tr, d, scn["size"], scn["seed"], scn["kid"], scn["via"], 1)
    ctx.nontriv("replay")
    ctx.nontriv("replay2")
    ctx.sample({"replayed": scn})
    toolrun.report(ctx, tr, module="Encrypt_Trace", label="replay")
