"""G05 (growth, DESIGN.md 4.16) - composition of the envelope commands with the image generators.

Use A  Pipeline_MC: Tool_MC's artifact store extended with the terminal commands Boot and Update; SlotKeepsWhatIsAuthenticated,
       PartitionIsTheEnvelope in every reachable state.
Use B  every command sequence (<= 3 of sign / sign remove-old / extract / cache / sever / round trip, then boot or update) printed
       by TLC is applied to real envelopes with the real commands.
Use C  the hex files of the terminal command are judged by the trace modules of C07 (Storage_Trace: the slot holds the severed
       envelope of THIS artifact - manifest, digest, every authentication block) and C16 (Update_Trace: the partition image is the
       envelope file, the candidate record describes it).
Not a listed property: evidence goes to evidence/growth/."""
from __future__ import annotations

import json

from . import c03_roundtrip as c03, c07_storage as c07, c16_update as c16, core, signrun

LEVEL = "model_checking"


def run(ctx: core.Check):
    ctx.cov["rule"] = ("command sequence of length <= 3 over {sign, sign remove-old, extract, cache, sever, round trip} followed by "
                       "{image boot, image update}; all sequences enumerated by TLC (Pipeline_MC), applied to real envelopes (severed "
                       "install + text, a payload, a dependency; varied member order). Distinct & non-trivial = distinct sequence.")
    g = ctx.mc("Pipeline_MC", "Pipeline_MC.cfg", workers=1, coverage=False, label="A:model-check + B:command sequences")
    seqs = g.tagged("SCN")
    ctx.rng.shuffle(seqs)
    if ctx.quick:
        seqs = seqs[:120]
    d = ctx.tmp("g05")
    keys = signrun.Keys(d / "keys")
    ev7, tid7, cnt7 = [], {}, [0]
    ev16, tid16, n16 = [], {}, [0]

    def nt():
        n16[0] += 1
        return n16[0]
    n = 0
    for k, seq in enumerate(seqs):
        data = c03.refusable(ctx, lambda: c03.base_envelope(ctx, d, k))
        if data is None:
            continue
        for step in seq[:-1]:
            n += 1
            data = c03.apply_step(ctx, d, keys, data, step, n)
        f = d / f"final{k}.suit"
        f.write_bytes(data)
        if seq[-1][0] == "boot":
            scn = {"origin": "pipeline", "seq": seq, "soc": "nrf54h20", "base": [0x0E1ED000, 0, 0x0FFF0000][k % 3],
                   "via": "cli" if k % 10 == 0 else "lib", "list": [["APP_LOCAL_1", True, False]], "kconfig": {}, "stale": k % 4 == 1}
            c07.run_scenario(ctx, ev7, tid7, cnt7, scn, [f], ["APP_LOCAL_1"])
        else:
            scn = {"origin": "pipeline", "seq": seq, "size": len(data), "part": [0x0E100000, 0x0E10FFF0, 0x00FFFFF0][k % 3],
                   "uci": [0x0E1EF340, 0xFFF8, 0x0001FFFC][k % 3], "caches": k % 7, "via": "cli" if k % 10 == 0 else "lib", "seed": k,
                   "stale": k % 4 == 1}
            c16.execute(ctx, scn, ev16, tid16, nt, data=data)
        ctx.count("evaluations")
        ctx.nontriv(json.dumps(seq))
        if k == 0:
            ctx.sample({"tlc_sequence": seq, "final_envelope_bytes": len(data)})
    c07.judge(ctx, ev7, tid7, "pipeline-boot")
    c16.judge(ctx, ev16, tid16, "pipeline-update")
    ctx.assumptions += ["the judges are those of C07 / C16 (slot layout tables of Storage.tla, own hex tokenizer and CBOR reader)"]


def replay(ctx, rec):
    run(ctx)
