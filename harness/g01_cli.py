"""G01 (growth beyond the listed properties, DESIGN.md 4.16) - CLI front end: format selection and exit-status contract.
Not a listed property: `./check G01` exists so that the specification keeps covering more of the system; its evidence goes to
evidence/growth/ and it is not registered in MANIFEST.json."""
from __future__ import annotations

import json
import subprocess

import yaml

from . import core, envgen, toolrun

LEVEL = "model_checking"


def cli(d, *args):
    p = subprocess.run(core.cli_cmd(*args), cwd=d, env=core.cli_env(), capture_output=True, text=True)
    return p.returncode, "Traceback (most recent call last)" in p.stderr


def run(ctx: core.Check):
    ctx.cov["rule"] = "create/parse x file extension x format flag x real content format; input-error causes x commands"
    d = ctx.tmp("g01")
    sh = envgen.random_shape(ctx.rng, maxdepth=0, small=True)
    sh.update({"pad": None, "deps": []})
    desc = envgen.Builder(d / "b").desc(sh, toolrun.create_lib)
    ref = toolrun.create_lib(desc)
    (d / "ref.suit").write_bytes(ref)
    tr = toolrun.Trace()
    n = 0
    for content in ("json", "yaml"):
        text = json.dumps(desc) if content == "json" else yaml.dump(desc, sort_keys=False)
        for ext in ("json", "yaml", "YAML", "yml", "txt", "suit"):
            for flag in ("AUTO", "json", "yaml"):
                n += 1
                inp, out = d / f"in{n}.{ext}", d / f"out{n}.suit"
                if ext == "suit":
                    if content == "yaml":
                        continue
                    inp.write_bytes(ref)
                    c = "suit"
                else:
                    inp.write_text(text)
                    c = content
                rc, tb = cli(d, "create", "--input-file", inp, "--output-file", out, "--input-format", flag)
                tr.begin({"cmd": "create", "ext": ext, "flag": flag, "content": c})
                if out.exists() and out.stat().st_size == 0:
                    ctx.observe("O11: a create that fails while encoding leaves a 0-byte output file behind (the file is opened before the description is encoded)")
                tr.ev("Format", cmd="create", ext=ext, flag=flag, content=c, rc=rc, written=out.exists() and out.stat().st_size > 0,
                      same=out.exists() and out.read_bytes() == ref, tb=tb)
                ctx.count("evaluations")
                ctx.nontriv(("create", ext, flag, c))
    want = toolrun.parse_lib(ref)
    for ext in ("json", "yaml", "YAML", "yml", "txt"):
        for flag in ("AUTO", "json", "yaml"):
            n += 1
            out = d / f"p{n}.{ext}"
            rc, tb = cli(d, "parse", "--input-file", d / "ref.suit", "--output-file", out, "--output-format", flag)
            same = False
            if out.exists():
                try:
                    same = yaml.safe_load(out.read_text()) == want
                except Exception:
                    same = False
            tr.begin({"cmd": "parse", "ext": ext, "flag": flag})
            tr.ev("Format", cmd="parse", ext=ext, flag=flag, content="suit", rc=rc, written=out.exists(), same=same, tb=tb)
            ctx.count("evaluations")
            ctx.nontriv(("parse", ext, flag))
    # parse without --output-file: the description is printed to STDOUT as YAML (with and without hierarchy expansion)
    for hier in (False, True):
        a = ["parse", "--input-file", d / "ref.suit"] + (["--parse-hierarchy"] if hier else [])
        p = subprocess.run(core.cli_cmd(*a), cwd=d, env=core.cli_env(), capture_output=True, text=True)
        try:
            shown = yaml.safe_load(p.stdout)
            same = (shown.get("SUIT_Envelope_Tagged") == want.get("SUIT_Envelope_Tagged")) if isinstance(shown, dict) else False
        except Exception:
            same = False
        tr.begin({"cmd": "parse", "ext": "STDOUT", "hier": hier})
        tr.ev("Format", cmd="parse", ext="yaml", flag="AUTO", content="suit", rc=p.returncode, written=bool(p.stdout.strip()), same=same,
              tb="Traceback (most recent call last)" in p.stderr)
        ctx.count("evaluations")
        ctx.nontriv(("parse", "STDOUT", hier))
    # input errors
    (d / "broken.yaml").write_text("SUIT_Envelope_Tagged: [unclosed\n")
    (d / "unknown.yaml").write_text(yaml.dump({"SUIT_Envelope_Tagged": {"suit-manifest": {"no-such-key": 1}}}))
    (d / "bad.suit").write_bytes(b"\xd8\x6b\xa1\x02")
    for cause, args, out in (
            ("missing-input", ["create", "--input-file", d / "nope.yaml", "--output-file", d / "e1.suit"], d / "e1.suit"),
            ("broken-yaml", ["create", "--input-file", d / "broken.yaml", "--output-file", d / "e2.suit"], d / "e2.suit"),
            ("unknown-key", ["create", "--input-file", d / "unknown.yaml", "--output-file", d / "e3.suit"], d / "e3.suit"),
            ("bad-cbor", ["parse", "--input-file", d / "bad.suit", "--output-file", d / "e4.yaml"], d / "e4.yaml"),
            ("missing-input", ["image", "boot", "--input-file", d / "nope.suit", "--storage-output-directory", d], d / "none"),
            ("usage", ["create", "--output-file", d / "e5.suit"], d / "e5.suit"),
            ("usage", ["nosuchcommand"], d / "none")):
        rc, tb = cli(d, *args)
        tr.begin({"cause": cause, "args": [str(a) for a in args[:2]]})
        if tb:
            ctx.observe(f"an unclassified input error ({cause}) ends the CLI with a traceback (exit status {rc})")
        if out.exists() and out.is_file() and out.stat().st_size == 0:
            ctx.observe("O11: a create that fails while encoding leaves a 0-byte output file behind (the file is opened before the description is encoded)")
        tr.ev("Error", cause=cause, rc=rc, tb=tb, written=out.is_file() and out.stat().st_size > 0)
        ctx.count("evaluations")
        ctx.nontriv(("error", cause, args[0]))
    failure_table(ctx, tr, d, ref)
    ctx.sample({"scenario": tr.scn[1], "event": tr.events[1]})
    toolrun.report(ctx, tr, module="Cli_Trace", label="cli", cap=50, keyfn=lambda b, s: f"{b['clause']}:{json.dumps(s, sort_keys=True)}")
    ctx.cov["states"] = max(ctx.cov["states"], 1)
    ctx.cov["transitions"] = max(ctx.cov["transitions"], 1)


def failure_table(ctx, tr, d, ref):
    """Use B/C for Cli.tla's failure table: every (sub-command, cause) enumerated by TLC (Cli_MC) is executed through the real
    CLI; exit status and what is left behind are judged by FailureJudge."""
    from . import c07_storage, signrun, tlc
    g = ctx.mc("Cli_MC", "Cli_MC.cfg", workers=1, coverage=False, label="A/B: failure table")
    scns = g.tagged("SCN")
    f = d / "fail"
    f.mkdir()
    keys = signrun.Keys(f / "keys")
    ss, kms = signrun.sign_scripts()
    es = str(core.REPO / "ncs" / "encrypt_script.py")
    sh = envgen.random_shape(ctx.rng, maxdepth=0, small=True)
    sh.update({"pad": None, "deps": [], "cid": ["mid", "nordicsemi.com", "nRF54H20_sample_app"], "pay": [["#p", 33, "hex", 5]]})
    env = toolrun.create_lib(envgen.Builder(f / "b").desc(sh, toolrun.create_lib))
    (f / "env.suit").write_bytes(env)
    signrun.sign_single(f / "env.suit", f / "signed.suit", keys, "ked", 7, "eddsa", "error")
    big = dict(sh, pay=[["#big", 9000, "hex", 6]])
    (f / "big.suit").write_bytes(toolrun.create_lib(envgen.Builder(f / "b2").desc(big, toolrun.create_lib)))
    (f / "fw.bin").write_bytes(b"x" * 100)
    (f / "notpem.pem").write_text("hello")
    (f / "broken.yaml").write_text("SUIT_Envelope_Tagged: [unclosed\n")
    (f / "unknown.yaml").write_text(yaml.dump({"SUIT_Envelope_Tagged": {"suit-manifest": {"no-such-key": 1}}}))
    (f / "bad.suit").write_bytes(b"\xd8\x6b\xa1\x02")
    (f / "cfg_absent.json").write_text(json.dumps({"key-name": "ked", "key-id": "0x7", "alg": "eddsa", "context": str(keys.dir), "sign-script": ss,
                                                  "kms-script": kms, "dependencies": {"#nothere": {"key-name": "ked", "key-id": "0x8"}}}))
    # caches and MPI inputs made by the tool itself
    subprocess.run(core.cli_cmd("cache_create", "from_payloads", "--output-file", f / "c1.bin", "--eb-size", "8", "--input", f"#a,{f / 'fw.bin'}"),
                   cwd=f, env=core.cli_env(), capture_output=True)
    subprocess.run(core.cli_cmd("mpi", "generate", "--output-file", f / "mpi1.hex", "--address", "0x2000", "--size", "48", "--vendor-name", "v",
                                "--class-name", "c"), cwd=f, env=core.cli_env(), capture_output=True)
    (f / "eo").mkdir()
    o = f / "out.suit"
    sign = ["--key-id", "7", "--context", keys.dir, "--sign-script", ss, "--kms-script", kms]
    enc = ["--key-id", "7", "--context", keys.dir, "--kms-script", kms, "--encrypt-script", es, "--output-dir", f / "eo"]
    table = {
        ("create", "missing-input"): (["create", "--input-file", f / "nope.yaml", "--output-file", o], [o]),
        ("create", "unknown-key"): (["create", "--input-file", f / "unknown.yaml", "--output-file", o], [o]),
        ("create", "broken-yaml"): (["create", "--input-file", f / "broken.yaml", "--output-file", o], [o]),
        ("parse", "missing-input"): (["parse", "--input-file", f / "nope.suit", "--output-file", f / "o.yaml"], [f / "o.yaml"]),
        ("parse", "bad-cbor"): (["parse", "--input-file", f / "bad.suit", "--output-file", f / "o.yaml"], [f / "o.yaml"]),
        ("sign", "missing-input"): (["sign", "single-level", "--input-envelope", f / "nope.suit", "--output-envelope", o, "--key-name", "ked", "--alg", "eddsa"] + sign, [o]),
        ("sign", "missing-key"): (["sign", "single-level", "--input-envelope", f / "env.suit", "--output-envelope", o, "--key-name", "nokey", "--alg", "eddsa"] + sign, [o]),
        ("sign", "key-type-mismatch"): (["sign", "single-level", "--input-envelope", f / "env.suit", "--output-envelope", o, "--key-name", "ked", "--alg", "es-256"] + sign, [o]),
        ("sign", "already-signed-error"): (["sign", "single-level", "--input-envelope", f / "signed.suit", "--output-envelope", o, "--key-name", "ked", "--alg", "eddsa",
                                            "--already-signed-action", "error"] + sign, [o]),
        ("sign-recursive", "missing-configuration"): (["sign", "recursive", "--input-envelope", f / "env.suit", "--output-envelope", o, "--configuration", f / "nocfg.json"], [o]),
        ("sign-recursive", "absent-dependency"): (["sign", "recursive", "--input-envelope", f / "env.suit", "--output-envelope", o, "--configuration", f / "cfg_absent.json"], [o]),
        ("payload_extract", "missing-input"): (["payload_extract", "--input-envelope", f / "nope.suit", "--output-envelope", o, "--payload-name", "#p",
                                                "--output-payload-file", f / "p.bin"], [o, f / "p.bin"]),
        ("payload_extract", "absent-payload"): (["payload_extract", "--input-envelope", f / "env.suit", "--output-envelope", o, "--payload-name", "#zz",
                                                 "--output-payload-file", f / "p.bin"], [o, f / "p.bin"]),
        ("cache_create", "missing-file"): (["cache_create", "from_payloads", "--output-file", f / "c.bin", "--eb-size", "16", "--input", f"#a,{f / 'nofile.bin'}"], [f / "c.bin"]),
        ("cache_create", "duplicate-uri"): (["cache_create", "from_payloads", "--output-file", f / "c.bin", "--eb-size", "16", "--input", f"#a,{f / 'fw.bin'}",
                                             "--input", f"#a,{f / 'fw.bin'}"], [f / "c.bin"]),
        ("cache_create", "malformed-input-argument"): (["cache_create", "from_payloads", "--output-file", f / "c.bin", "--eb-size", "16", "--input", f / "fw.bin"], [f / "c.bin"]),
        ("cache_create", "zero-erase-block"): (["cache_create", "from_payloads", "--output-file", f / "c.bin", "--eb-size", "0", "--input", f"#a,{f / 'fw.bin'}"], [f / "c.bin"]),
        ("cache_create-merge", "duplicate-uri"): (["cache_create", "merge", "--output-file", f / "c.bin", "--eb-size", "16", "--input", f / "c1.bin", "--input", f / "c1.bin"], [f / "c.bin"]),
        ("mpi-generate", "area-smaller-than-record"): (["mpi", "generate", "--output-file", f / "m.hex", "--address", "0x1000", "--size", "8", "--vendor-name", "v",
                                                        "--class-name", "c"], [f / "m.hex"]),
        ("mpi-merge", "missing-input"): (["mpi", "merge", "--output-file", f / "m.hex", "--address", "0x2000", "--size", "96", "--file", f / "nompi.hex"], [f / "m.hex"]),
        ("mpi-merge", "input-outside-area"): (["mpi", "merge", "--output-file", f / "m.hex", "--address", "0x3000", "--size", "96", "--file", f / "mpi1.hex"], [f / "m.hex"]),
        ("image-boot", "missing-input"): (["image", "boot", "--input-file", f / "nope.suit", "--storage-output-directory", f / "bo"], [f / "bo"]),
        ("image-boot", "envelope-larger-than-slot"): (["image", "boot", "--input-file", f / "big.suit", "--storage-output-directory", f / "bo"], [f / "bo"]),
        ("image-update", "missing-input"): (["image", "update", "--input-file", f / "nope.suit", "--storage-output-file", f / "s.hex",
                                             "--dfu-partition-output-file", f / "p.hex"], [f / "s.hex", f / "p.hex"]),
        ("keys", "unsupported-combination"): (["keys", "--output-file", f / "kk", "--type", "ed25519", "--private-format", "pkcs1"], [f / "kk_priv.pem", f / "kk_pub.pem"]),
        ("convert", "missing-input"): (["convert", "--input-file", f / "nokey.pem", "--output-file", f / "k.c"], [f / "k.c"]),
        ("convert", "not-a-pem-key"): (["convert", "--input-file", f / "notpem.pem", "--output-file", f / "k.c"], [f / "k.c"]),
        ("encrypt", "missing-firmware"): (["encrypt", "encrypt-and-generate", "--firmware", f / "nofw.bin", "--key-name", "fwenc"] + enc,
                                          [f / "eo" / n for n in ("encrypted_content.bin", "plain_text_digest.bin", "plain_text_size.txt", "suit_encryption_info.bin")]),
        ("encrypt", "missing-key"): (["encrypt", "encrypt-and-generate", "--firmware", f / "fw.bin", "--key-name", "nosuchkey"] + enc,
                                     [f / "eo" / n for n in ("encrypted_content.bin", "plain_text_digest.bin", "plain_text_size.txt", "suit_encryption_info.bin")]),
    }
    for s in scns:
        key = (s["cmd"], s["cause"])
        if key not in table:
            raise core.MachineryError(f"no executor for failure scenario {key}")
        args, outs = table[key]
        for p_ in outs:
            if p_.is_dir():
                import shutil
                shutil.rmtree(p_)
            elif p_.exists():
                p_.unlink()
        rc, tb = cli(f, *args)
        left = any((p_.is_dir() and any(p_.iterdir())) or p_.is_file() for p_ in outs)
        tr.begin({"failure": s})
        tr.ev("Failure", cmd=s["cmd"], cause=s["cause"], rc=rc, left=left)
        if s["dev"] != "none":
            ctx.observe(f"O15 deviation {s['dev']} taken by {s['cmd']} / {s['cause']} (exit status {rc}, output left behind: {left})")
        ctx.count("evaluations")
        ctx.nontriv(("failure", s["cmd"], s["cause"]))


def replay(ctx, rec):
    run(ctx)
