"""G01 (growth beyond the listed properties, DESIGN.md 4.16) - CLI front end: format selection and exit-status contract.
Not a listed property: `./check G01` exists so that the specification keeps covering more of the system; its evidence goes to
evidence/growth/ and it is not registered in MANIFEST.json."""
from __future__ import annotations

import json
import subprocess

import yaml

from . import core, envgen, toolrun

LEVEL = "model_checking"


def cli(d, *args):
    p = subprocess.run(core.cli_cmd(*args), cwd=d, env=core.cli_env(), capture_output=True, text=True)
    return p.returncode, "Traceback (most recent call last)" in p.stderr


def run(ctx: core.Check):
    ctx.cov["rule"] = "create/parse x file extension x format flag x real content format; input-error causes x commands"
    d = ctx.tmp("g01")
    sh = envgen.random_shape(ctx.rng, maxdepth=0, small=True)
    sh.update({"pad": None, "deps": []})
    desc = envgen.Builder(d / "b").desc(sh, toolrun.create_lib)
    ref = toolrun.create_lib(desc)
    (d / "ref.suit").write_bytes(ref)
    tr = toolrun.Trace()
    n = 0
    for content in ("json", "yaml"):
        text = json.dumps(desc) if content == "json" else yaml.dump(desc, sort_keys=False)
        for ext in ("json", "yaml", "YAML", "yml", "txt", "suit"):
            for flag in ("AUTO", "json", "yaml"):
                n += 1
                inp, out = d / f"in{n}.{ext}", d / f"out{n}.suit"
                if ext == "suit":
                    if content == "yaml":
                        continue
                    inp.write_bytes(ref)
                    c = "suit"
                else:
                    inp.write_text(text)
                    c = content
                rc, tb = cli(d, "create", "--input-file", inp, "--output-file", out, "--input-format", flag)
                tr.begin({"cmd": "create", "ext": ext, "flag": flag, "content": c})
                if out.exists() and out.stat().st_size == 0:
                    ctx.observe("O11: a create that fails while encoding leaves a 0-byte output file behind (the file is opened before the description is encoded)")
                tr.ev("Format", cmd="create", ext=ext, flag=flag, content=c, rc=rc, written=out.exists() and out.stat().st_size > 0,
                      same=out.exists() and out.read_bytes() == ref, tb=tb)
                ctx.count("evaluations")
                ctx.nontriv(("create", ext, flag, c))
    want = toolrun.parse_lib(ref)
    for ext in ("json", "yaml", "YAML", "yml", "txt"):
        for flag in ("AUTO", "json", "yaml"):
            n += 1
            out = d / f"p{n}.{ext}"
            rc, tb = cli(d, "parse", "--input-file", d / "ref.suit", "--output-file", out, "--output-format", flag)
            same = False
            if out.exists():
                try:
                    same = yaml.safe_load(out.read_text()) == want
                except Exception:
                    same = False
            tr.begin({"cmd": "parse", "ext": ext, "flag": flag})
            tr.ev("Format", cmd="parse", ext=ext, flag=flag, content="suit", rc=rc, written=out.exists(), same=same, tb=tb)
            ctx.count("evaluations")
            ctx.nontriv(("parse", ext, flag))
    # input errors
    (d / "broken.yaml").write_text("SUIT_Envelope_Tagged: [unclosed\n")
    (d / "unknown.yaml").write_text(yaml.dump({"SUIT_Envelope_Tagged": {"suit-manifest": {"no-such-key": 1}}}))
    (d / "bad.suit").write_bytes(b"\xd8\x6b\xa1\x02")
    for cause, args, out in (
            ("missing-input", ["create", "--input-file", d / "nope.yaml", "--output-file", d / "e1.suit"], d / "e1.suit"),
            ("broken-yaml", ["create", "--input-file", d / "broken.yaml", "--output-file", d / "e2.suit"], d / "e2.suit"),
            ("unknown-key", ["create", "--input-file", d / "unknown.yaml", "--output-file", d / "e3.suit"], d / "e3.suit"),
            ("bad-cbor", ["parse", "--input-file", d / "bad.suit", "--output-file", d / "e4.yaml"], d / "e4.yaml"),
            ("missing-input", ["image", "boot", "--input-file", d / "nope.suit", "--storage-output-directory", d], d / "none"),
            ("usage", ["create", "--output-file", d / "e5.suit"], d / "e5.suit"),
            ("usage", ["nosuchcommand"], d / "none")):
        rc, tb = cli(d, *args)
        tr.begin({"cause": cause, "args": [str(a) for a in args[:2]]})
        if tb:
            ctx.observe(f"an unclassified input error ({cause}) ends the CLI with a traceback (exit status {rc})")
        if out.exists() and out.is_file() and out.stat().st_size == 0:
            ctx.observe("O11: a create that fails while encoding leaves a 0-byte output file behind (the file is opened before the description is encoded)")
        tr.ev("Error", cause=cause, rc=rc, tb=tb, written=out.is_file() and out.stat().st_size > 0)
        ctx.count("evaluations")
        ctx.nontriv(("error", cause, args[0]))
    ctx.sample({"scenario": tr.scn[1], "event": tr.events[1]})
    toolrun.report(ctx, tr, module="Cli_Trace", label="cli", cap=50, keyfn=lambda b, s: f"{b['clause']}:{json.dumps(s, sort_keys=True)}")
    ctx.cov["states"] = max(ctx.cov["states"], 1)
    ctx.cov["transitions"] = max(ctx.cov["transitions"], 1)


def replay(ctx, rec):
    run(ctx)
