"""C17 - parsing untrusted bytes fails cleanly.

Use A/B  Parser_MC: the mutation machine over the item tree of each base envelope (Replace(node, kind) for every node x 20
         kinds, Truncate at every byte, Inflate(node, width), Nest(node, depth)); TLC enumerates the space exhaustively for
         one mutation and by simulation for sequences of up to three, and prints it.
Use C    every mutant is fed to the real SuitEnvelopeTagged.from_cbor(...).to_obj() in disposable worker processes; outcome
         class, CPU time and peak-RSS growth are Parse events judged by Parser_Trace (ParseJudge).
Level: exploration driven by the specification - this family cannot quantify over all byte strings and the resource clause is
a measurement.
"""
from __future__ import annotations

import json
import os
import shutil
import subprocess
import sys
from concurrent.futures import ThreadPoolExecutor
from pathlib import Path

from . import cborx, core, envgen, signrun, tlc, toolrun

LEVEL = "exploration"
WORKER = r"""
import sys, json, time, resource, signal, base64
sys.path.insert(0, sys.argv[1])
from suit_generator.suit.envelope import SuitEnvelopeTagged
from suit_generator.exceptions import SUITError
def handler(signum, frame):
    raise TimeoutError()
signal.signal(signal.SIGALRM, handler)
for line in sys.stdin:
    j = json.loads(line)
    data = base64.b64decode(j["b"])
    r0 = resource.getrusage(resource.RUSAGE_SELF).ru_maxrss
    t0 = time.process_time()
    signal.alarm(30)
    try:
        SuitEnvelopeTagged.from_cbor(data).to_obj()
        out = "model"
    except TimeoutError:
        out = "timeout"
    except SUITError:
        out = "SUITError"
    except ValueError:
        out = "ValueError"
    except RecursionError:
        out = "RecursionError"
    except MemoryError:
        out = "MemoryError"
    except BaseException as e:
        out = type(e).__name__
    signal.alarm(0)
    cpu = int((time.process_time() - t0) * 1000)
    rss = resource.getrusage(resource.RUSAGE_SELF).ru_maxrss - r0
    print(json.dumps({"id": j["id"], "outcome": out, "cpu_ms": cpu, "rss_kb": rss}), flush=True)
"""


# ---------------------------------------------------------------------------------------------------------------
# editable tree


class Node:
    __slots__ = ("kind", "val", "kids", "tag")

    def __init__(self, kind, val=None, kids=None, tag=None):
        self.kind, self.val, self.kids, self.tag = kind, val, kids or [], tag


def to_tree(it: cborx.Item) -> Node:
    if it.mt in (0, 1):
        return Node("int", it.val)
    if it.mt == 2:
        try:
            inner = cborx.loads(it.val) if it.val else None
        except cborx.CborError:
            inner = None
        if inner is not None and inner.mt in (4, 5, 6):
            return Node("wrap", kids=[to_tree(inner)])
        return Node("bstr", it.val)
    if it.mt == 3:
        return Node("tstr", it.val)
    if it.mt == 4:
        return Node("arr", kids=[to_tree(x) for x in it.val])
    if it.mt == 5:
        kids = []
        for k, v in it.val:
            kids += [to_tree(k), to_tree(v)]
        return Node("map", kids=kids)
    if it.mt == 6:
        return Node("tag", kids=[to_tree(it.val)], tag=it.tag)
    return Node("simple", it.raw)


def enc(n: Node) -> bytes:
    k = n.kind
    if k == "int":
        return cborx.dumps(n.val)
    if k == "bstr":
        return cborx.dumps(n.val)
    if k == "tstr":
        return cborx.dumps(n.val)
    if k == "wrap":
        return cborx.dumps(enc(n.kids[0]))
    if k == "arr":
        return cborx.head(4, len(n.kids)) + b"".join(enc(x) for x in n.kids)
    if k == "map":
        return cborx.head(5, len(n.kids) // 2) + b"".join(enc(x) for x in n.kids)
    if k == "tag":
        return cborx.head(6, n.tag) + enc(n.kids[0])
    if k == "raw":
        return n.val
    return n.val  # simple: raw bytes


def nodes(root: Node):
    out = []

    def walk(n, parent, idx):
        out.append((n, parent, idx))
        for i, c in enumerate(n.kids):
            walk(c, n, i)

    walk(root, None, 0)
    return out


REPL = {
    "uint0": b"\x00", "nint": b"\x20", "bstr0": b"\x40", "bstr1": b"\x41\x00", "tstr1": b"\x61a", "arr0": b"\x80", "arr1": b"\x81\x00",
    "map0": b"\xa0", "map1": b"\xa1\x00\x00", "null": b"\xf6", "true": b"\xf5", "float": b"\xf9\x3e\x00", "hff": b"\x41\xff",
    "u64max": b"\x1b" + b"\xff" * 8, "tag107int": b"\xd8\x6b\x00",
    "mapk1": b"\xa1\x01\x02", "mapkneg": b"\xa1\x20\x00", "mapktext": b"\xa2\x61a\x00\x61b\x01", "arrmap": b"\x82\xa1\x01\x02\xa0",
    "undefined": b"\xf7", "simple32": b"\xf8\x20", "false": b"\xf4",
}


def mutate(base: bytes, muts: list) -> bytes | None:
    """Apply a sequence of abstract mutations (from Parser_MC) to the base envelope."""
    root = to_tree(cborx.loads(base))
    data = None
    for m in muts:
        ns = nodes(root)
        if m["m"] == "truncate":
            return enc(root)[: m["n"]]
        idx = min(m["node"], len(ns)) - 1
        n, parent, pos = ns[idx]
        if m["m"] == "replace":
            k = m["kind"]
            if k in REPL:
                new = Node("raw", REPL[k])
            elif k == "wrongtag":
                new = Node("tag", kids=[n], tag=999)
            elif k == "wrapped":
                new = Node("raw", cborx.dumps(enc(n)))
            elif k == "bare":
                new = n.kids[0] if n.kind == "wrap" else Node("raw", n.val if n.kind == "bstr" and n.val else b"\x00")
            elif k in ("dup", "drop"):
                if parent is None or parent.kind not in ("arr", "map"):
                    new = n
                elif parent.kind == "arr":
                    if k == "dup":
                        parent.kids.insert(pos, n)
                    else:
                        parent.kids.pop(pos)
                    continue
                else:
                    p2 = pos - (pos % 2)
                    if k == "dup":
                        parent.kids[p2:p2] = parent.kids[p2:p2 + 2]
                    else:
                        del parent.kids[p2:p2 + 2]
                    continue
            else:
                new = n
            if parent is None:
                root = new
            else:
                parent.kids[pos] = new
        elif m["m"] == "inflate":
            raw = enc(n)
            mt = raw[0] >> 5
            if mt in (2, 3, 4, 5):
                _, _, arg, hl, _ = cborx._head(raw, 0)
                w = m["w"]
                big = {8: bytes([(mt << 5) | 24, 0xFF]), 16: bytes([(mt << 5) | 25, 0xFF, 0xFF]),
                       32: bytes([(mt << 5) | 26, 0xFF, 0xFF, 0xFF, 0xFF]),
                       63: bytes([(mt << 5) | 27, 0x7F]) + b"\xff" * 7}[w]
                new = Node("raw", big + raw[hl:])
                if parent is None:
                    root = new
                else:
                    parent.kids[pos] = new
        elif m["m"] == "cuthead":
            w = m["w"]
            ai = {1: 24, 2: 25, 4: 26, 8: 27}[w]
            new = Node("raw", bytes([(m["mt"] << 5) | ai]) + b"\x00" * ((w - 1) if m["f"] else 0))
            if parent is None:
                root = new
            else:
                parent.kids[pos] = new
        elif m["m"] == "nest":
            new = Node("raw", b"\x81" * m["d"] + enc(n))
            if parent is None:
                root = new
            else:
                parent.kids[pos] = new
    return enc(root)


# ---------------------------------------------------------------------------------------------------------------


def bases(ctx, d):
    keys = signrun.Keys(d / "keys")
    out = []
    # 1: flat envelope with every member kind; 2: hierarchical + text + payloads; 3: signed, with encryption info parameter
    for k, (deps, signed) in enumerate(((0, False), (1, False), (0, True))):
        sh = envgen.random_shape(ctx.rng, maxdepth=0, small=True)
        sh.update({"pad": None, "deps": [], "cid": ["mid", "nordicsemi.com", "nRF54H20_sample_app"], "version": "1.2.3-rc.1",
                   "mem": {"suit-payload-fetch": ["emb", None, None], "suit-install": ["sev", envgen.ALGS[k], "none"],
                           "suit-text": ["sev", envgen.ALGS[k + 1], "none"], "suit-candidate-verification": ["sevmiss", envgen.ALGS[2], "wrong"]},
                   "pay": [["#p", 9, "hex", 3]], "imgs": [["raw", envgen.ALGS[0], 10, 1]]})
        if deps:
            child = envgen.random_shape(ctx.rng, maxdepth=0, small=True)
            child.update({"pad": None, "deps": []})
            sh["deps"] = [["#dep", child, "inline", envgen.ALGS[3]]]
        b = envgen.Builder(d / f"base{k}")
        data = toolrun.create_lib(b.desc(sh, toolrun.create_lib))
        if signed:
            p, q = d / f"b{k}.suit", d / f"b{k}s.suit"
            p.write_bytes(data)
            if signrun.sign_single(p, q, keys, "kp256", 0x4000AA00, "es-256", "error") is None and q.exists():
                data = q.read_bytes()
        out.append(data)
    # 4: a manifest with an encryption info parameter (byte-string-wrapped COSE_Encrypt_Tagged with a recipient): 'bare' on its
    # wrapper yields the single-wrapped form, kinds replace the tag and its fields
    from . import wiregen
    desc = wiregen.base()
    desc["SUIT_Envelope_Tagged"]["suit-manifest"]["suit-install"] = [{"suit-directive-override-parameters": {
        "suit-parameter-encryption-info": wiregen.param_value("suit-parameter-encryption-info", 1), "suit-parameter-uri": "#fw"}},
        {"suit-directive-fetch": []}]
    out.append(toolrun.create_lib(desc))
    return out


STRESS = ["a" * 40 + "!", "en-" + "abcdefgh" * 6 + ".", "x" * 64 + "\u00e9", "a-" * 30 + "!", "aA1" * 20 + " ", "0" * 50 + "x",
          " " * 200, "\t\n" * 50, "a" * 5000, "/" * 100 + "..", "http://" + "a." * 40, "%" * 60, "(a+)+" * 10 + "!", "\\" * 80,
          "a_" * 30 + "$", "1." * 30 + "x", "#" * 70, "-" * 70 + "a", "\u00e9" * 50 + "\x00", '[["' * 20, "en" + "-abcdefgh" * 8 + "_",
          "A" * 31 + "\n", "file://" + "a/" * 60 + "\x7f", "1" * 45 + "e", "0x" + "f" * 40 + "g"]

HANG_S = 10   # wall-clock seconds the parent waits for ONE input before it declares a hang and kills the worker


def run_workers(ctx, mutants: dict):
    """mutants: id -> bytes.  Returns id -> result dict.  16 disposable worker processes are fed ONE input at a time; the
    parent enforces the watchdog itself (the worker's own alarm cannot be relied on: an exception raised from a signal handler
    while the parser is inside native code may be swallowed).  A worker that does not answer within HANG_S seconds is killed,
    the input is recorded as 'timeout', and a fresh worker takes over the rest of the share."""
    import base64
    import selectors
    import time

    ids = list(mutants)
    shares = [ids[i::16] for i in range(16)]

    def spawn():
        return subprocess.Popen([core.PY, "-c", WORKER, str(core.REPO)], stdin=subprocess.PIPE, stdout=subprocess.PIPE,
                                stderr=subprocess.DEVNULL, text=True, bufsize=1, env=core.cli_env(guard=True))

    def one(share):
        rows = []
        if not share:
            return rows
        p = spawn()
        sel = selectors.DefaultSelector()
        sel.register(p.stdout, selectors.EVENT_READ)

        def restart():
            nonlocal p, sel
            try:
                p.kill()
                p.wait(timeout=10)
            except Exception:
                pass
            sel.close()
            p = spawn()
            sel = selectors.DefaultSelector()
            sel.register(p.stdout, selectors.EVENT_READ)

        for i in share:
            t0 = time.time()
            try:
                p.stdin.write(json.dumps({"id": i, "b": base64.b64encode(mutants[i]).decode()}) + "\n")
                p.stdin.flush()
            except (BrokenPipeError, OSError):
                rows.append({"id": i, "outcome": "worker-died", "cpu_ms": 0, "rss_kb": 0})
                restart()
                continue
            line = ""
            while True:
                left = HANG_S - (time.time() - t0)
                if left <= 0 or not sel.select(timeout=left):
                    break
                line = p.stdout.readline()
                if line == "" or line.startswith("{"):
                    break
            if line.startswith("{"):
                rows.append(json.loads(line))
            elif line == "" and p.poll() is not None:
                rows.append({"id": i, "outcome": "worker-died", "cpu_ms": int((time.time() - t0) * 1000), "rss_kb": 0})
                restart()
            else:
                rows.append({"id": i, "outcome": "timeout", "cpu_ms": int((time.time() - t0) * 1000), "rss_kb": 0})
                restart()
        try:
            p.stdin.close()
            p.wait(timeout=10)
        except Exception:
            p.kill()
        sel.close()
        return rows

    with ThreadPoolExecutor(max_workers=16) as ex:
        res = [r for rows in ex.map(one, shares) for r in rows]
    return {r["id"]: r for r in res}


def run(ctx: core.Check):
    ctx.cov["rule"] = ("mutant = base envelope (flat / hierarchical / signed) + sequence of mutations from Parser_MC: every single-node "
                       "replacement by 20 CBOR kinds, every truncation, length inflation to 2^8/16/32/63 - 1, nesting to 10..1100, heads "
                       "with a cut-short length field (major types 2-5 x 1/2/4/8-byte fields x 0 or w-1 bytes present) in place of "
                       "every node (inside bstr wrappers: well-formed outside, cut short inside); bare cut-short heads as whole input; "
                       "sequences of 2-3 mutations and seeded random byte edits. Distinct & non-trivial = distinct mutant byte "
                       "strings that differ from the base.")
    d = ctx.tmp("c17")
    bs = bases(ctx, d)
    sd = d / "spec"
    sd.mkdir()
    for f in ("Parser.tla", "Parser_MC.tla"):
        shutil.copy(tlc.SPEC_DIR / f, sd / f)
    mutants, meta = {}, {}
    n = 0
    for bi, base in enumerate(bs):
        root = to_tree(cborx.loads(base))
        nn = len(nodes(root))
        (sd / "Parser_MC.cfg").write_text(f"SPECIFICATION Spec\nCONSTANTS\n  NNODES = {nn}\n  NBYTES = {len(base)}\n  DEPTH = 1\n  EMIT = TRUE\n  SIM = FALSE\n"
                                          "INVARIANT SpaceIsFinite\nINVARIANT Emit\nCHECK_DEADLOCK FALSE\n")
        g = tlc.run_tlc("Parser_MC", "Parser_MC.cfg", workers=1, spec_dir=sd, timeout=1800)
        tlc.require_ok(g, "Parser_MC")
        ctx.cov["states"] += g.distinct
        ctx.cov["transitions"] += g.generated
        seqs = g.tagged("SCN")
        ctx.cov["tlc_runs"].append({"module": "Parser_MC", "base": bi, "nodes": nn, "bytes": len(base), "use": "A/B:mutation space (depth 1, exhaustive)", "scenarios": len(seqs)})
        if ctx.quick:
            ctx.rng.shuffle(seqs)
            seqs = [s for s in seqs if s[0]["m"] != "truncate"][:1100] + [s for s in seqs if s[0]["m"] == "truncate"][:250]
        # longer mutation sequences by simulation
        (sd / "Parser_MC.cfg").write_text(f"SPECIFICATION Spec\nCONSTANTS\n  NNODES = {nn}\n  NBYTES = {len(base)}\n  DEPTH = 3\n  EMIT = TRUE\n  SIM = TRUE\n"
                                          "INVARIANT SpaceIsFinite\nINVARIANT Emit\nCHECK_DEADLOCK FALSE\n")
        sim = tlc.run_tlc("Parser_MC", "Parser_MC.cfg", workers=1, spec_dir=sd, simulate=f"num={100 if ctx.quick else 3000}", depth=4,
                          seed=ctx.seed, timeout=1800)
        tlc.require_ok(sim, "Parser_MC simulate")
        seqs += [s for s in sim.tagged("SCN") if len(s) >= 2]
        for s in seqs:
            try:
                m = mutate(base, s)
            except Exception:
                continue
            if m is None or m == base or len(m) > 65536:
                continue
            n += 1
            mutants[n] = m
            meta[n] = {"base": bi, "muts": s}
        # seeded random byte edits
        for _ in range(150 if ctx.quick else 20000):
            b = bytearray(base)
            for _ in range(ctx.rng.choice([1, 1, 2, 4])):
                b[ctx.rng.randrange(len(b))] = ctx.rng.randrange(256)
            n += 1
            mutants[n] = bytes(b)
            meta[n] = {"base": bi, "muts": "random-bytes"}
    # text content: every text string of every base replaced by strings that stress whatever inspects text (long runs closed by a
    # character of another class, nested punctuation, white space, non-ASCII tails) - well-formed CBOR, unusual CONTENT
    for bi, base in enumerate(bs):
        ns = nodes(to_tree(cborx.loads(base)))
        tpos = [i for i, (n_, _, _) in enumerate(ns) if n_.kind == "tstr"]
        for j, i in enumerate(tpos):
            picks = STRESS
            for st in picks:
                root = to_tree(cborx.loads(base))
                n_, parent, pos = nodes(root)[i]
                if parent is None:
                    continue
                parent.kids[pos] = Node("tstr", st)
                n += 1
                mutants[n] = enc(root)
                meta[n] = {"base": bi, "muts": f"text-{i}-{STRESS.index(st)}"}
    # chains of integrated dependency envelopes, each a byte string inside the previous one (the CBOR decoder's depth limit does not
    # apply across byte strings): a minimal envelope whose member "#d" holds the next one
    def chain(depth):
        inner = b"\x40"
        for _ in range(depth):
            inner = (b"\xd8\x6b\xa3\x02" + cborx.dumps(cborx.dumps([cborx.dumps([-16, b"\x00" * 32])])) + b"\x03" + cborx.dumps(cborx.dumps({1: 1, 2: 0}))
                     + cborx.dumps("#d") + cborx.dumps(inner))
        return inner
    for depth in ((10, 120, 340, 520) if ctx.quick else (10, 60, 120, 200, 300, 340, 400, 520, 800)):
        c_ = chain(depth)
        if len(c_) <= 65536:
            n += 1
            mutants[n] = c_
            meta[n] = {"base": -1, "muts": f"dependency-chain-{depth}"}
    # command sequences nested through byte strings (try-each: a list of wrapped sequences; run-sequence: one wrapped sequence)
    import hashlib

    def nested(code, depth):
        inner = cborx.dumps([14, 2])
        for _ in range(depth):
            inner = cborx.dumps([15, [inner]]) if code == 15 else cborx.dumps([32, inner])
        mfb = cborx.dumps(cborx.Pairs([(1, 1), (2, 1), (3, cborx.dumps(cborx.Pairs([(2, [[b"M"]])]))), (7, inner)]))
        auth = cborx.dumps([cborx.dumps([-16, hashlib.sha256(cborx.dumps(mfb)).digest()])])
        return b"\xd8\x6b\xa2\x02" + cborx.dumps(auth) + b"\x03" + cborx.dumps(mfb)
    for code in (15, 32):
        for depth in ((40, 160, 250, 400, 900) if ctx.quick else (10, 40, 100, 160, 200, 230, 250, 260, 300, 400, 600, 900, 1500)):
            x = nested(code, depth)
            if len(x) <= 65536:
                n += 1
                mutants[n] = x
                meta[n] = {"base": -1, "muts": f"nested-{'try-each' if code == 15 else 'run-sequence'}-{depth}"}
    # shared references (tags 28 / 29): an item that names its own parts repeatedly - a few bytes per level, twice the expansion per
    # level - under an unknown envelope key, as an integrated payload, in place of the manifest and of the authentication wrapper
    def shared(depth, wide=0):
        # wide: the tag heads as another well-formed encoder may write them (1 = two-byte argument d9 00 1c, 2 = eight-byte)
        t28 = (b"\xd8\x1c", b"\xd9\x00\x1c", b"\xdb" + b"\x00" * 7 + b"\x1c")[wide]
        t29 = (b"\xd8\x1d", b"\xd9\x00\x1d", b"\xdb" + b"\x00" * 7 + b"\x1d")[wide]
        cur = t28 + b"\x82\x01\x02"
        for k_ in range(depth - 1, -1, -1):
            cur = t28 + b"\x82" + cur + t29 + cborx.dumps(k_ + 1)
        return cur
    mfb0 = cborx.dumps(cborx.Pairs([(1, 1), (2, 1), (3, cborx.dumps(cborx.Pairs([(2, [[b"M"]])])))]))
    auth0 = cborx.dumps([cborx.dumps([-16, hashlib.sha256(cborx.dumps(mfb0)).digest()])])
    for depth in ((4, 12, 22, 40) if ctx.quick else (2, 4, 8, 12, 16, 20, 22, 24, 30, 40, 100, 400)):
        for wide in (0, 1, 2):
            bomb = shared(depth, wide)
            for where, x in (("only-member", b"\xd8\x6b\xa1\x61x" + bomb),
                             ("unknown-key", b"\xd8\x6b\xa3\x02" + cborx.dumps(auth0) + b"\x03" + cborx.dumps(mfb0) + b"\x18\x63" + bomb),
                             ("payload", b"\xd8\x6b\xa3\x02" + cborx.dumps(auth0) + b"\x03" + cborx.dumps(mfb0) + b"\x62#p" + bomb),
                             ("manifest", b"\xd8\x6b\xa2\x02" + cborx.dumps(auth0) + b"\x03" + bomb),
                             ("wrapper", b"\xd8\x6b\xa2\x02" + bomb + b"\x03" + cborx.dumps(mfb0)),
                             ("top", bomb)):
                n += 1
                mutants[n] = x
                meta[n] = {"base": -1, "muts": f"shared-references-{where}-{depth}-w{wide}"}
    # a tag-96 item with a malformed body where the encryption info parameter is expected (single byte-string wrapper)
    for body in (b"\x01", b"\x82\x01\x02", b"\xa1\x01\x02", b"\x84\x40\xa0\xf6\x01", b"\x61x", b"\x84\x40\xa0\xf6\x80"):
        seq = cborx.dumps([20, cborx.Pairs([(19, b"\xd8\x60" + body)])])
        mfb = cborx.dumps(cborx.Pairs([(1, 1), (2, 1), (3, cborx.dumps(cborx.Pairs([(2, [[b"M"]])]))), (20, seq)]))
        auth = cborx.dumps([cborx.dumps([-16, hashlib.sha256(cborx.dumps(mfb)).digest()])])
        n += 1
        mutants[n] = b"\xd8\x6b\xa2\x02" + cborx.dumps(auth) + b"\x03" + cborx.dumps(mfb)
        meta[n] = {"base": -1, "muts": "tag96-" + body.hex()}
    # bare cut-short heads and other tiny whole inputs (no envelope around them)
    tiny = [b""] + [bytes([b0]) + b"\x00" * z for b0 in range(256) for z in ((0, 1, 3, 7) if (b0 & 0x1F) >= 24 else (0,))]
    if ctx.quick:
        tiny = tiny[::3]
    for t in tiny:
        n += 1
        mutants[n] = t
        meta[n] = {"base": -1, "muts": "tiny-input"}
    ctx.note(f"Use C: {len(mutants)} mutants into the real parser (16 disposable workers)")
    res = run_workers(ctx, mutants)
    tr = toolrun.Trace()
    outcomes = {}
    for i, m in mutants.items():
        r = res.get(i, {"outcome": "worker-died", "cpu_ms": 0, "rss_kb": 0})
        tr.begin({"base": meta[i]["base"], "muts": meta[i]["muts"], "hex": m.hex() if len(m) < 3000 else m[:3000].hex() + "..."})
        tr.ev("Parse", outcome=r["outcome"], cpu_ms=r["cpu_ms"], rss_kb=r["rss_kb"], len=len(m))
        outcomes[r["outcome"]] = outcomes.get(r["outcome"], 0) + 1
        ctx.count("evaluations")
        ctx.nontriv(m.hex()[:4000])
    ctx.cov["outcomes"] = outcomes
    ctx.cov["max_cpu_ms"] = max(r["cpu_ms"] for r in res.values())
    ctx.cov["max_rss_growth_kb"] = max(r["rss_kb"] for r in res.values())
    ctx.sample({"mutation": meta[1], "event": tr.events[1]})
    toolrun.report(ctx, tr, module="Parser_Trace", label="parser", cap=5,
                   keyfn=lambda b, s: f"{b['clause']}:{json.dumps(s['muts'])}:{s['base']}")
    ctx.assumptions += ["CPU seconds and peak-RSS growth are measured in the worker (budgets 5 s / 256 MiB for inputs <= 64 KiB)",
                        "this family cannot quantify over all byte strings: the space is the specification's mutation machine "
                        "plus seeded byte edits"]


def replay(ctx, rec):
    scn = rec["replay"]["scenario"]
    data = bytes.fromhex(scn["hex"].rstrip("."))
    res = run_workers(ctx, {1: data})
    tr = toolrun.Trace()
    tr.begin(scn)
    r = res[1]
    tr.ev("Parse", outcome=r["outcome"], cpu_ms=r["cpu_ms"], rss_kb=r["rss_kb"], len=len(data))
    ctx.count("evaluations")
    ctx.nontriv("replay")
    ctx.nontriv("replay2")
    ctx.sample({"replayed": scn["muts"]})
    toolrun.report(ctx, tr, module="Parser_Trace", label="replay")
