"""./check selftest - the binding is demonstrated, not assumed.

(a) genuine traces recorded from the real code are accepted; the same traces with ONE recorded field corrupted, or ONE event
    dropped, are rejected by the named clause;
(b) the specifications themselves have teeth: deliberately wrong design variants are TLC counterexamples.
Exit 0 when every demonstration behaves as expected, 2 otherwise (this is machinery, not a property verdict).
"""
from __future__ import annotations

import copy
import os
import shutil
import sys
import tempfile
from pathlib import Path

from . import core, tlc, toolrun


def expect(name, cond, detail=""):
    print(("ok   " if cond else "FAIL ") + name + (f"  [{detail}]" if detail and not cond else ""), flush=True)
    return bool(cond)


def clauses(ctx, module, events):
    return sorted({b["clause"] for b in ctx.validate(module, module + ".cfg", events, label="selftest")})


def neg_cfg(module, cfg, edits, expect_inv):
    """Run module with an edited copy of cfg; TLC must report a violation of expect_inv."""
    sd = Path(tempfile.mkdtemp(prefix="selftest_spec_"))
    try:
        for f in tlc.SPEC_DIR.glob("*.tla"):
            shutil.copy(f, sd / f.name)
        text = (tlc.SPEC_DIR / cfg).read_text()
        for a, b in edits:
            assert a in text, (cfg, a)
            text = text.replace(a, b)
        (sd / cfg).write_text(text)
        r = tlc.run_tlc(module, cfg, workers=8, spec_dir=sd, timeout=600)
        return (not r.ok) and any(expect_inv in e for e in r.errors)
    finally:
        shutil.rmtree(sd, ignore_errors=True)


def main():
    os.environ.setdefault(core.GUARD, "1")
    ctx = core.Check("SELFTEST", "quick", 1)
    ok = True
    try:
        # ---- C10: cache trace
        from . import c10_cache as c10
        r = c10.Runner(ctx)
        c10.run_ops_scenario(r, {"kind": "selftest", "eb": 16, "ops": [["add", "a", 5, 1], ["add", "b", 20, 2], ["close"]]})
        good = r.events
        ok &= expect("C10 genuine trace accepted", clauses(ctx, "Cache_Trace", good) == [])
        bad = copy.deepcopy(good)
        bad[2]["ents"][0]["vh"] = 0x58
        ok &= expect("C10 corrupted length form rejected", clauses(ctx, "Cache_Trace", bad) == ["PayloadLengthFixed4ByteForm"])
        bad = copy.deepcopy(good)
        bad[1]["end"] += 1
        bad[1]["ents"][-1]["e"] += 1
        ok &= expect("C10 misaligned slot rejected", "SlotAligned" in clauses(ctx, "Cache_Trace", bad) or "EntriesContiguous" in clauses(ctx, "Cache_Trace", bad))
        bad = [e for k, e in enumerate(good) if k != 2]
        ok &= expect("C10 dropped Add event rejected", clauses(ctx, "Cache_Trace", bad) != [])
        # ---- C16: hex trace
        from . import c16_update as c16
        events, tids, n = [], {}, [0]

        def nt():
            n[0] += 1
            return n[0]
        c16.execute(ctx, {"size": 40, "part": 0x0E10FFF0, "uci": 0xFFF8, "caches": 2, "via": "lib", "seed": 1}, events, tids, nt)
        for k, e in enumerate(events):
            if e["ev"] == "Begin":
                e["b"] = k + 1
        ok &= expect("C16 genuine trace accepted", clauses(ctx, "Update_Trace", events) == [])
        bad = copy.deepcopy(events)
        rec = next(e for e in bad if e["ev"] == "Rec" and e["t"] == 0)
        rec["data"][0] ^= 1
        ok &= expect("C16 corrupted record rejected", clauses(ctx, "Update_Trace", bad) == ["BytesAtAddressAreTheExpectedOnes"])
        bad = [e for e in events if not (e["ev"] == "Rec" and e["t"] == 0 and e is next(x for x in events if x["ev"] == "Rec" and x["t"] == 0))]
        for k, e in enumerate(bad):
            if e["ev"] == "Begin":
                e["b"] = k + 1
        ok &= expect("C16 dropped record rejected", "EveryExpectedByteWritten" in clauses(ctx, "Update_Trace", bad))
        # ---- C04: sign trace
        from . import c04_sign, signrun
        d = ctx.tmp("st")
        keys = signrun.Keys(d / "keys")
        sh, p = c04_sign.make_input(ctx, ctx.rng, d, 0)
        tr = toolrun.Trace()
        c04_sign.sign_chain(ctx, tr, keys, sh, p, [("error", "ked", "eddsa", 7)])
        ok &= expect("C04 genuine trace accepted", clauses(ctx, "Tool_Trace", tr.events) == [])
        bad = copy.deepcopy(tr.events)
        bad[2]["e"]["blocks"][0]["signer"] = "nobody"
        ok &= expect("C04 unverifiable block rejected", clauses(ctx, "Tool_Trace", bad) == ["SignatureVerifiesUnderMatchingKey"])
        bad = copy.deepcopy(tr.events)
        bad[2]["e"]["others"][0][1] += 999
        ok &= expect("C04 changed member rejected", clauses(ctx, "Tool_Trace", bad) == ["EverythingElseUnchanged"])
        bad = [tr.events[0], tr.events[2]]
        ok &= expect("C04 dropped Created event rejected", clauses(ctx, "Tool_Trace", bad) == ["UnknownArtifact"])
        # ---- specification-level negatives
        ok &= expect("Envelope_MC: swapped update steps are a counterexample",
                     neg_cfg("Envelope_MC", "Envelope_MC.cfg", [("ORDER <- OrderShipped", "ORDER <- OrderSwapped")], "I1_DigestBindsManifest"))
        ok &= expect("Envelope_MC: stale child is a counterexample",
                     neg_cfg("Envelope_MC", "Envelope_MC.cfg", [('REFRESH = "dig"', 'REFRESH = "built"')], "ParentBindsChild"))
        ok &= expect("Encrypt_MC: arbitrary IV generator is a counterexample",
                     neg_cfg("Encrypt_MC", "Encrypt_MC.cfg", [('GEN = "fresh"', 'GEN = "any"')], "IvsPairwiseDistinctPerKey"))
        ok &= expect("Encrypt_MC: stale AAD literal is a counterexample",
                     neg_cfg("Encrypt_MC", "Encrypt_MC.cfg", [('LITERAL = "matches"', 'LITERAL = "stale"')], "DecryptsToFirmware"))
        ok &= expect("Encrypt_MC: an Encryptor that keeps its first KMS context is a counterexample (needs a history of two calls)",
                     neg_cfg("Encrypt_MC", "Encrypt_MC.cfg", [('INITKMS = "each"', 'INITKMS = "once"')], "DecryptsToFirmware"))
        # ---- C09 resolution trace (logging plug-in sign scripts)
        from . import c09_policy as c09
        wd = ctx.tmp("st_res")
        world = c09.ResolveWorld(wd, keys)
        root_file = c09.resolve_root(ctx, wd / "tree", keys)
        none = {"sign": "none", "kms": "none", "ctx": "none", "alg": "none", "action": "none"}
        scn = {"chain": [dict(none, sign="A", kms="B", ctx="C1"), dict(none, kms="A", action="skip"), none],
               "env": {"ncsSign": True, "ncsKms": True, "zephyr": False}, "refused": False}
        tr = toolrun.Trace()
        c09.run_resolve(ctx, tr, world, root_file, scn)
        ok &= expect("C09 genuine resolution trace accepted", clauses(ctx, "Tool_Trace", tr.events) == [])
        bad = copy.deepcopy(tr.events)
        bad[1]["used"][2]["kms"] = "E"
        ok &= expect("C09 child signed through the environment's KMS rejected",
                     clauses(ctx, "Tool_Trace", bad) == ["KmsScriptOwnThenInheritedThenEnvironment"])
        bad = copy.deepcopy(tr.events)
        bad[1]["used"] = bad[1]["used"][:2]
        ok &= expect("C09 dropped node call rejected", clauses(ctx, "Tool_Trace", bad) == ["EveryNamedNodeSignedOnce"])
    finally:
        ctx.abort()
    print("selftest", "PASSED" if ok else "FAILED")
    return 0 if ok else 2
